(* Properties/C09.v — a run-space launch equals its independent runs and is linked by stable IDs.
   Spec = Model/Launch.v: spec_launch; Impl = impl_launch instantiated with Gen/LaunchGen.v (impl). *)
From Coq Require Import List String ZArith NArith Bool Arith Permutation.
From SV Require Import Common.Prelude Model.Pipeline Model.Launch Proofs.Launch Gen.LaunchGen.
From SV Require Import Model.Stateful Proofs.Stateful Gen.OrchestratorGen.
Import ListNotations.
Open Scope string_scope.
Open Scope list_scope.

(* ---- generated facts ------------------------------------------------------------------------------------ *)
Lemma gen_translated : launch_translation_failed = false. Proof. reflexivity. Qed.
Lemma gen_stop_after_failure : stop_after_failure = true. Proof. reflexivity. Qed.
Lemma gen_fk_fields : fk_field_names = ["run_space_launch_id"; "run_space_attempt"; "run_space_index"; "run_space_context"].
Proof. reflexivity. Qed.
Lemma gen_launch_modes : launch_id_modes = ["provided_launch_id"; "idempotency_key"; "generated"]. Proof. reflexivity. Qed.
Lemma gen_prefixes : (rscf_prefix, rsm_prefix, rsl_prefix) = ("semantiva:rscf1:", "semantiva:rsm1:", "semantiva:rsl1:").
Proof. reflexivity. Qed.
Lemma gen_exit : exit_runtime_error = 4%Z. Proof. reflexivity. Qed.
Lemma gen_end_summary : end_summary_keys = ["planned_runs"; "completed_runs"]. Proof. reflexivity. Qed.
Lemma gen_impl : impl = mkVariant enrich_on_copy true spec_id_paths_agree. Proof. reflexivity. Qed.

(* ---- components that keep state on their instance ------------------------------------------------------------
   Every execute() builds its own node instances (read from orchestrator.py: _instantiate_nodes is called once per
   execute and keeps nothing; hard obligation).  Hence, for nodes that are arbitrary Mealy machines, the runs of one
   Pipeline object / of one launch are independent standalone runs: run i depends on input i only. *)
Lemma gen_fresh_nodes_per_run : fresh_nodes_per_run = true. Proof. reflexivity. Qed.

Theorem C09_stateful_runs_are_standalone : forall (S D : Type) (ns : list (mnode S D)) ds,
  m_runs fresh_nodes_per_run ns ds = map (m_standalone ns) ds.
Proof. intros S D ns ds. rewrite gen_fresh_nodes_per_run. apply fresh_runs_are_standalone. Qed.

Theorem C09_stateful_no_leak : forall (S D : Type) (ns : list (mnode S D)) ds ds' i j,
  nth_error ds i = nth_error ds' j ->
  nth_error (m_runs fresh_nodes_per_run ns ds) i = nth_error (m_runs fresh_nodes_per_run ns ds') j.
Proof. intros S D ns ds ds' i j. rewrite gen_fresh_nodes_per_run. apply fresh_runs_no_leak. Qed.

(* were instances shared between runs, a stateful node would leak (witness: a running total) -- and stateless nodes
   would hide it, which is why the component library alone cannot show the difference *)
Theorem C09_stateful_refuted_when : fresh_nodes_per_run = false ->
  exists (ns : list (mnode Z Z)) ds, m_runs fresh_nodes_per_run ns ds <> map (m_standalone ns) ds.
Proof. intros E. rewrite E. exact reused_instances_leak. Qed.
Theorem C09_stateless_hide_reuse : forall (S D : Type) (ns : list (mnode S D)),
  Forall (stateless S D) ns -> forall ds, m_runs false ns ds = map (m_standalone ns) ds.
Proof. exact stateless_reuse_is_harmless. Qed.

Section Launches.
Variable H : string -> string.

(* results and per-run records of a launch are the standalone ones, in plan order, up to the first failing run *)
Theorem C09_launch_is_map pl o cs :
  map strip_fk (l_runs (spec_launch H pl o cs)) =
    map (standalone H pl (o_traced o)) (firstn (List.length (l_runs (spec_launch H pl o cs))) (map (merge (o_cli o)) cs))
  /\ List.length (l_runs (spec_launch H pl o cs)) <= List.length cs
  /\ ((forall c, In c cs -> is_done (impl_run (p_nodes pl) (DNone, merge (o_cli o) c)) = true) ->
      map strip_fk (l_runs (spec_launch H pl o cs)) = map (standalone H pl (o_traced o)) (map (merge (o_cli o)) cs)).
Proof. exact (launch_is_map_spec H pl o cs). Qed.

(* the code (one Pipeline object, one driver) refines the Spec once a traced run no longer edits the shared canonical spec *)
Theorem C09_impl_is_spec_full : enrich_on_copy = true ->
  forall pl o cs, norm_launch (impl_launch H impl pl o cs) = spec_launch H pl o cs.
Proof. intros E pl o cs. apply impl_refines_spec; [left; exact E|reflexivity]. Qed.

(* outside the defect's class (no node with sweep metadata: both canonical texts coincide), whatever the fact says *)
Theorem C09_impl_is_spec_partial pl o cs : p_canon pl = p_canon_enriched pl ->
  norm_launch (impl_launch H impl pl o cs) = spec_launch H pl o cs.
Proof. intros E. apply impl_refines_spec; [right; exact E|reflexivity]. Qed.

(* nothing leaks: the records of a run depend on its own context only, not on its position or on earlier runs *)
Theorem C09_no_leak_full : enrich_on_copy = true ->
  forall pl o cs cs' i j r r',
  nth_error (l_runs (impl_launch H impl pl o cs)) i = Some r ->
  nth_error (l_runs (impl_launch H impl pl o cs')) j = Some r' ->
  nth_error cs i = nth_error cs' j ->
  strip_fk (norm_run r) = strip_fk (norm_run r').
Proof. intros E pl o cs cs' i j r r'. apply no_leak_impl; [left; exact E|reflexivity]. Qed.

Theorem C09_no_leak_partial pl o cs cs' i j r r' : p_canon pl = p_canon_enriched pl ->
  nth_error (l_runs (impl_launch H impl pl o cs)) i = Some r ->
  nth_error (l_runs (impl_launch H impl pl o cs')) j = Some r' ->
  nth_error cs i = nth_error cs' j ->
  strip_fk (norm_run r) = strip_fk (norm_run r').
Proof. intros E. apply no_leak_impl; [right; exact E|reflexivity]. Qed.

(* one start, one end, also when run k fails: planned = number of planned runs, completed = k, later runs not started *)
Theorem C09_bracket pl o cs : o_active o = true -> o_traced o = true ->
  let L := spec_launch H pl o cs in
  flat L = RSStart 0 (o_spec_id o) (o_launch o) (o_attempt o) (o_combine o) (List.length cs) (o_maxr o) (o_inputs_id o)
           :: flat_map ro_events (l_runs L)
           ++ [RSEnd 0 (o_launch o) (o_attempt o) (List.length cs) (completed (l_runs L)) (if all_done (l_runs L) then "" else "failed")]
  /\ filter is_rs (flat_map ro_events (l_runs L)) = []
  /\ all_done (removelast (l_runs L)) = true
  /\ (all_done (l_runs L) = true -> List.length (l_runs L) = List.length cs /\ completed (l_runs L) = List.length cs /\ l_exit L = 0%Z)
  /\ (all_done (l_runs L) = false ->
      completed (l_runs L) = List.length (l_runs L) - 1 /\ List.length (l_runs L) <= List.length cs /\ l_exit L = 4%Z).
Proof. exact (bracket_spec H pl o cs). Qed.

(* every pipeline_start carries launch id, attempt, its 0-based index and its own context; one pipeline_start per run *)
Theorem C09_fk_fields pl o cs i r : o_active o = true -> o_traced o = true ->
  nth_error (l_runs (spec_launch H pl o cs)) i = Some r ->
  exists c, nth_error cs i = Some c /\
    ro_events r = PStart 0 (H (p_canon pl)) (Some (o_launch o, o_attempt o, i, merge (o_cli o) c))
                  :: body (p_nodes pl) (DNone, merge (o_cli o) c)
    /\ filter is_pstart (body (p_nodes pl) (DNone, merge (o_cli o) c)) = [].
Proof. exact (fk_fields_spec H pl o cs i r). Qed.
End Launches.

(* with the defect present a later run of a launch is NOT its standalone run: the pipeline id differs *)
Definition wit_pipe : pipe := mkPipe [] "plain" "enriched".
Definition wit_opts : lopts := mkOpts false true false [] "" 1%Z "" None "" 0%Z.
Theorem C09_no_leak_refuted_when : enrich_on_copy = false ->
  exists (H : string -> string) pl o cs cs' i j r r',
    nth_error (l_runs (impl_launch H impl pl o cs)) i = Some r /\
    nth_error (l_runs (impl_launch H impl pl o cs')) j = Some r' /\
    nth_error cs i = nth_error cs' j /\
    strip_fk (norm_run r) <> strip_fk (norm_run r').
Proof.
  intros E. exists (fun s => s), wit_pipe, wit_opts, [[]; []], [[]], 1, 0.
  unfold impl. rewrite E. vm_compute. eexists. eexists. repeat split. discriminate.
Qed.

(* ---- identifiers ------------------------------------------------------------------------------------------- *)
Section Ids.
Variable HJ : jv -> string.
Variable HS : string -> string.

Theorem C09_spec_id_agree_full : spec_id_paths_agree = true ->
  forall r, spec_id_inspect HJ impl r = spec_id_runtime HJ r.
Proof. intros E r. unfold spec_id_inspect, impl. cbn [v_paths_agree]. rewrite E. reflexivity. Qed.

(* mappings that spell out every default in canonical form get the same id on both paths, whatever the fact says *)
Theorem C09_spec_id_agree_partial r : raw_json r = cfg_json (parse r) -> spec_id_inspect HJ impl r = spec_id_runtime HJ r.
Proof. intros E. unfold spec_id_inspect, spec_id_runtime. destruct (v_paths_agree impl); [reflexivity|now rewrite E]. Qed.

(* cosmetic edits (key order at the top level, inside a block, inside a context mapping) keep the id *)
Theorem C09_spec_id_invariant r r' : cosmetic r r' -> spec_id_runtime HJ r = spec_id_runtime HJ r'.
Proof. intros Hc. unfold spec_id_runtime. now rewrite (cfg_json_cosmetic r r' Hc). Qed.

(* different canonical forms get different ids, or the hash collides *)
Theorem C09_spec_id_discriminates r r' :
  spec_id_runtime HJ r = spec_id_runtime HJ r' -> cfg_json (parse r) <> cfg_json (parse r') -> Collision HJ.
Proof. intros E N. exists (cfg_json (parse r)), (cfg_json (parse r')). split; assumption. Qed.

(* a launch id from an idempotency key (or given explicitly) does not depend on the fresh-uuid oracle *)
Theorem C09_launch_id_reproducible m spec_id inputs fresh fresh' :
  match m with LExplicit id => id <> "" | LIdem k => k <> "" | LGenerated => False end ->
  launch_id HS m spec_id inputs fresh = launch_id HS m spec_id inputs fresh'.
Proof. destruct m as [[|a s]|[|a s]|]; simpl; intros Hm; try reflexivity; contradiction. Qed.

(* the inputs id changes exactly when a fingerprint (role, uri, digest, size) changes, modulo collisions *)
Theorem C09_inputs_id_iff sid fps fps' : fps <> [] -> fps' <> [] ->
  (fps = fps' -> inputs_id HJ sid fps = inputs_id HJ sid fps') /\
  (inputs_id HJ sid fps = inputs_id HJ sid fps' -> fps = fps' \/ Collision HJ).
Proof.
  intros N N'. split; [intros ->; reflexivity|].
  intros E. destruct (list_eq_dec fp_eq_dec fps fps') as [Eq|Ne]; [left; exact Eq|right].
  destruct fps; [contradiction|]. destruct fps'; [contradiction|]. simpl in E. injection E as E.
  eexists. eexists. split; [|exact E]. intro J. apply Ne. exact (rsm_json_inj _ _ _ J).
Qed.
End Ids.

Definition wit_raw : raw := [RBlocks [[BMode "by_position"; BContext [("value", [JFloat 1; JFloat 2])]]]].
Theorem C09_spec_id_agree_refuted_when : spec_id_paths_agree = false ->
  exists (HJ : jv -> string) r, spec_id_inspect HJ impl r <> spec_id_runtime HJ r.
Proof.
  intros E. exists jprint, wit_raw. unfold spec_id_inspect, impl. cbn [v_paths_agree]. rewrite E. vm_compute. discriminate.
Qed.

(* ---- non-vacuity ------------------------------------------------------------------------------------------------ *)
Definition ex_opts : lopts := mkOpts true true false [("extra", VNum 1)] "L1" 2%Z "S1" None "combinatorial" 1000%Z.
Definition ex_fail : node :=
  mkNode (mkProc KOp [] [] false TAny [] [] (fun d _ => Fail (Err SProcessor "ValueError" ""))) [] None.
Definition ex_ok : node :=
  mkNode (mkProc KOp ["value"] [] false TAny [] [] (fun d ps => match lookup "value" ps with
                                                              | Some (VNum z) => if (z =? 0)%Z then Fail (Err SProcessor "ValueError" "") else Ok (DF z, VNone, [])
                                                              | _ => Fail (Err SProcessor "TypeError" "") end)) [] None.
Definition ex_pipe : pipe := mkPipe [ex_ok] "c" "c".
Definition ex_runs : list ctx := [[("value", VNum 3)]; [("value", VNum 0)]; [("value", VNum 5)]].

(* a launch whose run 1 fails: two runs started, one completed, three planned, exit code 4, one start and one end record *)
Example ex_bracket_failure :
  let L := spec_launch (fun s => s) ex_pipe ex_opts ex_runs in
  (List.length (l_runs L), completed (l_runs L), l_exit L, List.length (filter is_rs (flat L)),
   hd_error (flat L), last (flat L) (Ser 0 true))
  = (2, 1, 4%Z, 2, Some (RSStart 0 "S1" "L1" 2%Z "combinatorial" 3 1000%Z None), RSEnd 0 "L1" 2%Z 3 1 "failed").
Proof. vm_compute. reflexivity. Qed.

Example ex_impl_seq :
  map (fun e => match e with RSStart s _ _ _ _ _ _ _ | PStart s _ _ | PEnd s _ | RSEnd s _ _ _ _ _ => s | Ser _ _ => 0 end)
      (flat (impl_launch (fun s => s) impl ex_pipe ex_opts ex_runs)) = [1; 2; 0; 3; 4; 0; 5; 6].
Proof. vm_compute. reflexivity. Qed.

Example ex_hypotheses_satisfiable : o_active ex_opts = true /\ o_traced ex_opts = true /\ p_canon ex_pipe = p_canon_enriched ex_pipe.
Proof. repeat split. Qed.

Example ex_fk : nth_error (flat_map ro_events (l_runs (spec_launch (fun s => s) ex_pipe ex_opts ex_runs))) 3
  = Some (PStart 0 "c" (Some ("L1", 2%Z, 1, [("extra", VNum 1); ("value", VNum 0)]))).
Proof. vm_compute. reflexivity. Qed.

(* cosmetic: two top-level keys swapped and a context mapping permuted *)
Definition ex_raw1 : raw := [RCombine "combinatorial"; RBlocks [[BMode "by_position"; BContext [("b", [JFloat 1]); ("a", [JStr "x"])]]]].
Definition ex_raw2 : raw := [RBlocks [[BMode "by_position"; BContext [("a", [JStr "x"]); ("b", [JFloat 1])]]]; RCombine "combinatorial"].
Example ex_cosmetic : cosmetic ex_raw1 ex_raw2.
Proof.
  eapply cos_trans.
  - apply (cos_swap [] (RCombine "combinatorial") (RBlocks _) []). discriminate.
  - apply (cos_block [] [] _ _ [] [RCombine "combinatorial"]).
    apply (bcos_ctx [BMode "by_position"] _ _ []).
    + apply perm_swap.
    + repeat constructor; simpl; intuition discriminate.
Qed.
Example ex_rscf_text : jprint (cfg_json (parse ex_raw1)) =
  "{""blocks"":[{""context"":{""a"":[""x""],""b"":[1.0]},""mode"":""by_position"",""source"":null}],""combine"":""combinatorial"",""dry_run"":false,""max_runs"":1000}".
Proof. vm_compute. reflexivity. Qed.
Example ex_mutation_distinct : cfg_json (parse ex_raw1) <> cfg_json (parse wit_raw).
Proof. vm_compute. discriminate. Qed.
(* a mapping that spells out every default: both paths coincide *)
Definition ex_explicit : raw :=
  [RCombine "combinatorial"; RMaxRuns 1000; RDryRun false;
   RBlocks [[BMode "by_position"; BContext [("value", [JFloat 1])]; BSource None]]].
Example ex_explicit_agrees : raw_json ex_explicit = cfg_json (parse ex_explicit).
Proof. vm_compute. reflexivity. Qed.
Example ex_launch_id : launch_id (fun s => s) (LIdem "k") "S" (Some "I") "u1" = "semantiva:rsl1:I:k"
                       /\ launch_id (fun s => s) LGenerated "S" None "u1" = "u1".
Proof. split; reflexivity. Qed.
Example ex_inputs_id_changes :
  inputs_id jprint "S" [("block[0].source", "file:///a.csv", "d1", 10%Z)] <> inputs_id jprint "S" [("block[0].source", "file:///a.csv", "d2", 10%Z)].
Proof. vm_compute. discriminate. Qed.

(* both defects are repaired on the current tree (fix commits): hard obligations + unconditional corollaries *)
Lemma gen_enrich_on_copy : enrich_on_copy = true.
Proof. reflexivity. Qed.
Lemma gen_spec_id_paths_agree : spec_id_paths_agree = true.
Proof. reflexivity. Qed.
Definition C09_impl_is_spec := fun H => C09_impl_is_spec_full H gen_enrich_on_copy.
Definition C09_no_leak := fun H => C09_no_leak_full H gen_enrich_on_copy.
Definition C09_spec_id_agree := fun HJ => C09_spec_id_agree_full HJ gen_spec_id_paths_agree.
Print Assumptions C09_stateful_runs_are_standalone.
Print Assumptions C09_stateful_no_leak.
Print Assumptions C09_stateful_refuted_when.
Print Assumptions C09_stateless_hide_reuse.
Print Assumptions C09_impl_is_spec.
Print Assumptions C09_no_leak.
Print Assumptions C09_spec_id_agree.
Print Assumptions C09_launch_is_map.
Print Assumptions C09_impl_is_spec_full.
Print Assumptions C09_impl_is_spec_partial.
Print Assumptions C09_no_leak_full.
Print Assumptions C09_no_leak_partial.
Print Assumptions C09_no_leak_refuted_when.
Print Assumptions C09_bracket.
Print Assumptions C09_fk_fields.
Print Assumptions C09_spec_id_agree_full.
Print Assumptions C09_spec_id_agree_partial.
Print Assumptions C09_spec_id_agree_refuted_when.
Print Assumptions C09_spec_id_invariant.
Print Assumptions C09_spec_id_discriminates.
Print Assumptions C09_launch_id_reproducible.
Print Assumptions C09_inputs_id_iff.
