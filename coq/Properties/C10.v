(* Properties/C10.v -- Tracing is purely observational and traces are reproducible.

   `execute_traced` (Model/Trace.v) includes the trace-side operation that can raise: json serialisation of a
   node's preprocessor metadata (`MOpaque` = sweep metadata holding a value json cannot encode, e.g. a YAML
   date) when the SER is built; and the shared canonical spec that a traced run enriches after hashing it.
   The detail level is part of the environment (`e_hash`), quantified over. *)
From Coq Require Import List String ZArith NArith Bool.
From SV Require Import Model.Pipeline Model.PipelineLib Model.Trace Gen.OrchestratorGen Proofs.Trace.
Import ListNotations.
Open Scope string_scope.

Lemma gen_translated : translation_failed = false.
Proof. reflexivity. Qed.
Lemma gen_handlers_reraise : handlers_reraise = true.
Proof. reflexivity. Qed.

Section C10.
Variables B D : Type.
Variable sd : data -> B.
Variable sc : ctx -> B.
Variable H : B -> D.
Notation exec E p s := (execute_traced B D sd sc H gen_facts E p s).

(* trace_transparent: at every detail level, for every pipeline and payload, the traced call returns / raises
   exactly what the untraced executor does *)
Theorem C10_trace_transparent :
  metadata_json_safe = true ->
  forall E p s, r_out (exec E p s) = TPlain (impl_run (nodes_of p) s).
Proof. intros Hm E p s. apply traced_outcome. apply meta_safe_no_opaque. exact Hm. Qed.

Theorem C10_trace_transparent_refuted_when :
  metadata_json_safe = false ->
  forall E, exists p s s',
    impl_run (nodes_of p) s = Done s' /\ r_out (exec E p s) = TTrace 0 "TypeError".
Proof.
  intros Hm E. exists wit_opaque, s0.
  destruct (opaque_changes_outcome B D sd sc H gen_facts E Hm) as (A & (s' & R) & _).
  exists s'. auto.
Qed.

(* partial: json_safe p *)
Theorem C10_trace_transparent_partial :
  forall E p s, (forall tn, In tn p -> t_meta tn <> MOpaque) ->
    r_out (exec E p s) = TPlain (impl_run (nodes_of p) s).
Proof. intros E p s Hm. apply traced_outcome. apply no_meta_no_opaque. exact Hm. Qed.

(* trace_reproducible: two runs of the same configuration on the same payload at the same detail level, in
   any two histories (run id, driver sequence counter, clock, zone, earlier traced runs of the same Pipeline
   object), give the same trace after removing run id, timestamps, durations and sequence numbers *)
Theorem C10_trace_reproducible :
  pipeline_id_stable = true ->
  forall E1 E2 p s, e_hash E1 = e_hash E2 ->
    normalise (r_emitted (exec E1 p s)) = normalise (r_emitted (exec E2 p s)) /\
    r_out (exec E1 p s) = r_out (exec E2 p s).
Proof. intros Hs E1 E2 p s Hh. apply trace_reproducible; auto. Qed.

Theorem C10_trace_reproducible_refuted_when :
  pipeline_id_stable = false ->
  forall rid q clk off h, exists p s,
    normalise (r_emitted (exec (mkEnv rid q false clk off h) p s)) <>
    normalise (r_emitted (exec (mkEnv rid q true clk off h) p s)).
Proof. intros Hs rid q clk off h. exists wit_sweep, s0. apply reused_pipeline_differs. exact Hs. Qed.

(* partial: pipelines without preprocessor metadata, or histories that agree on whether the object was reused *)
Theorem C10_trace_reproducible_partial :
  forall E1 E2 p s, e_hash E1 = e_hash E2 ->
    any_meta p = false \/ e_prior E1 = e_prior E2 ->
    normalise (r_emitted (exec E1 p s)) = normalise (r_emitted (exec E2 p s)) /\
    r_out (exec E1 p s) = r_out (exec E2 p s).
Proof. intros E1 E2 p s Hh Hc. apply trace_reproducible; auto. Qed.
End C10.

(* ---- non-vacuity ------------------------------------------------------------------------------------------------------ *)
Definition ex_e1 : env := mkEnv 7 0 false (fun k => Z.of_nat k) 0 true.
Definition ex_e2 : env := mkEnv 99 41 true (fun k => Z.of_nat (1000 + 3 * k)) 32400000 true.
Definition ex_run (E : env) (p : list tnode) (s : state) :=
  execute_traced (data + ctx) (data + ctx) (fun d => inl d) (fun c => inr c) (fun x => x) gen_facts E p s.
(* two different histories really give different raw traces, equal after normalisation (no metadata here) *)
Example ex_histories_differ :
  r_emitted (ex_run ex_e1 wit_interrupt s0) <> r_emitted (ex_run ex_e2 wit_interrupt s0) /\
  normalise (r_emitted (ex_run ex_e1 wit_interrupt s0)) = normalise (r_emitted (ex_run ex_e2 wit_interrupt s0)).
Proof. split; [vm_compute; discriminate|]. apply C10_trace_reproducible_partial; auto. Qed.
Example ex_json_safe : forall tn, In tn wit_sweep -> t_meta tn <> MOpaque.
Proof. intros tn [<-|[]]. discriminate. Qed.
Example ex_opaque_when_repaired :
  r_out (execute_traced (data + ctx) (data + ctx) (fun d => inl d) (fun c => inr c) (fun x => x)
           (mkFacts true true true true true true true true true true false) ex_e1 wit_opaque s0)
  = TPlain (impl_run (nodes_of wit_opaque) s0).
Proof. vm_compute. reflexivity. Qed.

(* the defects found by this check are repaired on the current tree (fix commits): hard obligations *)
Lemma now_metadata_json_safe : metadata_json_safe = true.
Proof. reflexivity. Qed.
Lemma now_pipeline_id_stable : pipeline_id_stable = true.
Proof. reflexivity. Qed.
Print Assumptions C10_trace_transparent.
Print Assumptions C10_trace_transparent_refuted_when.
Print Assumptions C10_trace_transparent_partial.
Print Assumptions C10_trace_reproducible.
Print Assumptions C10_trace_reproducible_refuted_when.
Print Assumptions C10_trace_reproducible_partial.
