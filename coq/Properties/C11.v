(* Properties/C11.v — Sweep expressions are confined to the safe grammar and their own variables. *)
From Coq Require Import List String Bool.
From SV Require Import Model.SafeEval Gen.SafeEvalGen Proofs.SafeEval.
Import ListNotations.
Local Open Scope string_scope.

(* The documented whitelist of syntactic elements and callable functions. *)
Definition documented_nodes : list string :=
  ["Expression"; "Module"; "Expr"; "Load"; "BinOp"; "UnaryOp"; "BoolOp"; "Compare"; "IfExp"; "Call";
   "Name"; "Constant"; "Tuple"; "Add"; "Sub"; "Mult"; "Div"; "FloorDiv"; "Mod"; "Pow"; "USub"; "UAdd";
   "And"; "Or"; "Eq"; "NotEq"; "Lt"; "LtE"; "Gt"; "GtE"].
Definition documented_funcs : list string := ["abs"; "min"; "max"; "round"; "float"; "int"; "str"; "bool"].

Definition subset (a b : list string) : bool := forallb (fun x => mem x b) a.

(* Facts read from semantiva/utils/safe_eval.py on this run. *)
Lemma gen_translated : translation_failed = false.
Proof. reflexivity. Qed.
Lemma gen_policy_sound : policy_sound tables = true.
Proof. reflexivity. Qed.
Lemma gen_nodes_documented : subset (allowed_nodes tables) documented_nodes = true.
Proof. reflexivity. Qed.
Lemma gen_funcs_documented : subset (allowed_funcs tables) documented_funcs = true.
Proof. reflexivity. Qed.
Lemma gen_funcs_in_env : subset (allowed_funcs tables) (env_keys tables) = true.
Proof. reflexivity. Qed.
Lemma gen_visit_before_compile : visit_before_compile = true.
Proof. reflexivity. Qed.

Lemma subset_incl a b : subset a b = true -> incl a b.
Proof.
  unfold subset. rewrite forallb_forall. intros H x Hx.
  specialize (H x Hx). unfold mem in H. apply existsb_exists in H as [y [Hy E]].
  apply String.eqb_eq in E. subst; auto.
Qed.

(* Acceptance implies: every syntactic element at any depth and in any position
   (call keyword arguments included) is on the documented whitelist. *)
Theorem C11_accept_whitelisted :
  forall names t, wfb false t = true -> visit tables names t = true ->
  Forall (fun s => In (kind_of s) documented_nodes) (subtrees t).
Proof.
  intros names t W V.
  eapply Forall_impl; [|exact (accept_whitelisted tables names gen_policy_sound t W V)].
  intros s Hs. exact (subset_incl _ _ gen_nodes_documented _ Hs).
Qed.

(* ... every call is a direct call of a whitelisted function ... *)
Theorem C11_accept_calls :
  forall names t, wfb false t = true -> visit tables names t = true ->
  Forall (fun s => kind_of s = "Call" -> call_target_ok tables (fields_of s) = true) (subtrees t).
Proof. exact (fun names => accept_calls tables names gen_policy_sound). Qed.

(* ... every name is a declared sweep variable (or the whitelisted function being called) ... *)
Theorem C11_accept_names :
  forall names t, wfb false t = true -> visit tables names t = true ->
  Forall (fun n => In n names \/ In n documented_funcs) (lookups t).
Proof.
  intros names t W V.
  eapply Forall_impl; [|exact (accept_names tables names gen_policy_sound t W V)].
  intros n [H|H]; [left; exact H|right; exact (subset_incl _ _ gen_funcs_documented _ H)].
Qed.

(* ... and evaluating it (locals = the variables, globals = env) never resolves a builtin. *)
Theorem C11_eval_confined :
  forall names locals t, incl names locals -> wfb false t = true -> visit tables names t = true ->
  Forall (fun n => resolve locals (env_keys tables) n <> Builtin) (lookups t).
Proof.
  intros names locals t Hl W V.
  exact (eval_confined tables names gen_policy_sound t locals Hl (subset_incl _ _ gen_funcs_in_env) W V).
Qed.

(* ... and WHATEVER variables the caller supplies (also none of the declared ones): the evaluator's environment carries an empty
   __builtins__ (fact read from ExpressionEvaluator.__init__ on this run; hard obligation), so a name found neither among the
   supplied variables nor among the whitelisted functions is unbound (NameError), never the interpreter's builtin of that name *)
Lemma gen_builtins_blocked : builtins_blocked = true.
Proof. reflexivity. Qed.
Theorem C11_eval_confined_whatever_is_supplied :
  forall locals n, resolve_b builtins_blocked locals (env_keys tables) n <> Builtin.
Proof.
  intros locals n. rewrite gen_builtins_blocked. unfold resolve_b. destruct (resolve locals (env_keys tables) n); discriminate.
Qed.
(* without the empty __builtins__: the accepted expression `open` with the declared variable `open`, called without it *)
Theorem C11_eval_confined_refuted_when :
  builtins_blocked = false ->
  exists names locals t, wfb false t = true /\ visit tables names t = true /\
    exists n, In n (lookups t) /\ resolve_b builtins_blocked locals (env_keys tables) n = Builtin.
Proof.
  intros H. rewrite H. exists ["open"], [], (T "Name" "open" [("ctx", [T "Load" "" []])]).
  split; [reflexivity|]. split; [vm_compute; reflexivity|]. exists "open". split; [vm_compute; auto|vm_compute; reflexivity].
Qed.

(* Non-vacuity: a non-trivial accepted expression, and rejected escapes. *)
Definition nm (x : string) := T "Name" x [("ctx", [T "Load" "" []])].
Definition ex_ok : tree :=  (* max(a * 2, abs(b)) if a < b else -a *)
  T "IfExp" "" [("test", [T "Compare" "" [("left", [nm "a"]); ("ops", [T "Lt" "" []]); ("comparators", [nm "b"])]]);
                ("body", [T "Call" "" [("func", [nm "max"]);
                                       ("args", [T "BinOp" "" [("left", [nm "a"]); ("op", [T "Mult" "" []]); ("right", [T "Constant" "" []])];
                                                 T "Call" "" [("func", [nm "abs"]); ("args", [nm "b"]); ("keywords", [])]]);
                                       ("keywords", [])]]);
                ("orelse", [T "UnaryOp" "" [("op", [T "USub" "" []]); ("operand", [nm "a"])]])].
Example ex_accepts : wfb false ex_ok = true /\ visit tables ["a"; "b"] ex_ok = true.
Proof. split; reflexivity. Qed.
Example ex_rejects_keyword_escape : wfb false kw_escape = true /\ visit tables ["x"] kw_escape = false.
Proof. split; reflexivity. Qed.
Example ex_rejects_attribute :
  visit tables ["x"] (T "Attribute" "" [("value", [nm "x"]); ("ctx", [T "Load" "" []])]) = false.
Proof. reflexivity. Qed.

Print Assumptions C11_accept_whitelisted.
Print Assumptions C11_accept_calls.
Print Assumptions C11_accept_names.
Print Assumptions C11_eval_confined.
Print Assumptions C11_eval_confined_whatever_is_supplied.
Print Assumptions C11_eval_confined_refuted_when.
