(* Properties/C12.v — Equal expression signatures imply equal values; commuted forms agree.
   Only statements closed by `exact`, generated-fact obligations, non-vacuity examples
   and Print Assumptions. *)
From Coq Require Import List String NArith ZArith Bool.
From SV Require Import Common.Prelude Model.Expr Gen.SemanticIdGen
  Proofs.ExprInd Proofs.DumpInj Proofs.NormSound Proofs.NormAC.
Import ListNotations.
Local Open Scope string_scope.

(* Facts read from semantiva/metadata/semantic_id.py on this run. *)
Lemma gen_translated : translation_failed = false.
Proof. reflexivity. Qed.
Lemma gen_comm_ops : comm_ops = [Add; Mult].
Proof. reflexivity. Qed.
Lemma gen_comm_ok : forall o, comm o = true -> AM o.
Proof. intros o; destruct o; unfold comm; rewrite gen_comm_ops; simpl; intros H; try discriminate; unfold AM; auto. Qed.
Lemma gen_comm_add_mult : comm Add = true /\ comm Mult = true /\ comm Sub = false /\
  comm FloorDiv = false /\ comm Mod = false /\ comm Pow = false.
Proof. unfold comm; rewrite gen_comm_ops; repeat split. Qed.

Definition sigv1 : expr -> string := sig comm.

(* (1) equal signatures => equal value under every assignment (None = raises) *)
Theorem C12_sig_sound :
  forall e1 e2, wf e1 = true -> wf e2 = true -> sigv1 e1 = sigv1 e2 ->
  forall rho, eval rho e1 = eval rho e2.
Proof.
  intros e1 e2 W1 W2 H rho.
  rewrite <- (norm_sound comm gen_comm_ok rho e1), <- (norm_sound comm gen_comm_ok rho e2).
  f_equal. exact (sig_norm comm e1 e2 W1 W2 H).
Qed.

(* (2) re-ordering / re-associating operands of + and * at any depth keeps the signature *)
Theorem C12_ac_complete :
  forall e1 e2, wf e1 = true -> ac comm e1 e2 -> sigv1 e1 = sigv1 e2.
Proof. exact (ac_same_sig comm). Qed.

(* (2b) exactness: equal signatures hold ONLY for AC-rearrangements — the signature classes are exactly
   the congruence classes of commutativity + associativity of + and * *)
Theorem C12_sig_exact :
  forall e1 e2, wf e1 = true -> wf e2 = true -> sigv1 e1 = sigv1 e2 -> ac comm e1 e2.
Proof. exact (sig_exact comm). Qed.
Theorem C12_sig_iff_ac :
  forall e1 e2, wf e1 = true -> wf e2 = true -> (sigv1 e1 = sigv1 e2 <-> ac comm e1 e2).
Proof.
  intros e1 e2 W1 W2. split; [exact (sig_exact comm e1 e2 W1 W2)|exact (ac_same_sig comm e1 e2 W1)].
Qed.

(* (3) the listed mutations change the signature *)
Theorem C12_swap_noncomm :
  forall op a b, wf a = true -> wf b = true -> comm op = false ->
  sigv1 (Bin op a b) = sigv1 (Bin op b a) -> sigv1 a = sigv1 b.
Proof. exact (swap_noncomm_changes_sig comm). Qed.

Theorem C12_const_change : forall n m, sigv1 (Const n) = sigv1 (Const m) -> n = m.
Proof. exact (const_change_changes_sig comm). Qed.

Theorem C12_var_change : forall x y, noquote x = true -> noquote y = true ->
  sigv1 (Var x) = sigv1 (Var y) -> x = y.
Proof. exact (var_change_changes_sig comm). Qed.

Theorem C12_func_change : forall f g a a', wf (Call f a) = true -> wf (Call g a') = true ->
  sigv1 (Call f a) = sigv1 (Call g a') -> f = g.
Proof. exact (func_change_changes_sig comm). Qed.

Theorem C12_binop_change : forall o o' a b a' b',
  comm o = false -> comm o' = false ->
  wf a = true -> wf b = true -> wf a' = true -> wf b' = true ->
  sigv1 (Bin o a b) = sigv1 (Bin o' a' b') ->
  o = o' /\ sigv1 a = sigv1 a' /\ sigv1 b = sigv1 b'.
Proof. exact (binop_change_changes_sig comm). Qed.

Theorem C12_dump_injective : forall e1 e2, wf e1 = true -> wf e2 = true -> dump e1 = dump e2 -> e1 = e2.
Proof. exact dump_inj. Qed.

(* Non-vacuity: the hypotheses are met by concrete, non-trivial expressions. *)
Example ex_nontrivial_equal_sig :
  let e1 := Bin Add (Var "b") (Bin Add (Bin Mult (Var "z") (Var "a")) (Const 2)) in
  let e2 := Bin Add (Bin Add (Const 2) (Var "b")) (Bin Mult (Var "a") (Var "z")) in
  wf e1 = true /\ wf e2 = true /\ e1 <> e2 /\ sigv1 e1 = sigv1 e2.
Proof. repeat split; try reflexivity. discriminate. Qed.

Example ex_ac_instance :
  ac comm (Bin Mult (Bin Mult (Var "x") (Var "y")) (Var "z")) (Bin Mult (Var "x") (Bin Mult (Var "z") (Var "y"))).
Proof.
  eapply ac_trans; [apply ac_assoc; reflexivity|].
  apply ac_bin; [apply ac_refl|apply ac_comm; reflexivity].
Qed.

Example ex_sub_not_commuted : sigv1 (Bin Sub (Var "a") (Var "b")) <> sigv1 (Bin Sub (Var "b") (Var "a")).
Proof. vm_compute. discriminate. Qed.

Print Assumptions C12_sig_sound.
Print Assumptions C12_ac_complete.
Print Assumptions C12_sig_exact.
Print Assumptions C12_sig_iff_ac.
Print Assumptions C12_swap_noncomm.
Print Assumptions C12_const_change.
Print Assumptions C12_var_change.
Print Assumptions C12_func_change.
Print Assumptions C12_binop_change.
Print Assumptions C12_dump_injective.
