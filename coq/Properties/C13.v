(* Properties/C13.v — Trace aggregation is order-independent and right for every partial trace. *)
From Coq Require Import List NArith ZArith Bool Permutation.
From SV Require Import Model.Aggregator Gen.AggregatorGen Proofs.Aggregator Proofs.AggregatorLaunch Proofs.AggregatorIdem.
Import ListNotations.

(* ---- Facts read from semantiva/trace/aggregation/aggregator.py on this run ---- *)
Lemma gen_translated : translation_failed = false.
Proof. reflexivity. Qed.
(* finalize_run's status chain answers complete when both edges were seen and partial when only
   pipeline_start was seen, whatever else holds (all 4 assignments checked) *)
Lemma gen_run_chain_ok : run_chain_ok gen_rules = true.
Proof. reflexivity. Qed.
Lemma gen_terminal : sort_dedup (terminal gen_rules) = [1; 2; 3; 4]%N.   (* succeeded error skipped cancelled *)
Proof. reflexivity. Qed.
(* finalize_launch's status chain: start edge only -> partial; both edges -> complete exactly when no
   run is partial or invalid, else partial (all 8 assignments of pipes / partial / invalid checked) *)
Lemma gen_launch_chain_ok : launch_chain_ok gen_rules = true.
Proof. reflexivity. Qed.
Lemma gen_dispatch : dispatch_ok = true.
Proof. reflexivity. Qed.
Lemma gen_ser_status_last_writer : ser_status_last_writer = true.
Proof. reflexivity. Qed.
Lemma gen_ser_timing_last_writer : ser_timing_last_writer = true.
Proof. reflexivity. Qed.
Lemma gen_run_problem_guards : run_problem_guards_ok = true.
Proof. reflexivity. Qed.
Lemma gen_launch_problem_guards : launch_problem_guards_ok = true.
Proof. reflexivity. Qed.
Lemma gen_set_formulas : set_formulas_ok = true.
Proof. reflexivity. Qed.
Lemma gen_rollup_loop : rollup_loop_ok = true.
Proof. reflexivity. Qed.

Definition R := gen_rules.

(* ---- Order independence ---- *)
(* Two records that do not write the same last-writer field commute — on the whole aggregation
   state, hence on every verdict. *)
Theorem C13_ingest_commutes :
  forall a x y, conflict x y = false -> ingest (ingest a x) y = ingest (ingest a y) x.
Proof. exact ingest_commutes. Qed.

Theorem C13_order_independent :
  forall l1 l2, Permutation l1 l2 -> wf l1 = true ->
  (forall r, run_verdict_at R (ingest_all l1) r = run_verdict_at R (ingest_all l2) r) /\
  (forall k, launch_verdict_at R (ingest_all l1) k = launch_verdict_at R (ingest_all l2) k).
Proof. intros l1 l2 P W. rewrite (order_independent_state l1 l2 P W). split; reflexivity. Qed.

(* k-way interleavings of per-run files are permutations of their concatenation *)
Corollary C13_interleaving_independent :
  forall files l, Permutation l (concat files) -> wf (concat files) = true ->
  ingest_all l = ingest_all (concat files).
Proof.
  intros files l P W. apply order_independent_state; auto.
  apply (wf_perm _ _ (Permutation_sym P) W).
Qed.

(* Outside the well-formed region the verdict does depend on the order: two SERs of the same
   (run, node) with different statuses.  The runtime never emits that (C13_runtime_traces_wf). *)
Definition dup1 := Ser (Some 1%N) (Some 2%N) None (Some 1%Z) (Some 2%Z) 5%N.   (* status "running" *)
Definition dup2 := Ser (Some 1%N) (Some 2%N) None (Some 3%Z) (Some 4%Z) 1%N.   (* status "succeeded" *)
Theorem C13_order_independent_needs_wf :
  exists l1 l2, Permutation l1 l2 /\ wf l1 = false /\
    run_verdict_at R (ingest_all l1) 1%N <> run_verdict_at R (ingest_all l2) 1%N.
Proof.
  exists [dup1; dup2], [dup2; dup1]. split; [apply perm_swap|]. split; [reflexivity|].
  vm_compute. discriminate.
Qed.

(* ---- The verdicts depend on the SET of records: a record ingested again changes nothing, and a well-formed trace read
        twice -- entirely, or a prefix (the file as it was a moment ago) and then the whole file, as a monitor re-reading a
        growing file does -- leaves the aggregation state of reading it once ---- *)
Theorem C13_ingest_idempotent : forall a x, ingest (ingest a x) x = ingest a x.
Proof. exact ingest_idem. Qed.
Theorem C13_rereading_is_harmless :
  forall l n, wf l = true ->
  ingest_all (l ++ l) = ingest_all l /\ ingest_all (firstn n l ++ l) = ingest_all l.
Proof. intros l n W. unfold ingest_all. split; [apply reread_whole|apply reread_prefix]; exact W. Qed.

(* ---- Finalising is idempotent ---- *)
(* After any sequence of finalize_run / finalize_launch calls (each of which may write synthesized
   timestamps into the aggregate) every run and launch verdict is what it was before. *)
Theorem C13_finalize_idempotent :
  forall a fs,
  (forall r, run_verdict_at R (fold_left (apply_fin R) fs a) r = run_verdict_at R a r) /\
  (forall k, launch_verdict_at R (fold_left (apply_fin R) fs a) k = launch_verdict_at R a k).
Proof. exact (finalize_idempotent R). Qed.

(* ---- Every crash prefix of a run's trace gets the documented verdict ---- *)
Theorem C13_prefix_verdict :
  forall r canon st sers fin n,
  r <> 0%N -> is_start r canon st = true -> Forall (fun x => is_ser r x = true) sers ->
  is_end r fin = true -> incl (ser_nodes r sers) canon ->
  let tr := st :: sers ++ [fin] in
  let v := run_verdict_at R (ingest_all (firstn n tr)) r in
  let seen := ser_nodes r (firstn (n - 1) sers) in
  (n = 0%nat -> v = unknown_run) /\
  (0 < n -> rv_unknown v = false /\ rv_missing_start v = false /\
            rv_missing v = sort_dedup (filter (fun c => negb (memN c seen)) canon) /\ rv_orphan v = []) /\
  (0 < n < length tr -> rv_status v = Partial /\ rv_missing_end v = true) /\
  (length tr <= n -> rv_status v = Complete /\ rv_missing_end v = false).
Proof. intros r canon st sers fin n. exact (prefix_verdict R r canon st sers fin n gen_run_chain_ok). Qed.

(* ... also when the run's records are interleaved with other runs / launch records *)
Theorem C13_prefix_verdict_interleaved :
  forall r l tr n, filter (touches r) l = firstn n tr ->
  run_verdict_at R (ingest_all l) r = run_verdict_at R (ingest_all (firstn n tr)) r.
Proof. exact (prefix_verdict_interleaved R). Qed.

(* ---- Launch roll-ups are the counts of the runs' verdicts ---- *)
Theorem C13_launch_rollup :
  forall a lid t la, mget cmpK (lid, t) (a_launches a) = Some la ->
  let v := launch_verdict_at R a (lid, Some t) in
  let pipes := map fst (l_pipes la) in
  c_complete (lv_counts v) = count_status R a Complete pipes /\
  c_partial (lv_counts v) = count_status R a Partial pipes /\
  c_invalid (lv_counts v) = count_status R a Invalid pipes /\
  lv_total v = lenN pipes /\
  lv_total v = (c_complete (lv_counts v) + c_partial (lv_counts v) + c_invalid (lv_counts v))%N.
Proof. exact (launch_rollup R). Qed.

(* ---- Every crash prefix of a LAUNCH's trace gets the documented launch verdict ---- *)
(* tr = run_space_start :: body ++ [run_space_end], the body holding no lifecycle edge of this
   launch (records of its runs, of other launches, anything else).  After n lines: nothing seen ->
   unknown; start seen -> never missing_start, the planned count kept, the roll-up counting the
   verdicts of exactly the runs whose pipeline_start (carrying this launch id and attempt) is in
   the prefix; end edge not in the prefix -> partial with the end edge named; whole trace ->
   complete exactly when every attached run is complete, else partial. *)
Theorem C13_launch_prefix_verdict :
  forall l t planned st body fin n,
  is_lstart (l, t) planned st = true -> Forall (fun x => not_ledge (l, t) x = true) body ->
  is_lend (l, t) fin = true ->
  let tr := st :: body ++ [fin] in
  let a := ingest_all (firstn n tr) in
  let v := launch_verdict_at R a (l, Some t) in
  let runs := lruns (l, t) (firstn (n - 1) body) in
  let pipes := sort_dedup (rev runs) in
  (n = 0%nat -> v = unknown_launch) /\
  (0 < n -> lv_unknown v = false /\ lv_missing_start v = false /\ lv_planned v = planned /\
            lv_total v = lenN pipes /\
            c_complete (lv_counts v) = count_status R a Complete pipes /\
            c_partial (lv_counts v) = count_status R a Partial pipes /\
            c_invalid (lv_counts v) = count_status R a Invalid pipes) /\
  (0 < n < length tr -> lv_status v = Partial /\ lv_missing_end v = true) /\
  (length tr <= n -> lv_missing_end v = false /\
     ((forall r, In r runs -> rv_status (run_verdict_at R a r) = Complete) -> lv_status v = Complete) /\
     ((exists r, In r runs /\ rv_status (run_verdict_at R a r) <> Complete) -> lv_status v = Partial)).
Proof. intros l t planned st body fin n. exact (launch_prefix_verdict R l t planned st body fin n gen_launch_chain_ok). Qed.

(* Run level and launch level together, on the whole file of a launch: all attached runs left
   start :: SERs ++ [end] (interleaved in any way) -> the launch is complete; one of them was cut
   before its end edge (the worker died, the launch went on) -> the launch is partial. *)
Theorem C13_full_launch_verdict :
  forall l t planned st body fin,
  is_lstart (l, t) planned st = true -> Forall (fun x => not_ledge (l, t) x = true) body ->
  is_lend (l, t) fin = true ->
  let tr := st :: body ++ [fin] in
  let v := launch_verdict_at R (ingest_all tr) (l, Some t) in
  ((forall r, In r (lruns (l, t) body) -> run_trace_complete r tr) -> lv_status v = Complete) /\
  ((exists r, In r (lruns (l, t) body) /\ run_trace_cut r tr) -> lv_status v = Partial).
Proof.
  intros l t planned st body fin.
  exact (full_launch_verdict R l t planned st body fin gen_launch_chain_ok gen_run_chain_ok).
Qed.

(* ---- Producer / consumer link: runtime-shaped traces are well-formed, and so is every
        prefix, sub-list and permutation of a well-formed list ---- *)
Theorem C13_runtime_traces_wf :
  forall r canon st sers fin,
  is_start r canon st = true -> Forall (fun x => is_ser r x = true) sers -> is_end r fin = true ->
  NoDup (ser_nodes r sers) -> wf (st :: sers ++ [fin]) = true.
Proof. intros. apply wf_strict_wf. eapply runtime_trace_wf; eauto. Qed.
Theorem C13_wf_closed :
  forall l, wf l = true ->
  (forall n, wf (firstn n l) = true) /\ (forall p, wf (filter p l) = true) /\
  (forall l', Permutation l l' -> wf l' = true).
Proof. intros l W. repeat split; intros; [apply wf_firstn|apply wf_filter|eapply wf_perm]; eauto. Qed.

(* ---- Non-vacuity: a run-space launch of two runs over nodes 11,12,13; run 2 fails at node 12 ---- *)
Definition canon3 := [11; 12; 13]%N.
Definition ser (r n : N) (t : Z) (st : N) := Ser (Some r) (Some n) None (Some t) (Some (t + 1)%Z) st.
Definition run1_trace :=
  [PStart (Some 1%N) (Some canon3) (Some 2%Z) None (Some 7%N) (Some 1%Z);
   ser 1 11 3 1; ser 1 12 5 1; ser 1 13 7 1; PEnd (Some 1%N) (Some 9%Z) None].
Definition run2_trace :=
  [PStart (Some 2%N) (Some canon3) (Some 10%Z) None (Some 7%N) (Some 1%Z);
   ser 2 11 11 1; ser 2 12 13 2; PEnd (Some 2%N) (Some 15%Z) None].
Definition launch_trace :=
  RSStart (Some 7%N) (Some 1%Z) (Some 2%Z) :: run1_trace ++ run2_trace ++ [RSEnd (Some 7%N) (Some 1%Z)].

Example ex_wf : wf_strict launch_trace = true /\ wf launch_trace = true.
Proof. split; reflexivity. Qed.
Example ex_hypotheses_run2 :
  (2 <> 0)%N /\ is_start 2 canon3 (hd Other run2_trace) = true /\
  Forall (fun x => is_ser 2 x = true) [ser 2 11 11 1; ser 2 12 13 2] /\
  is_end 2 (PEnd (Some 2%N) (Some 15%Z) None) = true /\
  incl (ser_nodes 2 [ser 2 11 11 1; ser 2 12 13 2]) canon3 /\
  NoDup (ser_nodes 2 [ser 2 11 11 1; ser 2 12 13 2]).
Proof.
  repeat split; try discriminate; try reflexivity.
  - repeat constructor.
  - intros x [<-|[<-|[]]]; simpl; auto.
  - simpl. repeat constructor; simpl; intuition discriminate.
Qed.
(* complete trace: both runs complete (the failing one too: it has both edges), node 13 missing in run 2 *)
Example ex_full_verdicts :
  rv_status (run_verdict_at R (ingest_all launch_trace) 1) = Complete /\
  rv_missing (run_verdict_at R (ingest_all launch_trace) 1) = [] /\
  rv_status (run_verdict_at R (ingest_all launch_trace) 2) = Complete /\
  rv_missing (run_verdict_at R (ingest_all launch_trace) 2) = [13]%N /\
  rv_nonterminal (run_verdict_at R (ingest_all launch_trace) 2) = [] /\
  launch_verdict_at R (ingest_all launch_trace) (7%N, Some 1%Z) =
    mkLV false Complete false false 2 (mkCounts 2 0 0) (Some 2%Z).
Proof. repeat split; reflexivity. Qed.
(* crash after the first SER of run 2: run 2 partial with nodes 12,13 missing, launch partial 1+1 *)
Example ex_prefix_verdicts :
  let a := ingest_all (firstn 8 launch_trace) in
  run_verdict_at R a 2 = mkRV false Partial false true false [12; 13]%N [] [] (Some 3%N) 1 1 /\
  launch_verdict_at R a (7%N, Some 1%Z) = mkLV false Partial false true 2 (mkCounts 1 1 0) (Some 2%Z).
Proof. split; reflexivity. Qed.
(* the launch trace above meets the hypotheses of the launch-level theorems, and its two runs
   leave complete run traces (interleaving: run 2's records filtered out of the whole file) *)
Example ex_launch_hypotheses :
  is_lstart (7%N, 1%Z) (Some 2%Z) (hd Other launch_trace) = true /\
  Forall (fun x => not_ledge (7%N, 1%Z) x = true) (run1_trace ++ run2_trace) /\
  is_lend (7%N, 1%Z) (RSEnd (Some 7%N) (Some 1%Z)) = true /\
  lruns (7%N, 1%Z) (run1_trace ++ run2_trace) = [1; 2]%N /\
  filter (touches 2) launch_trace = run2_trace.
Proof. repeat split; try reflexivity. repeat constructor. Qed.
(* a reversed trace gives the same verdicts (instance of C13_order_independent) *)
Example ex_reread : ingest_all (firstn 5 launch_trace ++ launch_trace) = ingest_all launch_trace.
Proof. reflexivity. Qed.
Example ex_reversed : ingest_all (rev launch_trace) = ingest_all launch_trace.
Proof. reflexivity. Qed.
(* finalize really writes into the aggregate (so idempotence is not trivial) *)
Example ex_finalize_mutates :
  let a := ingest_all [ser 1 11 3 1] in fst (finalize_run R a 1) <> a.
Proof. vm_compute. discriminate. Qed.

Print Assumptions C13_ingest_commutes.
Print Assumptions C13_order_independent.
Print Assumptions C13_interleaving_independent.
Print Assumptions C13_order_independent_needs_wf.
Print Assumptions C13_ingest_idempotent.
Print Assumptions C13_rereading_is_harmless.
Print Assumptions C13_finalize_idempotent.
Print Assumptions C13_prefix_verdict.
Print Assumptions C13_prefix_verdict_interleaved.
Print Assumptions C13_launch_rollup.
Print Assumptions C13_launch_prefix_verdict.
Print Assumptions C13_full_launch_verdict.
Print Assumptions C13_runtime_traces_wf.
Print Assumptions C13_wf_closed.

(* Observation (outside the property, recorded so that it is not mistaken for idempotence): a finalize
   call BETWEEN ingests is visible later when the lifecycle timestamps are inverted (pipeline_start
   stamped after pipeline_end) — the synthesized timestamps written by finalize_run shadow them.
   Runtime traces have monotone timestamps; the harness checks on every real trace that an
   intermediate finalize changes no final verdict. *)
Example ex_finalize_then_ingest_sensitive :
  let s := ser 1 11 5 1 in
  let st := PStart (Some 1%N) None (Some 9%Z) None None None in
  let en := PEnd (Some 1%N) (Some 3%Z) None in
  rv_time_inverted (run_verdict_at R (ingest_all [s; st; en]) 1) = true /\
  rv_time_inverted (run_verdict_at R (ingest (ingest (fst (finalize_run R (ingest_all [s]) 1)) st) en) 1) = false.
Proof. split; reflexivity. Qed.
