(* Properties/C14.v -- In-memory transport delivers every message exactly once, in channel order.

   All theorems quantify over every schedule (`sch : list tid`, disabled steps skipped), every set of
   pre-existing channels, every number of publisher / subscriber threads and messages (`ths`).
   `facts` = the variant of the model selected by the facts read from in_memory.py on this run. *)
From Coq Require Import Ascii List String Bool Arith Permutation.
From SV Require Import Model.Transport Gen.TransportGen Proofs.Transport Model.Glob Proofs.Glob.
From SV Require Model.Subscription Proofs.Subscription.
Module MS := SV.Model.Subscription. Module PS := SV.Proofs.Subscription.
Import ListNotations.

(* Facts read from semantiva/execution/transport/in_memory.py on this run. *)
Lemma gen_translated : translation_failed = false.
Proof. reflexivity. Qed.
Lemma gen_locked_ops : TransportGen.locked_ops = true.
Proof. reflexivity. Qed.

Lemma facts_atomic : TransportGen.atomic_create = true -> Transport.atomic_create facts = true.
Proof. intro H. exact H. Qed.

(* never lost, never duplicated: at every point of every schedule the completed appends are exactly
   what consumers hold (delivered or in flight between popleft and yield) plus what is queued in the
   queues the table points to; no message identity occurs twice. *)
Theorem C14_conservation :
  TransportGen.atomic_create = true ->
  forall pre ths sch, Forall initial_th ths ->
  let s := run facts sch (init pre ths) in
  Permutation (appended s) (held s ++ reachable_queued s) /\ NoDup (held s ++ reachable_queued s).
Proof. intros H pre ths sch F. exact (conservation_run facts pre ths sch (facts_atomic H) F). Qed.

(* ... in particular once every thread has finished: delivered + leftovers = appended, no duplicates,
   nothing lost. *)
Theorem C14_exactly_once_at_end :
  TransportGen.atomic_create = true ->
  forall pre ths sch, Forall initial_th ths ->
  let s := run facts sch (init pre ths) in
  all_done s = true ->
  Permutation (appended s) (delivered s ++ reachable_queued s) /\ NoDup (delivered s) /\ lost s = [].
Proof.
  intros H pre ths sch F s D.
  exact (exactly_once_at_end facts pre ths sch (facts_atomic H) F D).
Qed.

(* a subscription only ever yields messages whose channel matches its pattern (both variants) *)
Theorem C14_no_foreign :
  forall pre ths sch, Forall initial_th ths ->
  let s := run facts sch (init pre ths) in
  forall t p pc got, nth_error (thr s) t = Some (TSub p pc got) ->
  Forall (fun m => fnmatchb (m_chan m) p = true) got.
Proof. intros pre ths sch F. exact (no_foreign_run facts pre ths sch F). Qed.

(* messages of one channel published by one thread are received in publication order: every delivered
   list and every queue is ordered per (publisher, channel), and what a subscription already received
   precedes everything still queued.  `before m m'` := same publisher -> same channel -> seq m < seq m'. *)
Theorem C14_fifo_per_thread_channel :
  TransportGen.atomic_create = true ->
  forall pre ths sch, NoDup pre -> Forall initial_th ths ->
  let s := run facts sch (init pre ths) in
  (forall t p pc got, nth_error (thr s) t = Some (TSub p pc got) -> ordered got) /\
  (forall q c l, nth_error (heap s) q = Some (c, l) -> ordered l) /\
  (forall t p pc got q c l m m', nth_error (thr s) t = Some (TSub p pc got) ->
     nth_error (heap s) q = Some (c, l) -> In m got -> In m' l -> before m m').
Proof. intros H pre ths sch N F. exact (fifo_observable facts pre ths sch (facts_atomic H) N F). Qed.

(* drain: in any state reached after all publishers finished, a subscription that starts a scan and
   terminates -- whatever the other subscriptions do meanwhile -- has emptied every matching channel *)
Theorem C14_drain_complete :
  forall pre ths sch1, Forall initial_th ths ->
  let s1 := run facts sch1 (init pre ths) in
  quiescent s1 ->
  forall t p got0, nth_error (thr s1) t = Some (TSub p SStart got0) ->
  forall sch2, let s2 := run facts sch2 s1 in
  forall got, nth_error (thr s2) t = Some (TSub p SDone got) ->
  forall c q, In (c, q) (dict s2) -> fnmatchb c p = true -> queue_of (heap s2) q = [].
Proof.
  intros pre ths sch1 F s1 Qs t p got0 Ht sch2.
  apply (drain_complete_run facts s1 t p got0 sch2 gen_locked_ops); auto.
  apply (run_invariant facts wf); [intros; eapply wf_step; eauto|]. apply init_wf; auto.
Qed.

(* ... and with the `*` pattern, once every thread is done, everything appended was delivered exactly once *)
Theorem C14_drain_delivers_everything :
  TransportGen.atomic_create = true ->
  forall pre ths sch1 sch2 t got0, Forall initial_th ths ->
  let s1 := run facts sch1 (init pre ths) in
  quiescent s1 -> nth_error (thr s1) t = Some (TSub (PPrefix "") SStart got0) ->
  let s2 := run facts sch2 s1 in
  all_done s2 = true ->
  reachable_queued s2 = [] /\ Permutation (appended s2) (delivered s2) /\ NoDup (delivered s2).
Proof.
  intros H pre ths sch1 sch2 t got0 F.
  exact (drain_everything facts pre ths sch1 sch2 t got0 (facts_atomic H) gen_locked_ops F).
Qed.

(* The current tree: creation is not atomic, and the property is false -- T0 enters the factory,
   T1 performs a complete publish, T0 stores its fresh queue over T1's: T1's message is lost. *)
Theorem C14_refuted_when :
  TransportGen.atomic_create = false ->
  exists ths sch, Forall initial_th ths /\
    let s := run facts sch (init [] ths) in
    all_done s = true /\ lost s <> [] /\ delivered s = [].
Proof.
  intro H. exists race_threads, race_sched. split; [repeat constructor|].
  unfold facts. rewrite H.
  destruct (race_loses TransportGen.locked_ops) as [A [B C]]. cbv zeta. rewrite A, B, C.
  repeat split; discriminate.
Qed.

(* Non-vacuity. *)
Example ex_initial : Forall initial_th [pub ["a"; "b.x"]%string; pub ["b.x"%string]; sub (PPrefix "b."); sub (PExact "a")].
Proof. repeat constructor. Qed.
(* with atomic creation the racing schedule loses nothing and a later drain gets both messages *)
Example ex_atomic_run :
  let s := run (mkConfig true true) (race_sched ++ repeat 2 40) (init [] (race_threads ++ [sub (PPrefix "")])) in
  all_done s = true /\ lost s = [] /\ map to_triple (delivered s) = [(1, 0, "c"); (0, 0, "c")]%string.
Proof. vm_compute. auto. Qed.
(* the drain hypotheses are satisfiable: after both publishers ran, a `*` subscription at SStart *)
Example ex_drain_hyp :
  let s1 := run (mkConfig true true) race_sched (init [] (race_threads ++ [sub (PPrefix "")])) in
  quiescent s1 /\ nth_error (thr s1) 2 = Some (TSub (PPrefix "") SStart []) /\ all_done (run (mkConfig true true) (repeat 2 40) s1) = true.
Proof. vm_compute. repeat split; repeat constructor. Qed.
Example ex_ordered : ordered [mkMsg 0 0 "a"; mkMsg 1 0 "a"; mkMsg 0 1 "a"]%string /\ ~ ordered [mkMsg 0 1 "a"; mkMsg 0 0 "a"]%string.
Proof. split; [repeat constructor; unfold before; simpl; intros; try discriminate; auto|].
  simpl. intros [F _]. inversion F; subst. specialize (H1 eq_refl eq_refl). simpl in H1. inversion H1. Qed.
Example ex_fnmatch : fnmatchb "b.x" (PPrefix "b.") = true /\ fnmatchb "a" (PPrefix "b.") = false /\
                     fnmatchb "a" (PExact "a") = true /\ fnmatchb "ab" (PExact "a") = false /\ fnmatchb "zz" (PPrefix "") = true.
Proof. vm_compute. auto. Qed.

(* the creation race is repaired on the current tree: hard obligation + unconditional corollaries *)
Lemma gen_atomic_create : TransportGen.atomic_create = true.
Proof. reflexivity. Qed.
Theorem C14_conservation_now :
  forall pre ths sch, Forall initial_th ths ->
  let s := run facts sch (init pre ths) in
  Permutation (appended s) (held s ++ reachable_queued s) /\ NoDup (held s ++ reachable_queued s).
Proof. exact (C14_conservation gen_atomic_create). Qed.
Theorem C14_exactly_once_at_end_now :
  forall pre ths sch, Forall initial_th ths ->
  let s := run facts sch (init pre ths) in
  all_done s = true ->
  Permutation (appended s) (delivered s ++ reachable_queued s) /\ NoDup (delivered s) /\ lost s = [].
Proof. exact (C14_exactly_once_at_end gen_atomic_create). Qed.
(* ---- pattern routing: the transport matches with fnmatch; Model/Glob.v is that matcher (star, question mark, [seq], [!seq]), compared with
   Python's on generated patterns and names every run.  The exact-name and `prefix*` patterns used above are instances of it,
   and every theorem of this file is stated for an arbitrary pattern, PGlob included. *)
Theorem C14_exact_is_glob : forall s c, plain (list_ascii_of_string s) = true -> fnmatchb c (PGlob s) = fnmatchb c (PExact s).
Proof. intros s c H. simpl. rewrite (glob_exact s c H). apply String.eqb_sym. Qed.
Theorem C14_prefix_is_glob : forall s c, plain (list_ascii_of_string s) = true -> fnmatchb c (PGlob (s ++ "*")) = fnmatchb c (PPrefix s).
Proof. intros s c H. simpl. apply (glob_prefix_star s c H). Qed.
Theorem C14_star_matches_all : forall c, fnmatchb c (PGlob "*") = true.
Proof. intros c. simpl. apply glob_star_all. Qed.
Example ex_glob : fnmatchb "jobs.1.cfg" (PGlob "jobs.[12].cfg") = true /\ fnmatchb "jobs.3.cfg" (PGlob "jobs.[12].cfg") = false /\
                  fnmatchb "jobs.3.cfg" (PGlob "jobs.[!1].*") = true /\ fnmatchb "jobs.12.cfg" (PGlob "jobs.?.cfg") = false /\
                  fnmatchb "x[1]" (PGlob "x[[]1]") = true /\ fnmatchb "a" (PGlob "[b-a]") = false.
Proof. vm_compute. repeat split; reflexivity. Qed.

(* ---- one consumer over time: publish / open / next / close / drain sequences (Model/Subscription.v) -------------------
   The closed flag is tested before a message is popped (read from InMemorySubscription.__iter__; hard obligation), hence a
   closed subscription consumes nothing, and for EVERY operation sequence each published message is delivered at most once
   and is still queued otherwise; a drain leaves no matching message behind. *)
Lemma gen_closed_tested_before_pop : closed_tested_before_pop = true. Proof. reflexivity. Qed.

Theorem C14_closed_subscription_consumes_nothing : forall sb t, MS.s_closed sb = true ->
  fst (fst (MS.sub_next closed_tested_before_pop sb t)) = None /\ snd (fst (MS.sub_next closed_tested_before_pop sb t)) = t.
Proof. rewrite gen_closed_tested_before_pop. exact PS.closed_consumes_nothing. Qed.

Theorem C14_single_consumer_exactly_once : forall ops,
  let s := MS.run_ops closed_tested_before_pop ops in
  Permutation (MS.delivered s ++ MS.queued (MS.tbl s)) (seq 0 (MS.next_id s)) /\ NoDup (MS.delivered s ++ MS.queued (MS.tbl s)).
Proof. rewrite gen_closed_tested_before_pop. exact PS.exactly_once. Qed.

Theorem C14_drain_leaves_nothing : forall p fuel t ms t', List.length (MS.queued t) < fuel -> MS.drain p fuel t = (ms, t') ->
  forall c q, In (c, q) t' -> glob p c = true -> q = [].
Proof. exact PS.drain_complete. Qed.

Theorem C14_flag_after_pop_refuted_when : closed_tested_before_pop = false ->
  exists ops, let s := MS.run_ops closed_tested_before_pop ops in ~ In 1 (MS.delivered s ++ MS.queued (MS.tbl s)) /\ 1 < MS.next_id s.
Proof. intros E. rewrite E. exact PS.lost_when_flag_tested_after_pop. Qed.

Print Assumptions C14_closed_subscription_consumes_nothing.
Print Assumptions C14_single_consumer_exactly_once.
Print Assumptions C14_drain_leaves_nothing.
Print Assumptions C14_flag_after_pop_refuted_when.
Print Assumptions C14_exact_is_glob.
Print Assumptions C14_prefix_is_glob.
Print Assumptions C14_star_matches_all.
Print Assumptions C14_conservation_now.
Print Assumptions C14_exactly_once_at_end_now.
Print Assumptions C14_conservation.
Print Assumptions C14_exactly_once_at_end.
Print Assumptions C14_no_foreign.
Print Assumptions C14_fifo_per_thread_channel.
Print Assumptions C14_drain_complete.
Print Assumptions C14_drain_delivers_everything.
Print Assumptions C14_refuted_when.
