(* Properties/C14.v -- In-memory transport delivers every message exactly once, in channel order.

   All theorems quantify over every schedule (`sch : list tid`, disabled steps skipped), every set of
   pre-existing channels, every number of publisher / subscriber threads and messages (`ths`).
   `facts` = the variant of the model selected by the facts read from in_memory.py on this run. *)
From Coq Require Import List String Bool Arith Permutation.
From SV Require Import Model.Transport Gen.TransportGen Proofs.Transport.
Import ListNotations.

(* Facts read from semantiva/execution/transport/in_memory.py on this run. *)
Lemma gen_translated : translation_failed = false.
Proof. reflexivity. Qed.
Lemma gen_locked_ops : TransportGen.locked_ops = true.
Proof. reflexivity. Qed.

Lemma facts_atomic : TransportGen.atomic_create = true -> Transport.atomic_create facts = true.
Proof. intro H. exact H. Qed.

(* never lost, never duplicated: at every point of every schedule the completed appends are exactly
   what consumers hold (delivered or in flight between popleft and yield) plus what is queued in the
   queues the table points to; no message identity occurs twice. *)
Theorem C14_conservation :
  TransportGen.atomic_create = true ->
  forall pre ths sch, Forall initial_th ths ->
  let s := run facts sch (init pre ths) in
  Permutation (appended s) (held s ++ reachable_queued s) /\ NoDup (held s ++ reachable_queued s).
Proof. intros H pre ths sch F. exact (conservation_run facts pre ths sch (facts_atomic H) F). Qed.

(* ... in particular once every thread has finished: delivered + leftovers = appended, no duplicates,
   nothing lost. *)
Theorem C14_exactly_once_at_end :
  TransportGen.atomic_create = true ->
  forall pre ths sch, Forall initial_th ths ->
  let s := run facts sch (init pre ths) in
  all_done s = true ->
  Permutation (appended s) (delivered s ++ reachable_queued s) /\ NoDup (delivered s) /\ lost s = [].
Proof.
  intros H pre ths sch F s D.
  exact (exactly_once_at_end facts pre ths sch (facts_atomic H) F D).
Qed.

(* a subscription only ever yields messages whose channel matches its pattern (both variants) *)
Theorem C14_no_foreign :
  forall pre ths sch, Forall initial_th ths ->
  let s := run facts sch (init pre ths) in
  forall t p pc got, nth_error (thr s) t = Some (TSub p pc got) ->
  Forall (fun m => fnmatchb (m_chan m) p = true) got.
Proof. intros pre ths sch F. exact (no_foreign_run facts pre ths sch F). Qed.

(* The current tree: creation is not atomic, and the property is false -- T0 enters the factory,
   T1 performs a complete publish, T0 stores its fresh queue over T1's: T1's message is lost. *)
Theorem C14_refuted_when :
  TransportGen.atomic_create = false ->
  exists ths sch, Forall initial_th ths /\
    let s := run facts sch (init [] ths) in
    all_done s = true /\ lost s <> [] /\ delivered s = [].
Proof.
  intro H. exists race_threads, race_sched. split; [repeat constructor|].
  unfold facts. rewrite H.
  destruct (race_loses TransportGen.locked_ops) as [A [B C]]. cbv zeta. rewrite A, B, C.
  repeat split; discriminate.
Qed.

(* Non-vacuity. *)
Example ex_initial : Forall initial_th [pub ["a"; "b.x"]%string; pub ["b.x"%string]; sub (PPrefix "b."); sub (PExact "a")].
Proof. repeat constructor. Qed.
(* with atomic creation the racing schedule loses nothing and a later drain gets both messages *)
Example ex_atomic_run :
  let s := run (mkConfig true true) (race_sched ++ repeat 2 40) (init [] (race_threads ++ [sub (PPrefix "")])) in
  all_done s = true /\ lost s = [] /\ map to_triple (delivered s) = [(1, 0, "c"); (0, 0, "c")]%string.
Proof. vm_compute. auto. Qed.
Example ex_fnmatch : fnmatchb "b.x" (PPrefix "b.") = true /\ fnmatchb "a" (PPrefix "b.") = false /\
                     fnmatchb "a" (PExact "a") = true /\ fnmatchb "ab" (PExact "a") = false /\ fnmatchb "zz" (PPrefix "") = true.
Proof. vm_compute. auto. Qed.

Print Assumptions C14_conservation.
Print Assumptions C14_exactly_once_at_end.
Print Assumptions C14_no_foreign.
Print Assumptions C14_refuted_when.
