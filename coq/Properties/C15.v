(* Properties/C15.v -- Every queued job's Future completes once, with that job's own result.

   All theorems quantify over every schedule (`sch : list actor`, disabled steps skipped: the real loops time out
   and come round again), every batch `js` of jobs (any number; job ids = enqueue positions, standing for distinct
   uuid4 values), every number of workers `nw`, every job type / result type / error type, every total `exec`
   ("build and run the job's pipeline on its payload") and every payload preparation `prep` of the worker.
   `GF` = the variant of the model selected by the facts read from worker.py / queue_orchestrator.py on this run.
   The transport is the abstract one (atomic publish / pop, nothing lost or duplicated) that Properties/C14.v
   proves of the in-memory transport model. *)
From Coq Require Import List String Bool Arith ZArith Permutation.
From SV Require Import Model.Pipeline Model.PipelineLib Model.JobQueue Proofs.JobQueue.
From SV Require Gen.JobQueueGen Model.Alias Proofs.Alias.
Import ListNotations.

Definition GF : facts := JobQueueGen.facts.

(* ---- facts read from the source on this run *)
Lemma gen_translated : JobQueueGen.translation_failed = false.
Proof. reflexivity. Qed.
(* hard obligation: the master correlates status messages with Futures by job id (true on the current tree);
   resolving by arrival order breaks this lemma by name *)
Lemma gen_future_resolved_by_job_id : JobQueueGen.future_resolved_by_job_id = true.
Proof. reflexivity. Qed.
Lemma GF_by_id : JobQueueGen.future_resolved_by_job_id = true -> future_resolved_by_job_id GF = true.
Proof. intro H. exact H. Qed.

Lemma reports_raised : reports GF Raised = JobQueueGen.worker_reports_failures.
Proof. reflexivity. Qed.
Lemma reports_badconfig : reports GF BadConfig = negb JobQueueGen.non_list_config_rejected_silently.
Proof. reflexivity. Qed.

Section Statements.
  Variables J R E : Type.
  Variable exec : J -> outcome R E.
  Variable prep : J -> J.
  Variable js : list J.
  Variable nw : nat.
  Notation s0 := (init J R E (number J js) nw).
  Notation run := (run J R E exec prep GF).
  Notation fut i s := (lookup_fut R E i (futs J R E s)).

  (* no loss, no duplication: at every point of every schedule every job is in exactly one of
     not-yet-enqueued / job queue / cfg channel / a worker's hands / status channel / resolved / dropped-by-a-worker *)
  Theorem C15_no_loss : forall sch,
    let s := run sch s0 in
    Permutation (seq 0 (List.length js)) (places J R E s) /\ NoDup (places J R E s).
  Proof.
    intros sch. rewrite <- (number_ids J js). exact (no_loss_run J R E exec prep GF _ nw sch (number_nodup J js)).
  Qed.

  (* ... and a worker drops a job only when the facts say its failure is not reported *)
  Theorem C15_future_own_result :
    JobQueueGen.future_resolved_by_job_id = true ->
    forall sch i i' r, fut i (run sch s0) = Some (FDone i' r) ->
    i' = i /\ exists j, nth_error js i = Some j /\ exec (prep j) = Succ r.
  Proof. intros H. exact (batch_own_result J R E exec prep GF js nw (GF_by_id H)). Qed.

  Theorem C15_future_own_error :
    JobQueueGen.future_resolved_by_job_id = true ->
    forall sch i e, fut i (run sch s0) = Some (FFailed e) ->
    exists j k, nth_error js i = Some j /\ exec (prep j) = Fail k e /\ reports GF k = true.
  Proof. intros H. exact (batch_own_error J R E exec prep GF js nw (GF_by_id H)). Qed.

  (* set once: set_result / set_exception is called at most once per Future ... *)
  Theorem C15_future_set_once :
    JobQueueGen.future_resolved_by_job_id = true ->
    forall sch, NoDup (setlog J R E (run sch s0)).
  Proof. intros H. exact (set_once_log J R E exec prep GF _ nw (number_nodup J js) (GF_by_id H)). Qed.

  (* ... and a Future that left Pending never changes again (any variant of the facts, any later schedule) *)
  Theorem C15_future_never_changes_again :
    forall sch1 sch2 i f, fut i (run sch1 s0) = Some f -> f <> Pending -> fut i (run sch2 (run sch1 s0)) = Some f.
  Proof. intros sch1 sch2 i f. exact (run_stable J R E exec prep GF sch2 _ i f). Qed.

  (* progress, part 1: every enabled step strictly decreases the measure (5,4,3,2,1 stages ahead of each job), so at
     most 5 * |js| steps of any schedule are enabled when their turn comes *)
  Theorem C15_progress_measure :
    forall s a s', step J R E exec prep GF s a = Some s' -> measure J R E s' < measure J R E s.
  Proof. exact (step_decreases J R E exec prep GF). Qed.

  Theorem C15_enabled_steps_bounded : forall sch, effective J R E exec prep GF sch s0 <= 5 * List.length js.
  Proof.
    intro sch. pose proof (effective_bounded J R E exec prep GF sch s0) as H.
    rewrite init_measure, number_length in H. apply (Nat.le_trans _ _ _ (Nat.le_add_r _ _) H).
  Qed.

  (* progress, part 2: while a Future is pending some step is enabled, unless a worker dropped that very job *)
  Theorem C15_progress_enabled :
    JobQueueGen.future_resolved_by_job_id = true -> nw >= 1 ->
    forall sch i, let s := run sch s0 in
    fut i s = Some Pending ->
    (exists a, step J R E exec prep GF s a <> None) \/ In i (map fst (dropped J R E s)).
  Proof.
    intros H Hw sch i. exact (pending_enabled J R E exec prep GF _ nw (number_nodup J js) (GF_by_id H) sch i Hw).
  Qed.

  (* LIVENESS UNDER A FAIR SCHEDULER (not a real-time statement): parts 1 and 2 give that every fair schedule reaches
     a state where no step is enabled; in any such state every Future is resolved, with its own job's outcome --
     provided every failure kind occurring in the batch is reported by the worker *)
  Theorem C15_quiescent_all_resolved :
    JobQueueGen.future_resolved_by_job_id = true -> nw >= 1 ->
    (forall j k e, In j js -> exec (prep j) = Fail k e -> reports GF k = true) ->
    forall sch, quiescent J R E exec prep GF (run sch s0) ->
    forall i j, nth_error js i = Some j ->
    fut i (run sch s0) = Some (match exec (prep j) with Succ r => FDone i r | Fail _ e => FFailed e end).
  Proof. intros H Hw Hr sch. exact (batch_quiescent J R E exec prep GF js nw (GF_by_id H) sch Hw Hr). Qed.

  (* FULL, conditional on the worker reporting failures: the Future of a job whose pipeline raises is Failed with that
     job's error as soon as it is resolved (and it is resolved at quiescence, previous theorem) *)
  Theorem C15_failing_job_fails_future :
    JobQueueGen.worker_reports_failures = true -> JobQueueGen.future_resolved_by_job_id = true ->
    forall sch i j e f, nth_error js i = Some j -> exec (prep j) = Fail Raised e ->
    fut i (run sch s0) = Some f -> f = Pending \/ f = FFailed e.
  Proof.
    intros Hw H sch i j e f Hj He L.
    pose proof (batch_failing J R E exec prep GF js nw (GF_by_id H) sch i j Raised e f Hj He L) as X.
    rewrite reports_raised, Hw in X. exact X.
  Qed.

  (* REFUTED on a tree whose worker only logs: the Future of a failing job stays Pending for ever -- for EVERY schedule *)
  Theorem C15_failing_job_refuted_when :
    JobQueueGen.worker_reports_failures = false -> JobQueueGen.future_resolved_by_job_id = true ->
    forall sch i j e f, nth_error js i = Some j -> exec (prep j) = Fail Raised e ->
    fut i (run sch s0) = Some f -> f = Pending.
  Proof.
    intros Hw H sch i j e f Hj He L.
    pose proof (batch_failing J R E exec prep GF js nw (GF_by_id H) sch i j Raised e f Hj He L) as X.
    rewrite reports_raised, Hw in X. exact X.
  Qed.

  (* the same pair for a rejected configuration (Pipeline instance, tuple, unloadable YAML path) *)
  Theorem C15_rejected_config_fails_future :
    JobQueueGen.non_list_config_rejected_silently = false -> JobQueueGen.future_resolved_by_job_id = true ->
    forall sch i j e f, nth_error js i = Some j -> exec (prep j) = Fail BadConfig e ->
    fut i (run sch s0) = Some f -> f = Pending \/ f = FFailed e.
  Proof.
    intros Hw H sch i j e f Hj He L.
    pose proof (batch_failing J R E exec prep GF js nw (GF_by_id H) sch i j BadConfig e f Hj He L) as X.
    rewrite reports_badconfig, Hw in X. exact X.
  Qed.

  Theorem C15_rejected_config_refuted_when :
    JobQueueGen.non_list_config_rejected_silently = true -> JobQueueGen.future_resolved_by_job_id = true ->
    forall sch i j e f, nth_error js i = Some j -> exec (prep j) = Fail BadConfig e ->
    fut i (run sch s0) = Some f -> f = Pending.
  Proof.
    intros Hw H sch i j e f Hj He L.
    pose proof (batch_failing J R E exec prep GF js nw (GF_by_id H) sch i j BadConfig e f Hj He L) as X.
    rewrite reports_badconfig, Hw in X. exact X.
  Qed.

  (* PARTIAL, unconditional on the failure facts: batches in which every pipeline succeeds *)
  Theorem C15_partial :
    JobQueueGen.future_resolved_by_job_id = true -> nw >= 1 ->
    (forall j, In j js -> exists r, exec (prep j) = Succ r) ->
    forall sch, quiescent J R E exec prep GF (run sch s0) ->
    forall i j, nth_error js i = Some j -> exists r, exec (prep j) = Succ r /\ fut i (run sch s0) = Some (FDone i r).
  Proof.
    intros H Hw Hs sch Q i j Hj.
    assert (Hr : forall j k e, In j js -> exec (prep j) = Fail k e -> reports GF k = true).
    { intros j0 k e Hin He. destruct (Hs j0 Hin) as [r Hr]. congruence. }
    pose proof (batch_quiescent J R E exec prep GF js nw (GF_by_id H) sch Hw Hr Q i j Hj) as X.
    destruct (Hs j (nth_error_In _ _ Hj)) as [r Hr']. exists r. rewrite Hr' in X. auto.
  Qed.

  (* trace validation is sound: a state reached by replaying observed events is a state of some schedule *)
  Theorem C15_replay_reachable : forall evs s s',
    replay J R E exec prep GF evs s = Some s' -> exists sch, run sch s = s'.
  Proof. exact (replay_reachable J R E exec prep GF). Qed.
End Statements.

(* ---- unconditional corollaries on the current tree (correlation by job id holds) *)
Theorem C15_future_own_result_now : forall J R E exec prep js nw sch i i' r,
  lookup_fut R E i (futs J R E (run J R E exec prep GF sch (init J R E (number J js) nw))) = Some (FDone i' r) ->
  i' = i /\ exists j, nth_error js i = Some j /\ exec (prep j) = Succ r.
Proof. intros J R E exec prep js nw. exact (C15_future_own_result J R E exec prep js nw gen_future_resolved_by_job_id). Qed.

Theorem C15_future_set_once_now : forall J R E exec prep js nw sch,
  NoDup (setlog J R E (run J R E exec prep GF sch (init J R E (number J js) nw))).
Proof. intros J R E exec prep js nw. exact (C15_future_set_once J R E exec prep js nw gen_future_resolved_by_job_id). Qed.

(* ---- a master that resolves Futures by arrival order: cross-talk (job 0's Future gets job 1's result) *)
Theorem C15_cross_talk_refuted_when :
  JobQueueGen.future_resolved_by_job_id = false ->
  exists sch, lookup_fut nat nat 0 (futs nat nat nat
     (run nat nat nat (fun j => Succ (10 * j)) (fun j => j) GF sch (init nat nat nat (number nat [1; 2]) 2))) = Some (FDone 1 20).
Proof.
  intro H. exists [CEnqueue; CEnqueue; MDequeue; MDequeue; WTake 0 0; WTake 1 0; WFinish 1; MPoll 0].
  unfold GF, JobQueueGen.facts. rewrite H. vm_compute. reflexivity.
Qed.

(* ---- the worker's payload preparation in the pipeline instance used by the correspondence *)
Theorem C15_payload_preserved :
  JobQueueGen.falsy_payload_replaced = false -> forall j, pprep JobQueueGen.falsy_payload_replaced j = j.
Proof. intros H j. rewrite H. reflexivity. Qed.

Theorem C15_payload_refuted_when :
  JobQueueGen.falsy_payload_replaced = true ->
  exists j, pexec (pprep JobQueueGen.falsy_payload_replaced j) <> pexec j.
Proof. intro H. exists (mkPJob [] (DC []) [] true). rewrite H. vm_compute. discriminate. Qed.

(* ---- non-vacuity *)
Definition ex_facts_now := mkFacts false true true.
Definition ex_facts_repaired := mkFacts true true false.
Definition ex_exec (j : nat) : outcome nat nat := if Nat.eqb j 0 then Fail Raised 7 else Succ (10 * j).
Definition ex_sched := [CEnqueue; CEnqueue; CEnqueue; MDequeue; MDequeue; WTake 0 0; WTake 1 0; MDequeue; WFinish 1; WTake 1 0;
                        WFinish 0; MPoll 0; WFinish 1; MPoll 0; MPoll 0].
(* three jobs, two workers, job 1 fails: on a log-only tree the run ends quiescent with Future 1 pending ... *)
Example ex_failing_pending :
  let s := run nat nat nat ex_exec (fun j => j) ex_facts_now ex_sched (init nat nat nat (number nat [3; 0; 5]) 2) in
  quiescentb nat nat nat s = true /\
  map snd (futs nat nat nat s) = [FDone 0 30; Pending; FDone 2 50] /\ map fst (dropped nat nat nat s) = [1] /\ setlog nat nat nat s = [0; 2].
Proof. vm_compute. auto. Qed.
(* ... on a repaired tree it ends with Future 1 failed with job 1's error *)
Example ex_failing_failed :
  let s := run nat nat nat ex_exec (fun j => j) ex_facts_repaired ex_sched (init nat nat nat (number nat [3; 0; 5]) 2) in
  quiescentb nat nat nat s = true /\
  map snd (futs nat nat nat s) = [FDone 0 30; FFailed 7; FDone 2 50] /\ dropped nat nat nat s = [] /\ setlog nat nat nat s = [1; 0; 2].
Proof. vm_compute. auto. Qed.
(* the hypotheses of C15_quiescent_all_resolved / C15_partial are satisfiable: a quiescent state is reached *)
Example ex_quiescent :
  quiescent nat nat nat ex_exec (fun j => j) ex_facts_repaired
    (run nat nat nat ex_exec (fun j => j) ex_facts_repaired ex_sched (init nat nat nat (number nat [3; 0; 5]) 2)).
Proof.
  intros [ | | k | w k | w ]; try reflexivity.
  - destruct k; reflexivity.
  - destruct w as [|[|[|w]]]; destruct k; reflexivity.
  - destruct w as [|[|[|w]]]; reflexivity.
Qed.
Example ex_reports_all : forall j k e, In j [3; 0; 5] -> ex_exec j = Fail k e -> reports ex_facts_repaired k = true.
Proof. intros j k e [<-|[<-|[<-|[]]]]; vm_compute; intro H; try discriminate. injection H as <- _. reflexivity. Qed.
Example ex_all_succeed : forall j, In j [3; 4; 5] -> exists r, ex_exec j = Succ r.
Proof. intros j [<-|[<-|[<-|[]]]]; vm_compute; eauto. Qed.
(* the canonical fair schedule drains a batch: 3 jobs, 2 workers *)
Example ex_rounds :
  let s := run nat nat nat ex_exec (fun j => j) ex_facts_repaired (rounds 3 2) (init nat nat nat (number nat [3; 0; 5]) 2) in
  quiescentb nat nat nat s = true /\ map snd (futs nat nat nat s) = [FDone 0 30; FFailed 7; FDone 2 50].
Proof. vm_compute. auto. Qed.
(* trace validation accepts an observed trace and rejects an impossible one (status received before it was published) *)
Example ex_replay :
  (exists s, replay nat nat nat ex_exec (fun j => j) ex_facts_now [EEnq 0; EDeq 0; ETake 0 0; EFin 0 0; EPoll 0]
               (init nat nat nat (number nat [3]) 1) = Some s) /\
  replay nat nat nat ex_exec (fun j => j) ex_facts_now [EEnq 0; EDeq 0; ETake 0 0; EPoll 0] (init nat nat nat (number nat [3]) 1) = None.
Proof. split; [eexists|]; vm_compute; reflexivity. Qed.
(* measure of the initial state and of the drained one *)
Example ex_measure :
  measure nat nat nat (init nat nat nat (number nat [3; 0; 5]) 2) = 15 /\
  measure nat nat nat (run nat nat nat ex_exec (fun j => j) ex_facts_now ex_sched (init nat nat nat (number nat [3; 0; 5]) 2)) = 0.
Proof. vm_compute. auto. Qed.

(* the defects found by this check are repaired on the current tree (fix commits): hard obligations *)
Lemma now_worker_reports_failures : JobQueueGen.worker_reports_failures = true.
Proof. reflexivity. Qed.
Lemma now_non_list_config_reported : JobQueueGen.non_list_config_rejected_silently = false.
Proof. reflexivity. Qed.
Lemma now_falsy_payload_kept : JobQueueGen.falsy_payload_replaced = false.
Proof. reflexivity. Qed.
(* ---------- the model above treats a job's context as a VALUE.  The in-memory transport passes the context OBJECT by reference
   and the worker writes the job id into it; Model/Alias.v has the objects.  With one copy per job (fact read from enqueue() on
   this run; hard obligation) the status of every job carries that job's id whatever objects the callers handed over - the same
   one for a whole batch, say - and in whatever order the workers ran; without the copy two jobs given one object cross ---------- *)
Lemma gen_context_copied_at_enqueue : JobQueueGen.context_copied_at_enqueue = true.
Proof. reflexivity. Qed.
Theorem C15_status_carries_the_jobs_own_id : forall base given order j,
  NoDup order -> In j order ->
  Alias.status_id JobQueueGen.context_copied_at_enqueue base given order j = Some (Some j).
Proof. intros. rewrite gen_context_copied_at_enqueue. apply Proofs.Alias.copies_keep_jobs_apart; assumption. Qed.
Theorem C15_shared_context_object_refuted_when : JobQueueGen.context_copied_at_enqueue = false ->
  exists base given order j, NoDup order /\ In j order /\
    Alias.status_id JobQueueGen.context_copied_at_enqueue base given order j <> Some (Some j).
Proof.
  intros H. rewrite H. exists 10, [3; 3], [0; 1], 0.
  split; [repeat constructor; cbn; intuition discriminate|]. split; [left; reflexivity|].
  rewrite (proj1 Proofs.Alias.shared_object_crosses). discriminate.
Qed.
Print Assumptions C15_status_carries_the_jobs_own_id.
Print Assumptions C15_no_loss.
Print Assumptions C15_future_own_result.
Print Assumptions C15_future_own_error.
Print Assumptions C15_future_set_once.
Print Assumptions C15_future_never_changes_again.
Print Assumptions C15_progress_measure.
Print Assumptions C15_enabled_steps_bounded.
Print Assumptions C15_progress_enabled.
Print Assumptions C15_quiescent_all_resolved.
Print Assumptions C15_failing_job_fails_future.
Print Assumptions C15_failing_job_refuted_when.
Print Assumptions C15_rejected_config_fails_future.
Print Assumptions C15_rejected_config_refuted_when.
Print Assumptions C15_partial.
Print Assumptions C15_replay_reachable.
Print Assumptions C15_future_own_result_now.
Print Assumptions C15_future_set_once_now.
Print Assumptions C15_cross_talk_refuted_when.
Print Assumptions C15_payload_preserved.
Print Assumptions C15_payload_refuted_when.
