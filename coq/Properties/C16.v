(* Properties/C16.v — Every class the factories generate satisfies the framework's own contracts. *)
From Coq Require Import List String Bool.
From SV Require Import Model.Contracts Gen.ContractsGen Proofs.Contracts.
Import ListNotations.
Local Open Scope string_scope.

Lemma gen_translated : translation_failed = false.
Proof. reflexivity. Qed.
Lemma gen_rules : rules = spec_rules.
Proof. reflexivity. Qed.
Lemma gen_tables : the_tables = spec_tables the_flags.
Proof. reflexivity. Qed.
Print Assumptions gen_rules.
