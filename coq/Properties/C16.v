(* Properties/C16.v — Every class the factories generate satisfies the framework's own contracts.

   Configurations: the closed grammar `cfg` of Model/Contracts.v (base component | slice | sweep |
   node-level context_key | rename | delete | template) with UNBOUNDED nesting of slice / sweep.
   `gen the_tables c` = (metadata view of type(node), metadata view of type(node.processor)), or
   None when the factories raise.  `rules` = the RULES table read from expectations.py.
   Reflection-level rules (PReflect: SVA001-012, 102, 241, 250) are not expressible on metadata
   records; they are checked on the real classes by the correspondence run only.               *)
From Coq Require Import List String Bool.
From SV Require Import Model.Contracts Gen.ContractsGen Proofs.Contracts.
Import ListNotations.
Local Open Scope string_scope.

(* Facts read from /repo on this run. *)
Lemma gen_translated : translation_failed = false.
Proof. reflexivity. Qed.
Lemma gen_rules : rules = spec_rules.
Proof. reflexivity. Qed.
Lemma gen_tables : the_tables = spec_tables the_flags.
Proof. reflexivity. Qed.
Lemma gen_validate_runs_all_rules : validate_runs_all_rules = true.
Proof. reflexivity. Qed.

(* ---- (1) no error-level diagnostic on any generated class -------------------------------- *)

(* full statement; its premise is the generated fact "sweep wrappers do not repeat inherited keys" *)
Theorem C16_generated_pass_full :
  sweep_dedup the_flags = true ->
  forall c n p, bases_ok c = true -> gen the_tables c = Some (n, p) ->
  errors (run_rules rules n) = [] /\ errors (run_rules rules p) = [].
Proof.
  intros D c n p B G. rewrite gen_rules. rewrite gen_tables in G.
  exact (generated_pass the_flags c n p B (or_introl D) G).
Qed.

(* with the fact false (the current tree) the full statement is refuted by a nested sweep *)
Theorem C16_generated_pass_refuted_when :
  sweep_dedup the_flags = false ->
  exists c n p, bases_ok c = true /\ valid c = true /\ gen the_tables c = Some (n, p) /\
                errors (run_rules rules n) <> [].
Proof. rewrite gen_rules, gen_tables. exact (generated_pass_refuted the_flags). Qed.

(* unconditional: every configuration in which no sweep re-declares a "<var>_values" key that the
   swept class already creates (in particular: every configuration with at most one sweep on a
   base that does not itself declare such a key, and all nestings with distinct variable names) *)
Theorem C16_generated_pass_partial :
  forall c n p, bases_ok c = true -> fresh the_flags c = true -> gen the_tables c = Some (n, p) ->
  errors (run_rules rules n) = [] /\ errors (run_rules rules p) = [].
Proof.
  intros c n p B F G. rewrite gen_rules. rewrite gen_tables in G.
  exact (generated_pass the_flags c n p B (or_intror F) G).
Qed.

(* ---- (2) the node wrapper mirrors the processor it wraps ---------------------------------- *)

Theorem C16_wrapper_mirrors_full :
  probe_mirror the_flags = true ->
  forall c n p, gen the_tables c = Some (n, p) ->
  exists p0, proc the_flags (fst (strip_key c)) = Some p0 /\ mirrors (pk p0) (snd (strip_key c)) n p.
Proof.
  intros M c n p G. rewrite gen_tables in G.
  destruct (wrapper_mirrors_when the_flags c n p G) as (p0 & P & H). exists p0. auto.
Qed.

Theorem C16_wrapper_mirrors_refuted_when :
  probe_mirror the_flags = false ->
  exists c n p p0, valid c = true /\ gen the_tables c = Some (n, p) /\
    proc the_flags (fst (strip_key c)) = Some p0 /\ ~ mirrors (pk p0) (snd (strip_key c)) n p.
Proof. rewrite gen_tables. exact (wrapper_mirrors_refuted the_flags). Qed.

(* unconditional: everything except probe nodes whose processor declares created keys of its own *)
Theorem C16_wrapper_mirrors_partial :
  forall c n p, gen the_tables c = Some (n, p) ->
  exists p0, proc the_flags (fst (strip_key c)) = Some p0 /\
    (pk p0 <> KDataProbe \/ pcreated p0 = [] -> mirrors (pk p0) (snd (strip_key c)) n p).
Proof.
  intros c n p G. rewrite gen_tables in G.
  destruct (wrapper_mirrors_when the_flags c n p G) as (p0 & P & H). exists p0. split; auto.
Qed.

(* ---- (3) `valid` is exactly the domain of the generator ------------------------------------ *)

Theorem C16_gen_total_on_valid :
  forall c, valid c = true -> exists n p, gen the_tables c = Some (n, p).
Proof. rewrite gen_tables. exact (gen_total_on_valid the_flags). Qed.

Theorem C16_gen_only_on_valid :
  forall c n p, gen the_tables c = Some (n, p) -> valid c = true.
Proof. rewrite gen_tables. exact (gen_only_on_valid the_flags). Qed.

(* ---- non-vacuity: nested configurations that satisfy every hypothesis ---------------------- *)

Definition src_F : pinfo := mkP KDataSource "Src" "" "F" [("value", false)] [] [] [] false.
Definition sum_CF : pinfo := mkP KDataOperation "Sum" "C" "F" [] ["w"] [] [] false.

(* sliced swept probe bound to a context key *)
Definition ex_sliced_probe : cfg :=
  WithContextKey (Slice (Sweep (Base probe_F) [("t", None); ("u", Some "seq")] [] None) "C") "k".
(* sweep of a slice of a sweep (distinct variables) of a collection operation that writes a key *)
Definition ex_deep_op : cfg :=
  Sweep (Slice (Sweep (Base sum_CF) [("t", None)] [] (Some ("C", true))) "C") [("u", None)] [] (Some ("D", true)).
(* swept source whose parameter is computed by an expression *)
Definition ex_swept_source : cfg := Sweep (Base src_F) [("t", None)] ["value"] (Some ("C", true)).

Example ex_hypotheses_satisfiable :
  forallb (fun c => bases_ok c && fresh the_flags c && valid c) [ex_sliced_probe; ex_deep_op; ex_swept_source] = true.
Proof. reflexivity. Qed.

Example ex_generates_and_passes :
  forallb (fun c => match gen the_tables c with
                    | Some (n, p) => is_nil (errors (run_rules rules n)) && is_nil (errors (run_rules rules p))
                    | None => false end) [ex_sliced_probe; ex_deep_op; ex_swept_source] = true.
Proof. vm_compute. reflexivity. Qed.

Example ex_deep_op_created :
  option_map (fun np => v_created (fst np)) (gen the_tables ex_deep_op) = Some (Some ["u_values"; "t_values"; "w"]).
Proof. vm_compute. reflexivity. Qed.

Example ex_warnings_only_on_adapters :
  option_map (fun np => run_rules rules (snd np)) (gen the_tables ex_swept_source) = Some [("SVA201", SWarn)].
Proof. vm_compute. reflexivity. Qed.

(* the error rules are not vacuous: a view with a repeated injected key is rejected *)
Example ex_rules_reject :
  errors (run_rules rules (mkV [("class_name", MS "X"); ("docstring", MS ""); ("component_type", MS "DataOperationNode");
                                ("injected_context_keys", ML ["a"; "a"])] None None None None None ["DataOperationNode"] None None))
  = [("SVA104", SError)].
Proof. vm_compute. reflexivity. Qed.

(* invalid configurations do not generate *)
Example ex_invalid :
  map (gen the_tables) [Slice (Base src_F) "C"; Slice (Base sum_CF) "C"; Base probe_F;
                        WithContextKey (Base op_FF) "k"; Rename "1a" "b"; Template "o" []] = [None; None; None; None; None; None].
Proof. vm_compute. reflexivity. Qed.

(* both defects are repaired on the current tree (fix commits): hard obligations + unconditional corollaries *)
Lemma gen_sweep_dedup : sweep_dedup the_flags = true.
Proof. reflexivity. Qed.
Lemma gen_probe_mirror : probe_mirror the_flags = true.
Proof. reflexivity. Qed.
Definition C16_generated_pass := C16_generated_pass_full gen_sweep_dedup.
Definition C16_wrapper_mirrors := C16_wrapper_mirrors_full gen_probe_mirror.
Print Assumptions C16_generated_pass.
Print Assumptions C16_wrapper_mirrors.
Print Assumptions C16_generated_pass_full.
Print Assumptions C16_generated_pass_refuted_when.
Print Assumptions C16_generated_pass_partial.
Print Assumptions C16_wrapper_mirrors_full.
Print Assumptions C16_wrapper_mirrors_refuted_when.
Print Assumptions C16_wrapper_mirrors_partial.
Print Assumptions C16_gen_total_on_valid.
Print Assumptions C16_gen_only_on_valid.
