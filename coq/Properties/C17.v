(* Properties/C17.v — The CLI never executes a configuration its pre-flight checks reject.
   `semantiva run` is Model/Cli.v's interpreter applied to the decision chain, exit-code table and loop facts
   that harness/translate/cli.py reads from semantiva/cli/__init__.py on every run (Gen/CliGen.v), with the
   inspection variant of Gen/InspectGen.v and the run-space variant of Gen/RunSpaceGen.v. *)
From Coq Require Import List String ZArith Bool Arith Lia.
From SV Require Import Common.Prelude Model.Pipeline Model.PipelineLib Model.Inspect.
From SV Require Model.RunSpace Model.Loader Proofs.Loader Gen.LoaderGen Model.Placement Proofs.Placement Gen.PlacementGen.
From SV Require Import Model.Cli Gen.InspectGen Gen.RunSpaceGen Gen.CliGen Proofs.Cli.
Import ListNotations.
Local Open Scope string_scope.

(* ---------- facts read from the source on this run ---------- *)
Lemma gen_translated : CliGen.translation_failed = false.
Proof. reflexivity. Qed.
(* the EXIT_* constants, and the list of exit codes in docs/source/cli.rst *)
Lemma gen_codes : CliGen.codes = spec_codes.
Proof. reflexivity. Qed.
Lemma gen_doc_codes : CliGen.doc_codes =
  [(0, "Success."); (1, "CLI usage error."); (2, "File error (missing or unreadable files).");
   (3, "Configuration error (invalid YAML or contract violations)."); (4, "Runtime error during execution.");
   (5, "Interrupted by user.")]%Z.
Proof. reflexivity. Qed.
Lemma gen_documented_classes :
  map documented [CSuccess; CUsage; CFile; CConfig; CRuntime; CInterrupt] = map fst CliGen.doc_codes.
Proof. reflexivity. Qed.
(* decision-chain order: `_run`, read statement by statement, is the documented pre-flight order *)
Lemma gen_chain : CliGen.chain = spec_chain.
Proof. reflexivity. Qed.
Lemma gen_loop : CliGen.loop_initial = "EXIT_SUCCESS" /\
  CliGen.loop_handlers = [("KeyboardInterrupt", "EXIT_INTERRUPT"); ("Exception", "EXIT_RUNTIME_ERROR")].
Proof. split; reflexivity. Qed.
Lemma gen_usage : CliGen.usage_error_code = "EXIT_CLI_ERROR".
Proof. reflexivity. Qed.
Lemma gen_missing_rule : CliGen.missing_rule_first_run = true.
Proof. reflexivity. Qed.
(* a failed run leaves the loop; building the trace driver opens nothing *)
Lemma gen_stop : k_stop knobs = true.
Proof. reflexivity. Qed.
Lemma gen_lazy : k_trace_lazy knobs = true.
Proof. reflexivity. Qed.
(* no step that can leave an effect precedes a check, every stage the property names is checked,
   every check returns the documented code of its class *)
Lemma gen_good : good knobs = true.
Proof. vm_compute. reflexivity. Qed.

(* what comes before the stages that are decided late *)
Lemma gen_before_validate : preds (k_chain knobs) StValidate =
  [StLoadMissing; StLoadYaml; StLoadNotMapping; StOverride; StCliMerge; StRsFileMissing; StRsFileYaml; StRsFileShape;
   StCliMerge; StParse].
Proof. reflexivity. Qed.
Lemma gen_before_validate_flag : preds (k_chain knobs) StValidateFlag =
  (preds (k_chain knobs) StValidate ++ [StValidate; StContextArg])%list.
Proof. reflexivity. Qed.
Lemma gen_before_missing_keys : preds (k_chain knobs) StMissingKeys =
  (preds (k_chain knobs) StValidateFlag ++ [StValidateFlag; StTraceDriver; StExecComponents; StRunSpace; StMaxRuns])%list.
Proof. reflexivity. Qed.
Lemma gen_before_dry_run : preds (k_chain knobs) StDryRun =
  (preds (k_chain knobs) StMissingKeys ++ [StMissingKeys; StRunSpaceDry])%list.
Proof. reflexivity. Qed.

(* ---------- the property, for every chain that satisfies `good` ---------- *)
Theorem C17_full : good knobs = true ->
  (* rejected requests: no node, no sink output, no trace file, documented code *)
  (forall r st c, rejected_at knobs r = Some (st, c) ->
     no_exec (snd (cli knobs r)) /\ fst (cli knobs r) = documented (stage_class st)) /\
  (forall r st, In st gate_stages -> fires knobs r st = true ->
     exists st' c', rejected_at knobs r = Some (st', c') /\ (st' = st \/ In st' (preds (k_chain knobs) st))) /\
  (* exit 0 exactly when an early return was asked for on an acceptable configuration, or every planned run completed *)
  (forall r, fst (cli knobs r) = 0%Z <->
     (exists st c, rejected_at knobs r = Some (st, c) /\ stage_class st = CSuccess) \/
     (rejected_at knobs r = None /\ Forall (completes (nodes_of r)) (planned_ctxs knobs r))).
Proof.
  intro G. split; [|split].
  - intros r st c H. exact (reject_no_effect knobs r st c G H).
  - intros r st Hg F. destruct (gate_rejects knobs r st G Hg F) as [st' [c' [A [B _]]]]. exists st', c'. split; assumption.
  - intro r. exact (exit_zero_iff_all_completed knobs r G).
Qed.

Theorem C17_reject_no_effect : forall r st c, rejected_at knobs r = Some (st, c) ->
  no_exec (snd (cli knobs r)) /\ fst (cli knobs r) = documented (stage_class st).
Proof. exact (proj1 (C17_full gen_good)). Qed.

Theorem C17_reject_exact : forall r st c, rejected_at knobs r = Some (st, c) ->
  cli knobs r = (documented (stage_class st), [Printed st]).
Proof. intros r st c. exact (reject_exact knobs r st c gen_good). Qed.

(* ---------- one statement per class of rejection ---------- *)
(* stages decided before the --validate return: the exit code is never 0 *)
Local Ltac stage_cases H :=
  repeat (destruct H as [H|H]; [subst; simpl; auto|]); try destruct H.

Lemma early_stage_nonzero : forall r st, In st [StLoadMissing; StLoadYaml; StLoadNotMapping; StOverride; StParse; StValidate; StContextArg] ->
  fires knobs r st = true ->
  no_exec (snd (cli knobs r)) /\ (fst (cli knobs r) = 3%Z \/ fst (cli knobs r) = 2%Z).
Proof.
  intros r st Hin F.
  assert (Hg : In st gate_stages) by (simpl in *; tauto).
  destruct (gate_rejects knobs r st gen_good Hg F) as [st' [c' [A [B [C D]]]]].
  split; [exact C|]. rewrite D. clear - Hin B.
  destruct B as [->|B].
  - stage_cases Hin.
  - stage_cases Hin; vm_compute in B; stage_cases B.
Qed.

(* the configuration fails validation (unknown parameter, probe without context_key, incompatible
   neighbours, a key required after it was deleted) *)
Theorem C17_invalid_config : forall r, config_valid knobs r = false ->
  no_exec (snd (cli knobs r)) /\ (fst (cli knobs r) = 3%Z \/ fst (cli knobs r) = 2%Z).
Proof.
  intros r H. apply (early_stage_nonzero r StValidate); [simpl; tauto|].
  unfold fires. rewrite H. apply orb_true_r.
Qed.

(* the file cannot be read as a configuration / a --set or --context item is malformed *)
Theorem C17_unloadable : forall r st, In st [StLoadMissing; StLoadYaml; StLoadNotMapping; StOverride; StParse; StContextArg] ->
  In st (q_fail r) ->
  no_exec (snd (cli knobs r)) /\ (fst (cli knobs r) = 3%Z \/ fst (cli knobs r) = 2%Z).
Proof.
  intros r st Hin Hq. apply (early_stage_nonzero r st); [simpl in *; tauto|].
  unfold fires. apply orb_true_iff. left. apply stage_mem_In. exact Hq.
Qed.

(* stages decided when the run space is planned: rejected; the code is 3 (2 for a missing file) unless the
   --validate return, which the code takes before it plans the run space, answered first *)
Lemma late_stage : forall r st, In st [StRunSpace; StMaxRuns; StMissingKeys] -> fires knobs r st = true ->
  no_exec (snd (cli knobs r)) /\
  (fires knobs r StValidateFlag = false -> fst (cli knobs r) = 3%Z \/ fst (cli knobs r) = 2%Z).
Proof.
  intros r st Hin F.
  assert (Hg : In st gate_stages) by (simpl in *; tauto).
  destruct (gate_rejects knobs r st gen_good Hg F) as [st' [c' [A [B [C D]]]]].
  split; [exact C|]. intro NV. rewrite D.
  destruct (first_fire_in _ _ _ _ _ A) as [_ F']. clear - Hin B NV F'.
  destruct B as [->|B].
  - stage_cases Hin.
  - stage_cases Hin; vm_compute in B; stage_cases B; rewrite NV in F'; discriminate F'.
Qed.

Theorem C17_missing_key : forall r, missing knobs r <> [] ->
  no_exec (snd (cli knobs r)) /\
  (fires knobs r StValidateFlag = false -> fst (cli knobs r) = 3%Z \/ fst (cli knobs r) = 2%Z).
Proof.
  intros r H. apply (late_stage r StMissingKeys); [simpl; tauto|].
  unfold fires. destruct (missing knobs r); [contradiction|]. apply orb_true_r.
Qed.

Theorem C17_run_space_invalid : forall r e, expansion knobs r = RunSpace.Err e -> e <> RunSpace.EMaxRuns ->
  no_exec (snd (cli knobs r)) /\
  (fires knobs r StValidateFlag = false -> fst (cli knobs r) = 3%Z \/ fst (cli knobs r) = 2%Z).
Proof.
  intros r e H Hne. apply (late_stage r StRunSpace); [simpl; tauto|].
  unfold fires. rewrite H. destruct e; try apply orb_true_r. contradiction.
Qed.

Theorem C17_run_space_over_cap : forall r, expansion knobs r = RunSpace.Err RunSpace.EMaxRuns ->
  no_exec (snd (cli knobs r)) /\
  (fires knobs r StValidateFlag = false -> fst (cli knobs r) = 3%Z \/ fst (cli knobs r) = 2%Z).
Proof.
  intros r H. apply (late_stage r StMaxRuns); [simpl; tauto|].
  unfold fires. rewrite H. apply orb_true_r.
Qed.

(* early returns: nothing is executed; the code is 0 exactly when no earlier stage objected *)
Lemma early_return : forall r st, In st [StValidateFlag; StRunSpaceDry; StDryRun] -> fires knobs r st = true ->
  no_exec (snd (cli knobs r)) /\
  ((forall s, In s (preds (k_chain knobs) st) -> fires knobs r s = false) -> cli knobs r = (0%Z, [Printed st])).
Proof.
  intros r st Hin F.
  assert (Hg : In st gate_stages) by (simpl in *; tauto).
  split.
  - destruct (gate_rejects knobs r st gen_good Hg F) as [st' [c' [_ [_ [C _]]]]]. exact C.
  - intro Hp. rewrite (gate_rejects_here knobs r st gen_good Hg F Hp).
    simpl in Hin. destruct Hin as [<-|[<-|[<-|[]]]]; reflexivity.
Qed.

Theorem C17_validate_flag : forall r, q_validate r = true ->
  no_exec (snd (cli knobs r)) /\
  ((forall s, In s (preds (k_chain knobs) StValidateFlag) -> fires knobs r s = false) -> cli knobs r = (0%Z, [Printed StValidateFlag])).
Proof. intros r H. apply early_return; [simpl; tauto|]. unfold fires. rewrite H. apply orb_true_r. Qed.

Theorem C17_dry_run_flag : forall r, q_dry_run r = true ->
  no_exec (snd (cli knobs r)) /\
  ((forall s, In s (preds (k_chain knobs) StDryRun) -> fires knobs r s = false) -> cli knobs r = (0%Z, [Printed StDryRun])).
Proof. intros r H. apply early_return; [simpl; tauto|]. unfold fires. rewrite H. apply orb_true_r. Qed.

Theorem C17_run_space_dry_run : forall r, rs_dry r = true ->
  no_exec (snd (cli knobs r)) /\
  ((forall s, In s (preds (k_chain knobs) StRunSpaceDry) -> fires knobs r s = false) -> cli knobs r = (0%Z, [Printed StRunSpaceDry])).
Proof. intros r H. apply early_return; [simpl; tauto|]. unfold fires. rewrite H. apply orb_true_r. Qed.

(* ---------- exit code 0 / non-zero, and the runs after a failed run ---------- *)
Theorem C17_exit_zero_iff_all_completed : forall r,
  fst (cli knobs r) = 0%Z <->
  (exists st c, rejected_at knobs r = Some (st, c) /\ stage_class st = CSuccess) \/
  (rejected_at knobs r = None /\ Forall (completes (nodes_of r)) (planned_ctxs knobs r)).
Proof. exact (proj2 (proj2 (C17_full gen_good))). Qed.

(* for requests that reach the loop: 0 iff every planned run returned Done, otherwise 4 *)
Theorem C17_accepted_exit : forall r, rejected_at knobs r = None ->
  (Forall (completes (nodes_of r)) (planned_ctxs knobs r) -> fst (cli knobs r) = 0%Z) /\
  (~ Forall (completes (nodes_of r)) (planned_ctxs knobs r) -> fst (cli knobs r) = 4%Z).
Proof.
  intros r R. rewrite (accepted_exit knobs r gen_good R). split; intro H.
  - apply loop_of_ok in H. rewrite H. reflexivity.
  - destruct (snd (loop_of knobs r)) eqn:E; [|reflexivity]. exfalso. apply H. apply loop_of_ok. exact E.
Qed.

Theorem C17_stop_after_failure_when : k_stop knobs = true ->
  forall r k rv, rejected_at knobs r = None -> nth_error (planned knobs r) k = Some rv ->
  ~ completes (nodes_of r) (run_ctx (q_ctx r) rv) ->
  (forall j i, In (NodeRan j i) (snd (cli knobs r)) -> j <= k) /\ fst (cli knobs r) = 4%Z.
Proof. intros S r k rv. exact (stop_after_failure knobs r k rv gen_good S). Qed.

Theorem C17_stop_after_failure : forall r k rv,
  rejected_at knobs r = None -> nth_error (planned knobs r) k = Some rv ->
  ~ completes (nodes_of r) (run_ctx (q_ctx r) rv) ->
  (forall j i, In (NodeRan j i) (snd (cli knobs r)) -> j <= k) /\ fst (cli knobs r) = 4%Z.
Proof. exact (C17_stop_after_failure_when gen_stop). Qed.

(* ---------- non-vacuity: requests of every kind ---------- *)
Definition src1 : inode := (mkNode (lib_src false) [("value", VNum 6)] None, TF).
Definition mulc : inode := (mkNode (lib_mul false) [] None, TF).                    (* factor from the context *)
Definition divc : inode := (mkNode lib_divide [] None, TF).                         (* divisor from the context *)
Definition endsink : inode := (mkNode lib_sink [("path", VStr "end.txt")] None, TF).
Definition runsink : inode := (mkNode lib_sink [] None, TF).                        (* path from the context *)
Definition bogus : inode := (mkNode (lib_mul false) [("factor", VNum 2); ("bogus", VNum 1)] None, TF).

Definition req (nodes : list inode) (c : ctx) (rs : option RunSpace.spec) (validate dry traced : bool) : request :=
  mkReq [] nodes c (match rs with Some s => s | None => default_spec end)
        (match rs with Some _ => true | None => false end) false None false validate dry traced.

Definition three_runs (divs : list Z) : RunSpace.spec :=
  RunSpace.mkSpec RunSpace.ByPosition 1000
    [RunSpace.mkBlock RunSpace.ByPosition
       [("divisor", map RunSpace.VInt divs); ("path", map RunSpace.VStr ["r0.txt"; "r1.txt"; "r2.txt"])] None].

(* an accepted configuration runs: nodes start, the sink writes, a trace file appears, exit 0 *)
Example ex_accepted :
  cli knobs (req [src1; mulc; endsink] [("factor", VNum 2)] None false false true) =
  (0%Z, [TraceFile; NodeRan 0 0; NodeRan 0 1; NodeRan 0 2; SinkWrote "end.txt"]).
Proof. vm_compute. reflexivity. Qed.
(* the same request with --validate, with --dry-run: nothing but the message *)
Example ex_validate :
  cli knobs (req [src1; mulc; endsink] [("factor", VNum 2)] None true false true) = (0%Z, [Printed StValidateFlag]).
Proof. vm_compute. reflexivity. Qed.
Example ex_dry_run :
  cli knobs (req [src1; mulc; endsink] [("factor", VNum 2)] None false true true) = (0%Z, [Printed StDryRun]).
Proof. vm_compute. reflexivity. Qed.
(* without the key: rejected by the gate, code 3 *)
Example ex_missing_key :
  missing knobs (req [src1; mulc; endsink] [] None false false true) = ["factor"] /\
  cli knobs (req [src1; mulc; endsink] [] None false false true) = (3%Z, [Printed StMissingKeys]).
Proof. vm_compute. split; reflexivity. Qed.
(* an unknown parameter: validation fails, code 3, also under --dry-run *)
Example ex_invalid :
  config_valid knobs (req [src1; bogus; endsink] [] None false true true) = false /\
  cli knobs (req [src1; bogus; endsink] [] None false true true) = (3%Z, [Printed StValidate]).
Proof. vm_compute. split; reflexivity. Qed.
(* run spaces: mismatched lengths, over the cap *)
Example ex_run_space_invalid :
  expansion knobs (req [src1; divc; runsink] [] (Some (three_runs [1; 1]%Z)) false false true) = RunSpace.Err RunSpace.ELen /\
  cli knobs (req [src1; divc; runsink] [] (Some (three_runs [1; 1]%Z)) false false true) = (3%Z, [Printed StRunSpace]).
Proof. vm_compute. split; reflexivity. Qed.
Example ex_over_cap :
  let r := mkReq [] [src1; divc; runsink] [] (three_runs [1; 1; 1]%Z) true false (Some 2%Z) false false false true in
  expansion knobs r = RunSpace.Err RunSpace.EMaxRuns /\ cli knobs r = (3%Z, [Printed StMaxRuns]).
Proof. vm_compute. split; reflexivity. Qed.
Example ex_run_space_dry :
  let r := mkReq [] [src1; divc; runsink] [] (three_runs [1; 1; 1]%Z) true false None true false false true in
  cli knobs r = (0%Z, [Printed StRunSpaceDry]).
Proof. vm_compute. reflexivity. Qed.
(* --validate answers before the run space is planned (the order of the generated chain) *)
Example ex_validate_before_run_space :
  cli knobs (req [src1; divc; runsink] [] (Some (three_runs [1; 1]%Z)) true false true) = (0%Z, [Printed StValidateFlag]).
Proof. vm_compute. reflexivity. Qed.
(* three planned runs, the second divides by zero: the third is never started, exit 4 *)
Example ex_stop :
  cli knobs (req [src1; runsink; divc; endsink] [] (Some (three_runs [1; 0; 2]%Z)) false false false) =
  (4%Z, [NodeRan 0 0; NodeRan 0 1; SinkWrote "r0.txt"; NodeRan 0 2; NodeRan 0 3; SinkWrote "end.txt";
         NodeRan 1 0; NodeRan 1 1; SinkWrote "r1.txt"; NodeRan 1 2]).
Proof. vm_compute. reflexivity. Qed.
Example ex_stop_hypotheses :
  let r := req [src1; runsink; divc; endsink] [] (Some (three_runs [1; 0; 2]%Z)) false false false in
  rejected_at knobs r = None /\
  exists rv, nth_error (planned knobs r) 1 = Some rv /\ ~ completes (nodes_of r) (run_ctx (q_ctx r) rv).
Proof.
  split; [vm_compute; reflexivity|]. eexists. split; [vm_compute; reflexivity|].
  intros [s' H]. vm_compute in H. discriminate H.
Qed.
(* the loop fact matters: a loop that went on after a failure would start the third run *)
Example ex_stop_fact_matters :
  let K := mkKnobs (k_chain knobs) (k_codes knobs) (k_trace_lazy knobs) false (k_ok_code knobs) (k_fail_code knobs) (k_iv knobs) (k_rv knobs) in
  In (NodeRan 2 0) (snd (cli K (req [src1; runsink; divc; endsink] [] (Some (three_runs [1; 0; 2]%Z)) false false false))).
Proof. vm_compute. tauto. Qed.
(* the order fact matters: a chain that planned the launch before the dry-run return would leave a trace file *)
Example ex_order_fact_matters :
  wf true [Check StValidate "EXIT_CONFIG_ERROR"; LaunchStart; Check StDryRun "EXIT_SUCCESS"; Loop] = false /\
  let K := mkKnobs [Check StValidate "EXIT_CONFIG_ERROR"; LaunchStart; Check StDryRun "EXIT_SUCCESS"; Loop]
                   (k_codes knobs) true true (k_ok_code knobs) (k_fail_code knobs) (k_iv knobs) (k_rv knobs) in
  cli K (req [src1; divc; runsink] [] (Some (three_runs [1; 1; 1]%Z)) false true true) = (0%Z, [TraceFile; Printed StDryRun]).
Proof. vm_compute. split; reflexivity. Qed.

(* ---------- the gate is exactly as good as the required-key analysis of the inspection (C02) ---------- *)
(* use before create: node 3 needs `factor`, which only node 4 creates; a file sink comes first *)
Definition ubc_req : request :=
  req [(mkNode (lib_src false) [("value", VNum 1)] None, TF); (mkNode lib_sink [("path", VStr "first.txt")] None, TF);
       (mkNode (lib_mul false) [] None, TF); (mkNode lib_probe [] (Some "factor"), TF);
       (mkNode lib_sink [("path", VStr "end.txt")] None, TF)] [] None false false true.
Theorem C17_use_before_create_rejected_when : order_sensitive (k_iv knobs) = true ->
  cli knobs ubc_req = (3%Z, [Printed StMissingKeys]).
Proof. intro H. first [ (vm_compute in H; discriminate H) | (vm_compute; reflexivity) ]. Qed.
Theorem C17_use_before_create_passes_gate_when : order_sensitive (k_iv knobs) = false ->
  rejected_at knobs ubc_req = None /\ In (SinkWrote "first.txt") (snd (cli knobs ubc_req)) /\ fst (cli knobs ubc_req) = 4%Z.
Proof. intro H. first [ (vm_compute in H; discriminate H) | (vm_compute; repeat split; tauto) ]. Qed.

(* ---------- a run-space dry run is requested by ANY truthy spelling of run_space.dry_run (true, 1, "yes", ...): the loader
   reads the member by truthiness (fact read from load_pipeline_from_yaml.py on this run; hard obligation) ---------- *)
Lemma gen_dry_run_by_truthiness : Loader.d_dry_truthy LoaderGen.impl = true.
Proof. reflexivity. Qed.
Theorem C17_dry_run_spellings : forall y, Loader.load_dry LoaderGen.impl (Some y) = Loader.truthy y.
Proof. intros y. apply Proofs.Loader.dry_run_is_truthiness. exact gen_dry_run_by_truthiness. Qed.
Theorem C17_dry_run_spellings_refuted_when :
  Loader.d_dry_truthy LoaderGen.impl = false ->
  Loader.load_dry LoaderGen.impl (Some (Loader.YInt 1)) = false /\ Loader.truthy (Loader.YInt 1) = true.
Proof. apply Proofs.Loader.dry_identity_refuted. Qed.
(* composed with the gate: a request whose run-space block is WRITTEN with a truthy dry_run executes nothing *)
Theorem C17_written_dry_run_executes_nothing : forall r raw y,
  Loader.r_dry raw = Some y -> Loader.truthy y = true ->
  rs_dry r = snd (Loader.load LoaderGen.impl raw) ->
  no_exec (snd (cli knobs r)).
Proof.
  intros r raw y Hy Ht Hr. apply (C17_run_space_dry_run r).
  rewrite Hr. unfold Loader.load; simpl. rewrite Hy, C17_dry_run_spellings. exact Ht.
Qed.
Example ex_dry_spellings :
  map (fun y => Loader.load_dry LoaderGen.impl (Some y)) [Loader.YBool true; Loader.YInt 1; Loader.YStr "yes"; Loader.YInt 0; Loader.YStr ""; Loader.YNull; Loader.YBool false]
  = [true; true; true; false; false; false; false].
Proof. reflexivity. Qed.
(* ---------- the run-space flags of the command line act on the run space IN FORCE, wherever it is written (top level, under
   `pipeline:`, --run-space-file; also with a second, ignored block under `pipeline:`).  Which block the loader prefers and which
   block _run patches are read from the two source files on this run (hard obligations); under any other pair the statement is
   false (refuted_when) ---------- *)
Lemma gen_loader_reads_top_level_first : PlacementGen.loader_prio = Placement.TopFirst.
Proof. reflexivity. Qed.
Lemma gen_flags_patch_the_loader_block : PlacementGen.cli_patch = Placement.PatchLoaderBlock.
Proof. reflexivity. Qed.
Lemma gen_file_stored_at_top : PlacementGen.file_stored_at_top = true.
Proof. reflexivity. Qed.
Theorem C17_flags_act_on_the_run_space_in_force : forall fl d,
  Placement.cli_run_space PlacementGen.loader_prio PlacementGen.cli_patch fl d = Placement.intended PlacementGen.loader_prio fl d.
Proof.
  intros fl d. rewrite gen_flags_patch_the_loader_block.
  apply Proofs.Placement.patched_block_is_intended. exact gen_loader_reads_top_level_first.
Qed.
(* ... down to the specification the launch is planned from: blocks and combine untouched, the cap is the one given, a dry run
   is requested *)
Theorem C17_flags_reach_the_launch : forall fl d r,
  Placement.has_flags fl = true ->
  Placement.in_force PlacementGen.loader_prio (Placement.apply_file fl d) = Some r ->
  exists r', Placement.cli_run_space PlacementGen.loader_prio PlacementGen.cli_patch fl d = Some r' /\
    RunSpace.sp_blocks (fst (Loader.load LoaderGen.impl r')) = RunSpace.sp_blocks (fst (Loader.load LoaderGen.impl r)) /\
    RunSpace.sp_combine (fst (Loader.load LoaderGen.impl r')) = RunSpace.sp_combine (fst (Loader.load LoaderGen.impl r)) /\
    (forall z, Placement.f_cap fl = Some z -> RunSpace.sp_max_runs (fst (Loader.load LoaderGen.impl r')) = z) /\
    (Placement.f_cap fl = None -> RunSpace.sp_max_runs (fst (Loader.load LoaderGen.impl r')) = RunSpace.sp_max_runs (fst (Loader.load LoaderGen.impl r))) /\
    (Placement.f_dry fl = true -> snd (Loader.load LoaderGen.impl r') = true) /\
    (Placement.f_dry fl = false -> snd (Loader.load LoaderGen.impl r') = snd (Loader.load LoaderGen.impl r)).
Proof.
  intros fl d r Hf Hr. rewrite gen_flags_patch_the_loader_block.
  apply Proofs.Placement.flags_reach_the_launch; [exact gen_loader_reads_top_level_first | exact Hf | exact Hr].
Qed.
Theorem C17_run_space_file_wins : forall fl d r,
  Placement.f_file fl = Some r -> Placement.in_force PlacementGen.loader_prio (Placement.apply_file fl d) = Some r.
Proof. intros fl d r H. rewrite gen_loader_reads_top_level_first. apply Proofs.Placement.file_wins. exact H. Qed.
(* composed with the gate: --run-space-dry-run on a document whose run space is in force executes nothing *)
Theorem C17_dry_run_flag_reaches_the_gate : forall rq fl d r r',
  Placement.f_dry fl = true ->
  Placement.in_force PlacementGen.loader_prio (Placement.apply_file fl d) = Some r ->
  Placement.cli_run_space PlacementGen.loader_prio PlacementGen.cli_patch fl d = Some r' ->
  rs_dry rq = snd (Loader.load LoaderGen.impl r') ->
  no_exec (snd (cli knobs rq)).
Proof.
  intros rq fl d r r' Hd Hr Hr' Hrq. apply (C17_run_space_dry_run rq). rewrite Hrq.
  assert (Hf : Placement.has_flags fl = true) by (unfold Placement.has_flags; rewrite Hd; apply Bool.orb_true_r).
  destruct (C17_flags_reach_the_launch fl d r Hf Hr) as [r2 [H1 [_ [_ [_ [_ [H6 _]]]]]]].
  rewrite Hr' in H1. injection H1 as ->. exact (H6 Hd).
Qed.
Theorem C17_flags_top_always_refuted_when : PlacementGen.cli_patch = Placement.PatchTopAlways ->
  exists fl d, Placement.cli_run_space Placement.TopFirst PlacementGen.cli_patch fl d <> Placement.intended Placement.TopFirst fl d.
Proof.
  intros H. rewrite H. exists Proofs.Placement.cap2, (Placement.mkDoc None (Some Proofs.Placement.three_runs)).
  exact (proj1 Proofs.Placement.top_always_refuted).
Qed.
Theorem C17_flags_nested_if_present_refuted_when : PlacementGen.cli_patch = Placement.PatchNestedIfPresent ->
  exists fl d, Placement.cli_run_space Placement.TopFirst PlacementGen.cli_patch fl d <> Placement.intended Placement.TopFirst fl d.
Proof.
  intros H. rewrite H. exists Proofs.Placement.cap2, (Placement.mkDoc (Some Proofs.Placement.three_runs) (Some Proofs.Placement.one_run)).
  destruct Proofs.Placement.nested_if_present_refuted as [A B]. rewrite A, B. discriminate.
Qed.
Example ex_flags_every_placement :
  map (fun d => option_map Loader.r_max_runs (Placement.cli_run_space PlacementGen.loader_prio PlacementGen.cli_patch Proofs.Placement.cap2 d))
      [Placement.mkDoc (Some Proofs.Placement.three_runs) None; Placement.mkDoc None (Some Proofs.Placement.three_runs);
       Placement.mkDoc (Some Proofs.Placement.three_runs) (Some Proofs.Placement.one_run); Placement.mkDoc None None]
  = [Some (Some 2%Z); Some (Some 2%Z); Some (Some 2%Z); Some (Some 2%Z)].
Proof. reflexivity. Qed.
Print Assumptions C17_flags_act_on_the_run_space_in_force.
Print Assumptions C17_flags_reach_the_launch.
Print Assumptions C17_run_space_file_wins.
Print Assumptions C17_dry_run_flag_reaches_the_gate.
Print Assumptions C17_dry_run_spellings.
Print Assumptions C17_written_dry_run_executes_nothing.
Print Assumptions C17_full.
Print Assumptions C17_reject_no_effect.
Print Assumptions C17_reject_exact.
Print Assumptions C17_invalid_config.
Print Assumptions C17_unloadable.
Print Assumptions C17_missing_key.
Print Assumptions C17_run_space_invalid.
Print Assumptions C17_run_space_over_cap.
Print Assumptions C17_validate_flag.
Print Assumptions C17_dry_run_flag.
Print Assumptions C17_run_space_dry_run.
Print Assumptions C17_exit_zero_iff_all_completed.
Print Assumptions C17_accepted_exit.
Print Assumptions C17_stop_after_failure.
Print Assumptions C17_use_before_create_rejected_when.
Print Assumptions C17_use_before_create_passes_gate_when.
