(* Properties/C18.v -- Repeated execution leaves no per-run residue in the process.

   State of the process (Model/Registry.v): the component registry (category -> class names, keyed as
   semantiva_component.py keys it), the message count of the current Pipeline object's transport, the
   channel table of a queue worker's job transport, the generated classes still alive.  `run_once F w c`
   is one repetition of configuration `c` in way `w` (one reused Pipeline object, a fresh Pipeline object
   per run, a run-space launch, a queue worker); `start F w c` is what happens once before the first
   repetition; `F = RegistryGen.facts` is read from the source on every run.

   The population of gc-tracked objects (`len(gc.get_objects())`) belongs to CPython's allocator and is
   measured by the harness only, not modelled. *)
From Coq Require Import List String Bool Arith Lia.
From SV Require Import Model.Registry Gen.RegistryGen Proofs.Registry.
Import ListNotations.
Open Scope string_scope.

Lemma gen_translated : translation_failed = false.
Proof. reflexivity. Qed.

(* the role table read from _pipeline_node_factory: every role gets at least one node class per instantiation
   when nodes are built at all (used by the growth theorem only) *)
Lemma gen_node_classes_positive :
  node_classes_created_per_execute = true -> forall r, 1 <= node_classes_of r.
Proof.
  intros _ r.
  (* a table with a zero entry breaks this obligation by name *)
  destruct r; cbv; repeat constructor.
Qed.

(* ---- the full property, conditional on the facts ---------------------------------------------------- *)
(* After one warm-up repetition, N further repetitions leave the registry, the Pipeline object's queue and the
   job channel table exactly as they were -- for every configuration, way, start state and N. *)
Theorem C18_full :
  classes_stable facts = true ->
  published_outputs_consumed = true ->
  job_channels_removed = true ->
  forall w c s N,
    let s1 := run_once facts w c (start facts w c s) in
    let sN := iter N (run_once facts w c) s1 in
    registry sN = registry s1 /\ queue sN = queue s1 /\ jobchan sN = jobchan s1.
Proof.
  intros CS PC JC w c s N s1 sN. repeat split.
  - exact (registry_stable facts w c (start facts w c s) N CS).
  - exact (queue_stable facts w c (start facts w c s) N PC).
  - apply jobchan_stable. left. exact JC.
Qed.

Theorem C18_registry_stable :
  classes_stable facts = true ->
  forall w c s N,
    let s1 := run_once facts w c (start facts w c s) in
    registry (iter N (run_once facts w c) s1) = registry s1.
Proof. intros CS w c s N. exact (registry_stable facts w c (start facts w c s) N CS). Qed.

Theorem C18_queue_stable :
  published_outputs_consumed = true ->
  forall w c s N,
    let s1 := run_once facts w c (start facts w c s) in
    queue (iter N (run_once facts w c) s1) = queue s1.
Proof. intros PC w c s N. exact (queue_stable facts w c (start facts w c s) N PC). Qed.

Theorem C18_live_stable :
  all_memo_b facts = true -> metaclass_registers_every_class = true ->
  forall w c s N,
    let s1 := run_once facts w c (start facts w c s) in
    live (iter N (run_once facts w c) s1) = live s1.
Proof.
  intros AM R w c s N.
  exact (live_stable_memoised facts w c (start facts w c s) N (all_memo_b_spec facts AM) R).
Qed.

(* ---- the current tree ------------------------------------------------------------------------------------ *)
(* Nothing is memoised and every class is registered: the registry (and the live classes) grow by exactly
   k cfg per repetition -- closed form for every configuration, way, state and N -- and for every non-empty
   configuration the registry after 3N repetitions is strictly larger than after N, warm-up or not. *)
Theorem C18_refuted_when :
  no_memo_b facts = true ->
  metaclass_registers_every_class = true ->
  node_classes_created_per_execute = true ->
  (forall w c s N,
      reg_size (registry (iter N (run_once facts w c) s)) = reg_size (registry s) + N * k facts w c
      /\ live (iter N (run_once facts w c) s) = live s + N * k facts w c)
  /\ (forall w c, List.length (c_nodes c) <= k facts w c)
  /\ (forall w c s N, c_nodes c <> [] -> 0 < N ->
      let s1 := run_once facts w c (start facts w c s) in
      reg_size (registry (iter N (run_once facts w c) s1))
      < reg_size (registry (iter (3 * N) (run_once facts w c) s1)))
  /\ exists w c, forall s, exists N,
      let s1 := run_once facts w c (start facts w c s) in
      registry (iter N (run_once facts w c) s1) <> registry s1.
Proof.
  intros NM R PE.
  pose proof (no_memo_b_spec facts NM) as NM'.
  assert (I : inst_in_execute facts = true).
  { unfold node_classes_created_per_execute in PE. apply andb_prop in PE. apply PE. }
  pose proof (gen_node_classes_positive PE) as POS.
  split; [|split; [|split]].
  - intros w c s N. split.
    + apply registry_closed_form; assumption.
    + apply live_closed_form; assumption.
  - intros w c. apply k_positive; assumption.
  - intros w c s N NE P s1. apply registry_grows; assumption.
  - exists WReused, (mkConfig [mkNode PRegistered ROperation "Op" ""] false). intros s. exists 1.
    intros s1 E.
    pose proof (registry_closed_form facts NM' R WReused (mkConfig [mkNode PRegistered ROperation "Op" ""] false) s1 1) as CF.
    rewrite E in CF.
    pose proof (k_positive facts WReused (mkConfig [mkNode PRegistered ROperation "Op" ""] false) I POS) as KP.
    simpl in KP. lia.
Qed.

(* One message per node and repetition stays in the transport of a reused Pipeline object (also inside a
   run-space launch): closed form for all facts, growth when outputs are not consumed. *)
Theorem C18_queue_closed_form :
  forall w c s N, w = WReused \/ w = WRunSpace ->
    queue (iter N (run_once facts w c) s) = queue s + N * published facts c.
Proof. intros w c s N W. apply queue_closed_form, W. Qed.

Theorem C18_queue_refuted_when :
  published_outputs_consumed = false ->
  forall w c s N, w = WReused \/ w = WRunSpace ->
    queue (iter N (run_once facts w c) s) = queue s + N * List.length (c_nodes c).
Proof.
  intros PC w c s N W. rewrite queue_closed_form by assumption.
  unfold published. change (consumed facts) with published_outputs_consumed. rewrite PC. reflexivity.
Qed.

Theorem C18_jobchan_closed_form :
  forall c s N,
    jobchan (iter N (run_once facts WWorker c) s) = jobchan s + N * (if job_channels_removed then 0 else 2).
Proof. intros c s N. apply (jobchan_closed_form facts WWorker c s N). Qed.

(* ---- what holds whatever the facts are (partial) -------------------------------------------------------- *)
(* (a) nothing ever shrinks; (b) the growth per repetition is the same for every repetition -- classes per run
   is a sum over the nodes of a number that depends on the node kind only, so the *amount* of work of run N does
   not depend on N even where the residue accumulates; (c) a fresh Pipeline object per repetition never
   accumulates messages; (d) only the queue worker touches the job channel table; (e) the empty configuration
   leaves nothing behind. *)
Theorem C18_partial :
  (forall w c s N, reg_size (registry s) <= reg_size (registry (iter N (run_once facts w c) s)))
  /\ (forall w c, k facts w c = list_sum (map (k_node facts w (c_traced c)) (c_nodes c)))
  /\ (forall w c s N, w = WFresh \/ w = WWorker ->
        let s1 := run_once facts w c s in queue (iter N (run_once facts w c) s1) = queue s1)
  /\ (forall w c s N, w <> WWorker -> jobchan (iter N (run_once facts w c) s) = jobchan s)
  /\ (forall w tr s N, registry (iter N (run_once facts w (mkConfig [] tr)) s) = registry s).
Proof.
  repeat split.
  - intros. apply registry_never_shrinks.
  - intros. apply k_sum.
  - intros w c s N W. apply queue_stable_fresh, W.
  - intros w c s N W. apply jobchan_stable. right. exact W.
  - intros. apply empty_config_stable.
Qed.

Theorem C18_never_shrinks :
  forall w c s N,
    reg_size (registry s) <= reg_size (registry (iter N (run_once facts w c) s))
    /\ jobchan s <= jobchan (iter N (run_once facts w c) s)
    /\ (w = WReused \/ w = WRunSpace -> queue s <= queue (iter N (run_once facts w c) s)).
Proof.
  intros w c s N. repeat split.
  - apply registry_never_shrinks.
  - apply jobchan_never_shrinks.
  - apply queue_never_shrinks.
Qed.

(* ---- non-vacuity ------------------------------------------------------------------------------------------ *)
(* the hypotheses of C18_full are satisfiable, and under them the warm-up does create classes once *)
Example ex_full_hyps : classes_stable memo_all = true /\ consumed memo_all = true /\ chan_removed memo_all = true
                       /\ classes_stable unregistered = true.
Proof. repeat split. Qed.
Example ex_memo_run :
  let s1 := run_once memo_all WReused ex_cfg (start memo_all WReused ex_cfg ex_base) in
  reg_size (registry ex_base) = 32 /\ reg_size (registry s1) = 40
  /\ reg_size (registry (iter 50 (run_once memo_all WReused ex_cfg) s1)) = 40
  /\ queue (iter 50 (run_once memo_all WReused ex_cfg) s1) = 0.
Proof. vm_compute. repeat split. Qed.

(* the hypotheses of C18_refuted_when are satisfiable: the finding F-C18-a in the model --
   8 classes and 5 retained messages per run of the 5-node pipeline *)
Example ex_refuted_hyps : no_memo_b leaky = true /\ registers leaky = true /\ inst_in_execute leaky = true.
Proof. repeat split. Qed.
Example ex_leaky_run :
  k leaky WReused ex_cfg = 8
  /\ let s1 := run_once leaky WReused ex_cfg (start leaky WReused ex_cfg ex_base) in
     reg_size (registry s1) = 40
     /\ reg_size (registry (iter 50 (run_once leaky WReused ex_cfg) s1)) = 440
     /\ reg_size (registry (iter 150 (run_once leaky WReused ex_cfg) s1)) = 1240
     /\ queue (iter 150 (run_once leaky WReused ex_cfg) s1) = 755
     /\ cat_count "DataSourceNode" (registry (iter 150 (run_once leaky WReused ex_cfg) s1)) = 151
     /\ jobchan (iter 150 (run_once leaky WWorker ex_cfg) ex_base) = 300.
Proof. vm_compute. repeat split. Qed.
(* a traced run of the same pipeline resolves `rename:k:j` once more: 9 classes per run; a sweep node adds one
   class per Pipeline construction *)
Example ex_traced_k :
  k leaky WReused (mkConfig (c_nodes ex_cfg) true) = 9
  /\ k leaky WFresh (mkConfig (mkNode PSweep RDataSource "FloatValueDataSourceParametricSweep" "" :: tl (c_nodes ex_cfg)) false) = 9
  /\ k leaky WReused (mkConfig (mkNode PSweep RDataSource "FloatValueDataSourceParametricSweep" "" :: tl (c_nodes ex_cfg)) false) = 8.
Proof. vm_compute. repeat split. Qed.

Print Assumptions C18_full.
Print Assumptions C18_registry_stable.
Print Assumptions C18_queue_stable.
Print Assumptions C18_live_stable.
Print Assumptions C18_refuted_when.
Print Assumptions C18_queue_closed_form.
Print Assumptions C18_queue_refuted_when.
Print Assumptions C18_jobchan_closed_form.
Print Assumptions C18_partial.
Print Assumptions C18_never_shrinks.
