"""Shared machinery of the /verif checks: build, gate, correspondence runs,
violation / known-finding logic, evidence.  Python >= 3.11, stdlib only."""
from __future__ import annotations

import fcntl
import glob
import hashlib
import json
import os
import re
import shutil
import subprocess
import sys
import time
from concurrent.futures import ThreadPoolExecutor

ROOT = os.path.dirname(os.path.dirname(os.path.abspath(__file__)))
REPO = os.environ.get("VERIF_REPO", "/repo")
COQ = os.path.join(ROOT, "coq")
BUILD = os.path.join(ROOT, "build")
EVID = os.path.join(ROOT, "evidence")
REPLAY = os.path.join(EVID, "replay")
PY = os.environ.get("VERIF_PY", "/venv/bin/python")
NPROC = int(os.environ.get("VERIF_JOBS", "16"))

FORBIDDEN = re.compile(
    r"\b(Admitted|admit|Axiom|Axioms|Parameter|Parameters|Conjecture|Conjectures)\b|"
    r"Unset\s+Guard|bypass_check|Admit\s+Obligations|type-in-type|impredicative-set|"
    r"Unset\s+Universe\s+Checking|Unset\s+Positivity"
)
# Axioms of the standard library that a theorem may depend on (each is reported
# in evidence when it appears).  Anything else in a Print Assumptions block is red.
ALLOWED_AXIOMS = {
    "functional_extensionality_dep",
    "FunctionalExtensionality.functional_extensionality_dep",
}


def sh(cmd, timeout=600, cwd=None, env=None, input=None):
    """Run a shell command; returns (rc, stdout+stderr).  rc=124 on timeout."""
    e = dict(os.environ)
    if env:
        e.update(env)
    try:
        p = subprocess.run(cmd, shell=isinstance(cmd, str), cwd=cwd, env=e, input=input,
                           stdout=subprocess.PIPE, stderr=subprocess.STDOUT, timeout=timeout, text=True)
        return p.returncode, p.stdout
    except subprocess.TimeoutExpired as ex:
        out = ex.stdout or ""
        if isinstance(out, bytes):
            out = out.decode("utf-8", "replace")
        return 124, out + "\n[timeout after %ss]" % timeout


def impl_env(extra=None):
    """Environment for running /repo code."""
    e = {"PYTHONPATH": REPO + os.pathsep + ROOT, "PYTHONHASHSEED": "0", "PYTHONDONTWRITEBYTECODE": "1",
         "SEMANTIVA_VERIF": "1"}
    if extra:
        e.update(extra)
    return e


class Lock:
    def __init__(self, name="coq"):
        os.makedirs(BUILD, exist_ok=True)
        self.path = os.path.join(BUILD, "." + name + ".lock")

    def __enter__(self):
        self.f = open(self.path, "w")
        fcntl.flock(self.f, fcntl.LOCK_EX)
        return self

    def __exit__(self, *a):
        fcntl.flock(self.f, fcntl.LOCK_UN)
        self.f.close()


# --------------------------------------------------------------------------
# Coq project

def v_files():
    out = []
    for d in ("Common", "Gen", "Model", "Proofs", "Properties"):
        out += sorted(glob.glob(os.path.join(COQ, d, "*.v")))
    return [os.path.relpath(p, COQ) for p in out]


def ensure_project():
    """(Re)write _CoqProject and the Makefile when the file list changed."""
    files = v_files()
    text = "-Q . SV\n-arg -w -arg -notation-overridden,-deprecated-hint-without-locality,-ambiguous-paths\n" + "\n".join(files) + "\n"
    cp = os.path.join(COQ, "_CoqProject")
    old = open(cp).read() if os.path.exists(cp) else None
    if old != text or not os.path.exists(os.path.join(COQ, "Makefile")):
        with open(cp, "w") as f:
            f.write(text)
        rc, out = sh("coq_makefile -f _CoqProject -o Makefile", cwd=COQ, timeout=60)
        if rc != 0:
            raise RuntimeError("coq_makefile failed:\n" + out)


def make(targets, timeout=900):
    """Full .vo build of the given targets (list of paths relative to coq/)."""
    with Lock():
        ensure_project()
        t = " ".join(targets)
        return sh("make -j%d %s" % (NPROC, t), cwd=COQ, timeout=timeout)


def grep_gate():
    """Refuse forbidden vernacular anywhere in the development.
    Variable / Hypothesis are allowed only inside a Section."""
    bad = []
    for rel in v_files():
        depth = 0
        text = open(os.path.join(COQ, rel)).read()
        text = strip_comments(text)
        for i, line in enumerate(text.split("\n"), 1):
            if re.match(r"\s*Section\s+\w+", line):
                depth += 1
            elif re.match(r"\s*End\s+\w+\s*\.", line) and depth > 0:
                depth -= 1  # also closes Modules; harmless (depth only matters when 0)
            if FORBIDDEN.search(line):
                bad.append("%s:%d: %s" % (rel, i, line.strip()))
            if depth == 0 and re.match(r"\s*(Variable|Variables|Hypothesis|Hypotheses|Context)\b", line):
                bad.append("%s:%d: %s (outside a Section)" % (rel, i, line.strip()))
    return bad


def strip_comments(text):
    out = []
    depth = 0
    i = 0
    n = len(text)
    instr = False
    while i < n:
        c = text[i]
        if depth == 0 and c == '"':
            instr = not instr
            out.append(c)
            i += 1
            continue
        if not instr and text.startswith("(*", i):
            depth += 1
            i += 2
            continue
        if not instr and depth > 0 and text.startswith("*)", i):
            depth -= 1
            i += 2
            continue
        if depth == 0:
            out.append(c)
        elif c == "\n":
            out.append(c)
        i += 1
    return "".join(out)


def cone(prop_file):
    """Dependency cone (project files only) of a .v file, via coqdep -sort."""
    rc, out = sh("coqdep -Q . SV -sort %s 2>/dev/null" % prop_file, cwd=COQ, timeout=60)
    files = [w for w in out.split() if w.endswith(".v")]
    # coqdep -sort lists only the given file unless deps are passed; resolve transitively ourselves
    seen, todo = [], [prop_file]
    while todo:
        f = todo.pop()
        f = os.path.normpath(f)
        if f in seen or not os.path.exists(os.path.join(COQ, f)):
            continue
        seen.append(f)
        txt = strip_comments(open(os.path.join(COQ, f)).read())
        for m in re.finditer(r"From\s+SV\s+Require\s+(?:Import\s+|Export\s+)?((?:[\w.]+\s+)*[\w.]+)\s*\.(?=\s)", txt):
            for mod in m.group(1).split():
                todo.append(mod.rstrip(".").replace(".", "/") + ".v")
    return sorted(seen)


STMT = re.compile(r"^\s*(?:Local\s+|Global\s+)?(Lemma|Theorem|Example|Corollary|Fact|Remark|Proposition)\s+([\w']+)", re.M)


def count_obligations(files):
    names = []
    for f in files:
        txt = strip_comments(open(os.path.join(COQ, f)).read())
        names += ["%s:%s" % (f, m.group(2)) for m in STMT.finditer(txt)]
    return names


def parse_assumptions(make_output):
    """Return list of (status, text) for each Print Assumptions block in coqc output."""
    blocks = []
    lines = make_output.split("\n")
    i = 0
    while i < len(lines):
        l = lines[i]
        if l.startswith("Closed under the global context"):
            blocks.append(("closed", l.strip()))
        elif l.startswith("Axioms:") or l.startswith("Section Variables:"):
            j = i + 1
            buf = [l]
            while j < len(lines) and (lines[j].startswith(" ") or lines[j].strip() == "" or re.match(r"^[\w.']+\s*:", lines[j])):
                if lines[j].startswith("COQC") or lines[j].startswith("make"):
                    break
                buf.append(lines[j])
                j += 1
            blocks.append(("axioms", "\n".join(buf).strip()))
            i = j - 1
        i += 1
    return blocks


# Kernel primitives (binary64 floats and 63-bit integers): Print Assumptions lists them because they have no Gallina body;
# they are not declarations of this development.  They are part of the trusted base of the theorems that mention them
# (C03 linear ranges) and are named there.
PRIMITIVE_PREFIXES = ("PrimFloat.", "PrimInt63.")


def axioms_ok(block_text):
    names = re.findall(r"^([\w.']+)\s*:", block_text, re.M)
    names = [n for n in names if n not in ("Axioms", "Variables")]
    bad = [n for n in names if not n.startswith(PRIMITIVE_PREFIXES)
           and n.split(".")[-1] not in {a.split(".")[-1] for a in ALLOWED_AXIOMS}]
    return bad


def primitives_in(block_text):
    return sorted({n for n in re.findall(r"^([\w.']+)\s*:", block_text, re.M) if n.startswith(PRIMITIVE_PREFIXES)})


# --------------------------------------------------------------------------
# Gallina literal emission

def cq_str(s):
    if not isinstance(s, str):
        raise TypeError(s)
    for ch in s:
        if ord(ch) > 126 or (ord(ch) < 32):
            raise ValueError("non-printable/non-ascii char in %r" % s)
    return '"' + s.replace('"', '""') + '"'


def cq_list(xs, f=str):
    return "[" + "; ".join(f(x) for x in xs) + "]"


def cq_Z(n):
    n = int(n)
    return "(%d)%%Z" % n


def cq_N(n):
    return "%d%%N" % int(n)


def cq_nat(n):
    return "%d%%nat" % int(n)


def cq_bool(b):
    return "true" if b else "false"


def cq_opt(x, f=str):
    return "None" if x is None else "(Some %s)" % f(x)


def cq_pair(a, b):
    return "(%s, %s)" % (a, b)


# --------------------------------------------------------------------------
# Correspondence execution

NATLIST = re.compile(r"=\s*\[([^\]]*)\]\s*:\s*list nat", re.S)


def run_case_files(prop, texts, timeout=600, keep=False):
    """Write each text as build/<prop>/cases_<k>.v, compile in parallel with coqc.
    Returns list of (rc, output) in order."""
    d = os.path.join(BUILD, prop)
    if os.path.isdir(d):
        shutil.rmtree(d, ignore_errors=True)
    os.makedirs(d, exist_ok=True)
    paths = []
    for k, t in enumerate(texts):
        p = os.path.join(d, "cases_%d.v" % k)
        with open(p, "w") as f:
            f.write(t)
        paths.append(p)

    def one(p):
        return sh("ulimit -s unlimited 2>/dev/null; coqc -Q %s SV -w none %s" % (COQ, p), cwd=d, timeout=timeout)

    with ThreadPoolExecutor(max_workers=NPROC) as ex:
        res = list(ex.map(one, paths))
    return res


def parse_natlists(output):
    """All `= [..] : list nat` results printed by a coqc run, as lists of ints."""
    outs = []
    for m in NATLIST.finditer(output):
        body = m.group(1).strip()
        toks = [x.strip() for x in re.split(r"[;\s]+", body) if x.strip()] if body else []
        toks = [x[:-4] if x.endswith("%nat") else x for x in toks]
        if not all(x.isdigit() for x in toks):
            continue    # not a list of numerals: the caller sees a missing list and reports the shard
        outs.append([int(x) for x in toks])
    return outs


def mismatches(prop, texts, expect_lists=1, timeout=600):
    """Run case shards; each shard must print `expect_lists` nat lists of mismatching indices.
    Returns (per_shard_lists, errors)."""
    res = run_case_files(prop, texts, timeout=timeout)
    per, errs = [], []
    for k, (rc, out) in enumerate(res):
        ls = parse_natlists(out)
        if rc != 0 or len(ls) != expect_lists:
            errs.append((k, rc, out[-3000:]))
            per.append(None)
        else:
            per.append(ls)
    return per, errs


# --------------------------------------------------------------------------
# Known findings

def load_known():
    p = os.path.join(ROOT, "known_findings.json")
    if not os.path.exists(p):
        return []
    return json.load(open(p)).get("findings", [])


# --------------------------------------------------------------------------
# The check object

class Check:
    def __init__(self, prop, tier, seed):
        self.prop, self.tier, self.seed = prop, tier, seed
        self.t0 = time.time()
        self.cov = {"evaluations": 0, "distinct_nontrivial": 0, "samples": [], "traces_validated_against_impl": 0,
                    "obligations": 0, "discharged": 0, "checker_cmd": "", "trusted_base": [], "rule": ""}
        self.assumptions = []
        self.problems = []      # broken obligations / correspondences: dicts
        self.failing = []       # concrete failing inputs: dicts with 'signature'
        self.known_seen = []
        self.notes = {}
        self.open_known = [k for k in load_known() if k.get("property") == prop and k.get("status") == "open"]

    # ---- logging
    def log(self, *a):
        print("[%s %s +%.1fs]" % (self.prop, self.tier, time.time() - self.t0), *a, flush=True)

    # ---- models needed by the correspondence (built even when proofs are broken)
    def build_models(self, targets, timeout=900):
        rc, out = make([t + "o" if t.endswith(".v") else t for t in targets], timeout=timeout)
        if rc != 0:
            self.problems.append({"kind": "model-build", "what": " ".join(targets), "detail": out[-2500:]})
        return rc == 0

    # ---- proof side
    def prove(self, prop_file=None, gen_results=None, timeout=900):
        """Grep gate + full build of the property's cone + Print Assumptions audit."""
        prop_file = prop_file or "Properties/%s.v" % self.prop
        ok = True
        for name, r in (gen_results or {}).items():
            if not r.get("ok"):
                ok = False
                self.problems.append({"kind": "translation", "what": name, "detail": r.get("error", "")})
        bad = grep_gate()
        if bad:
            ok = False
            self.problems.append({"kind": "grep-gate", "what": "forbidden vernacular", "detail": "\n".join(bad)})
        vo = os.path.join(COQ, prop_file + "o")
        with Lock("props"):
            if os.path.exists(vo):
                os.remove(vo)
            rc, out = make([prop_file + "o"], timeout=timeout)
        files = cone(prop_file)
        obl = count_obligations(files)
        self.cov["obligations"] = len(obl)
        self.cov["checker_cmd"] = "cd coq && coq_makefile -f _CoqProject -o Makefile && make -j%d %so  (coqc 8.16.1, full .vo)" % (NPROC, prop_file)
        self.notes["cone_files"] = files
        if rc != 0:
            ok = False
            m = re.search(r'File "\./([^"]+)", line (\d+)', out)
            where = "%s:%s" % (m.group(1), m.group(2)) if m else "?"
            broken = self._enclosing_statement(m.group(1), int(m.group(2))) if m else None
            self.problems.append({"kind": "proof", "what": broken or where, "where": where, "detail": out[-2500:]})
            self.cov["discharged"] = 0
        else:
            self.cov["discharged"] = len(obl)
            blocks = parse_assumptions(out)
            self.assumptions = [b[1] for b in blocks]
            if not blocks:
                ok = False
                self.problems.append({"kind": "proof", "what": "no Print Assumptions output for " + prop_file, "detail": out[-1500:]})
            for st, txt in blocks:
                if st == "axioms":
                    badax = axioms_ok(txt)
                    prims = primitives_in(txt)
                    if prims:
                        self.notes["kernel_primitives_in_assumptions"] = sorted(set(self.notes.get("kernel_primitives_in_assumptions", [])) | set(prims))
                    if badax:
                        ok = False
                        self.problems.append({"kind": "assumptions", "what": ",".join(badax), "detail": txt})
        self.log("proof side:", "ok" if ok else "BROKEN", "(%d statements in cone of %d files)" % (len(obl), len(files)))
        return ok

    def _enclosing_statement(self, rel, line):
        try:
            lines = open(os.path.join(COQ, rel)).read().split("\n")
        except OSError:
            return None
        for i in range(min(line, len(lines)) - 1, -1, -1):
            m = STMT.match(lines[i])
            if m:
                return "%s:%s" % (rel, m.group(2))
        return None

    def coqchk(self, prop_file=None, timeout=1500):
        prop_file = prop_file or "Properties/%s.v" % self.prop
        mod = "SV." + prop_file[:-2].replace("/", ".")
        rc, out = sh("coqchk -silent -o -Q . SV %s" % mod, cwd=COQ, timeout=timeout)
        self.notes["coqchk"] = out[-1500:]
        if rc != 0:
            self.problems.append({"kind": "coqchk", "what": mod, "detail": out[-2000:]})
        return rc == 0

    # ---- correspondence side
    def corr_problem(self, what, detail, case=None):
        self.problems.append({"kind": "correspondence", "what": what, "detail": detail, "case": case})

    def fail_input(self, signature, what, replay):
        """A concrete failing input (direct oracle on the implementation)."""
        self.failing.append({"signature": signature, "what": what, "replay": replay})

    # ---- finish
    def finish(self, level="proof", assumptions=None, extra_cov=None):
        os.makedirs(REPLAY, exist_ok=True)
        if extra_cov:
            self.cov.update(extra_cov)
        known_printed = set()
        unknown_fail = []
        for f in self.failing:
            hit = None
            for k in self.open_known:
                if k.get("signature") == f["signature"]:
                    hit = k
                    break
            if hit:
                if hit["id"] not in known_printed:
                    known_printed.add(hit["id"])
                    print("KNOWN-FINDING: property=%s %s [%s]" % (self.prop, hit.get("what", f["what"]), hit["id"]), flush=True)
                    self.known_seen.append(hit["id"])
            else:
                unknown_fail.append(f)
        # a problem (broken obligation / correspondence) that is explained by a known finding
        # is declared by the property module through problem['known_signature']
        open_problems = []
        for p in self.problems:
            ks = p.get("known_signature")
            hit = next((k for k in self.open_known if ks and k.get("signature") == ks), None)
            if hit:
                if hit["id"] not in known_printed:
                    known_printed.add(hit["id"])
                    print("KNOWN-FINDING: property=%s %s [%s]" % (self.prop, hit.get("what", ""), hit["id"]), flush=True)
                    self.known_seen.append(hit["id"])
            else:
                open_problems.append(p)
        violations = 0
        lines = []
        if unknown_fail:
            # one replay per distinct signature
            seen = set()
            for f in unknown_fail:
                if f["signature"] in seen:
                    continue
                seen.add(f["signature"])
                path = os.path.join(REPLAY, "%s_%s.json" % (self.prop, hashlib.sha1(f["signature"].encode()).hexdigest()[:10]))
                json.dump({"property": self.prop, "signature": f["signature"], "what": f["what"], "replay": f["replay"],
                           "seed": self.seed, "tier": self.tier, "broken": open_problems[:5]}, open(path, "w"), indent=1, default=str)
                if violations < 3:
                    lines.append("VIOLATION property=%s replay=%s" % (self.prop, path))
                violations += 1
        elif open_problems:
            path = os.path.join(REPLAY, "%s_unproved.json" % self.prop)
            json.dump({"property": self.prop, "no_failing_input_found": True,
                       "broken": open_problems, "seed": self.seed, "tier": self.tier}, open(path, "w"), indent=1, default=str)
            for p in open_problems[:8]:
                print("BROKEN: %s %s" % (p["kind"], p["what"]), flush=True)
                det = (p.get("detail") or "").strip()
                if det:
                    print("   " + det[-1200:].replace("\n", "\n   "), flush=True)
            lines.append("VIOLATION property=%s replay=%s no-failing-input-found" % (self.prop, path))
            violations += 1
        wall = time.time() - self.t0
        tb = list(self.cov.get("trusted_base") or [])
        tb.append("Print Assumptions: " + (" | ".join(self.assumptions) if self.assumptions else "(proof side did not complete)"))
        self.cov["trusted_base"] = tb
        self.cov["known_findings_seen"] = self.known_seen
        self.cov["notes"] = self.notes
        self.cov["samples"] = self.cov["samples"][:12] or ["(no samples recorded)"]
        if not self.cov.get("discharged"):
            # proof side did not complete: say so instead of claiming discharged obligations
            self.cov["obligations_not_discharged"] = self.cov.pop("obligations", 0)
            self.cov.pop("discharged", None)
        ev = {"property_id": self.prop, "tier": self.tier, "seed": self.seed, "level": level,
              "coverage": self.cov, "assumptions": assumptions or [], "wall_s": round(wall, 2), "violations": violations}
        os.makedirs(EVID, exist_ok=True)
        with open(os.path.join(EVID, "%s.json" % self.prop), "w") as f:
            json.dump(ev, f, indent=1, default=str)
        for l in lines:
            print(l, flush=True)
        self.log("done: violations=%d known=%s wall=%.1fs" % (violations, self.known_seen, wall))
        return 1 if violations else 0


def sha_file(path):
    try:
        return hashlib.sha256(open(path, "rb").read()).hexdigest()
    except OSError:
        return None


def write_if_changed(path, text):
    old = open(path).read() if os.path.exists(path) else None
    if old != text:
        os.makedirs(os.path.dirname(path), exist_ok=True)
        with open(path, "w") as f:
            f.write(text)
        return True
    return False


def run_impl(script, args=(), input_obj=None, timeout=600, env=None):
    """Run a harness driver under /venv python with /repo on the path; JSON in, JSON out."""
    cmd = [PY, os.path.join(ROOT, "harness", script)] + [str(a) for a in args]
    e = dict(os.environ)
    e.update(impl_env(env))
    try:
        p = subprocess.run(cmd, input=json.dumps(input_obj) if input_obj is not None else None, env=e,
                           stdout=subprocess.PIPE, stderr=subprocess.PIPE, text=True, timeout=timeout, cwd=ROOT)
    except subprocess.TimeoutExpired:
        return None, "timeout"
    if p.returncode != 0:
        return None, "rc=%d\n%s" % (p.returncode, p.stderr[-3000:])
    try:
        return json.loads(p.stdout), p.stderr
    except json.JSONDecodeError as ex:
        return None, "bad json: %s\n%s\n%s" % (ex, p.stdout[-1000:], p.stderr[-2000:])
