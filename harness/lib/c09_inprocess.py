"""Several run-space launches through the CLI entry point IN ONE PROCESS (a long-lived caller re-submitting
a launch): prints, per launch, the sequence of lifecycle record types and the launch ids.  Run as a
subprocess by harness/props/c09.py with PYTHONPATH=<repo>."""
import contextlib
import io
import json
import os
import sys
import tempfile

CONFIG = """\
extensions: ["semantiva-examples"]
trace:
  driver: jsonl
run_space:
  combine: combinatorial
  blocks:
    - mode: by_position
      context:
        value: [3.0, 5.0]
pipeline:
  nodes:
    - processor: FloatValueDataSource
    - processor: FloatMultiplyOperation
      parameters:
        factor: 2.0
"""
OTHER = CONFIG.replace("[3.0, 5.0]", "[1.0, 2.0, 4.0]")


def launch(cfg, out, extra):
    from semantiva.cli import main
    buf = io.StringIO()
    try:
        with contextlib.redirect_stdout(buf), contextlib.redirect_stderr(buf):
            main(["run", cfg, "--trace.output", out, "-q"] + extra)
    except SystemExit as exc:
        return int(exc.code or 0)
    return 0


def main():
    res = []
    with tempfile.TemporaryDirectory(prefix="verif_c09_inproc_") as tmp:
        cfg, other = os.path.join(tmp, "p.yaml"), os.path.join(tmp, "q.yaml")
        open(cfg, "w").write(CONFIG)
        open(other, "w").write(OTHER)
        plan = [("key", cfg, ["--run-space-idempotency-key", "nightly-42"]),
                ("other-config-same-key", other, ["--run-space-idempotency-key", "nightly-42"]),
                ("key", cfg, ["--run-space-idempotency-key", "nightly-42"]),
                ("explicit-id", cfg, ["--run-space-launch-id", "launch-verif"]),
                ("explicit-id", cfg, ["--run-space-launch-id", "launch-verif"]),
                ("generated", cfg, []), ("generated", cfg, []),
                ("key", cfg, ["--run-space-idempotency-key", "nightly-42"])]
        for i, (label, c, extra) in enumerate(plan):
            out = os.path.join(tmp, "t%d.jsonl" % i)
            code = launch(c, out, extra)
            recs = [json.loads(l) for l in open(out)] if os.path.exists(out) else []
            res.append({"launch": i, "label": label, "exit": code,
                        "lifecycle": [r["record_type"] for r in recs if r["record_type"] != "ser"],
                        "launch_ids": sorted({r["run_space_launch_id"] for r in recs if r.get("run_space_launch_id")}),
                        "planned": len([v for v in ([3, 5] if c == cfg else [1, 2, 4])])})
    json.dump(res, sys.stdout)


if __name__ == "__main__":
    main()
