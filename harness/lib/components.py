"""Harness-side semantiva components used by the correspondence runs
(declared context write, undeclared context write, failing operation, interrupting operation).
They are ordinary user components built on the public base classes; /repo is not modified."""
from semantiva.examples.test_utils import FloatDataType, FloatOperation

_cache = {}


def make_ctxwrite(key):
    """Operation that declares `key`, stores its input value there and returns input + 1."""
    name = "VerifCtxWrite_" + key
    if name not in _cache:
        def _process_logic(self, data):
            self._notify_context_update(key, data.data)
            return FloatDataType(data.data + 1.0)

        def context_keys(cls):
            return [key]
        _cache[name] = type(name, (FloatOperation,), {"_process_logic": _process_logic,
                                                       "context_keys": classmethod(context_keys),
                                                       "__doc__": "Writes its input to a declared context key."})
    return _cache[name]


def make_badwrite(key):
    """Operation that writes `key` without declaring it."""
    name = "VerifBadWrite_" + key
    if name not in _cache:
        def _process_logic(self, data):
            self._notify_context_update(key, data.data)
            return FloatDataType(data.data)
        _cache[name] = type(name, (FloatOperation,), {"_process_logic": _process_logic,
                                                       "__doc__": "Writes an undeclared context key."})
    return _cache[name]


class VerifFailingOperation(FloatOperation):
    """Always raises ValueError."""

    def _process_logic(self, data):
        raise ValueError("verif: deliberate processor failure")


class VerifInterruptOperation(FloatOperation):
    """Raises KeyboardInterrupt (a BaseException-class abort)."""

    def _process_logic(self, data):
        raise KeyboardInterrupt("verif: deliberate interrupt")


class VerifFailingNoMessageOperation(FloatOperation):
    """Raises ValueError() -- an exception whose str() is empty."""

    def _process_logic(self, data):
        raise ValueError()


class VerifInterruptNoMessageOperation(FloatOperation):
    """Raises KeyboardInterrupt() -- what a real Ctrl-C raises: no message."""

    def _process_logic(self, data):
        raise KeyboardInterrupt()


class VerifAbort(BaseException):
    """A BaseException subclass that is neither Exception nor KeyboardInterrupt/SystemExit."""


class VerifSystemExitOperation(FloatOperation):
    """Raises SystemExit (e.g. sys.exit() inside a processor)."""

    def _process_logic(self, data):
        raise SystemExit("verif: deliberate SystemExit")


class VerifCustomAbortOperation(FloatOperation):
    """Raises a custom BaseException subclass."""

    def _process_logic(self, data):
        raise VerifAbort("verif: deliberate custom abort")


# ---- a data type holding a one-shot iterator (legal user data; reading it for tracing must not consume it) ----
from semantiva.data_types import BaseDataType  # noqa: E402
from semantiva.data_io import DataSource  # noqa: E402
from semantiva.data_processors.data_processors import DataOperation  # noqa: E402


class _OneShot:
    """A one-shot iterator with a stable repr (so that content digests of it are reproducible)."""

    def __init__(self, items):
        self._it = iter(list(items))

    def __iter__(self):
        return self

    def __next__(self):
        return next(self._it)

    def __repr__(self):
        return "<one-shot stream>"


class VerifStreamData(BaseDataType):
    """Wraps a one-shot iterator of floats."""

    def validate(self, data):
        return True


class VerifStreamSource(DataSource):
    """Produces a VerifStreamData over a fresh generator of three floats."""

    @classmethod
    def _get_data(cls):
        return VerifStreamData(_OneShot((1.0, 2.0, 3.0)))

    @classmethod
    def output_data_type(cls):
        return VerifStreamData


class VerifStreamSum(DataOperation):
    """Sums the stream (consumes the iterator)."""

    @classmethod
    def input_data_type(cls):
        return VerifStreamData

    @classmethod
    def output_data_type(cls):
        return FloatDataType

    def _process_logic(self, data):
        return FloatDataType(float(sum(data.data)))


class VerifSumItems(FloatOperation):
    """Adds the sum of the context-provided iterable `items` to the data (consumes a one-shot iterator)."""

    def _process_logic(self, data, items):
        return FloatDataType(data.data + float(sum(items)))


# ---- a probe whose result shows the Python TYPE of its parameter (computed sweep parameters must arrive as computed) ----
from semantiva.examples.test_utils import FloatProbe  # noqa: E402


class VerifTypeTagProbe(FloatProbe):
    """Reports the type and repr of parameter `p` (and of the optional `q`)."""

    def _process_logic(self, data, p, q=None):
        return "%s:%r|%s:%r" % (type(p).__name__, p, type(q).__name__, q)


# ---- overlapping runs on one Pipeline object: an operation that waits for its peers inside a data node ----
import threading  # noqa: E402


class VerifRendezvousOperation(FloatOperation):
    """Passes its input through unchanged; when the harness has armed a barrier, waits there first so that
    several process() calls of one Pipeline object overlap inside this node."""

    barrier = None

    def _process_logic(self, data):
        b = type(self).barrier
        if b is not None:
            try:
                b.wait(timeout=5)
            except threading.BrokenBarrierError:
                pass
        return FloatDataType(data.data)


class VerifAccumulateOperation(FloatOperation):
    """A stateful user operation: adds the sum of all inputs this INSTANCE has seen before to its input."""

    def __init__(self, *a, **k):
        super().__init__(*a, **k)
        self._seen = 0.0

    def _process_logic(self, data):
        out = data.data + self._seen
        self._seen += data.data
        return FloatDataType(out)


class VerifExitingOperation(FloatOperation):
    """Passes its input through; when `trip` is true it behaves like a wrapped command-line helper that calls sys.exit()."""

    def _process_logic(self, data, trip):
        if trip:
            raise SystemExit("verif: a helper called sys.exit()")
        return FloatDataType(data.data)


class VerifClockStepBackOperation(FloatOperation):
    """Passes its input through; while it runs the host's wall clock is set back by five seconds (what an NTP step does).
    The caller restores `time.time` (kept in `real_time`)."""

    real_time = None

    def _process_logic(self, data):
        import time as _t
        if VerifClockStepBackOperation.real_time is None:
            VerifClockStepBackOperation.real_time = _t.time
        real = VerifClockStepBackOperation.real_time
        _t.time = lambda: real() - 5.0
        return FloatDataType(data.data)


class VerifScaleAndNoteOperation(FloatOperation):
    """data * factor; also stores the factor it used under the declared context key `last_factor`."""

    @classmethod
    def context_keys(cls):
        return ["last_factor"]

    def _process_logic(self, data, factor):
        self._notify_context_update("last_factor", factor)
        return FloatDataType(data.data * factor)


class VerifKwOnlyScaleOperation(FloatOperation):
    """data * factor + offset, parameters declared keyword-only (after `*`, the style of the component guide)."""

    def _process_logic(self, data, *, factor, offset=0.0):
        return FloatDataType(data.data * factor + offset)


class VerifKwOnlyProbe(FloatProbe):
    """[data * factor, offset] with keyword-only parameters."""

    def _process_logic(self, data, *, factor=1.0, offset=0.0):
        return [data.data * factor, offset]


class VerifStatefulScaleOperation(FloatOperation):
    """data * factor + 1000 * (number of calls this INSTANCE has served before)."""

    def __init__(self, *a, **k):
        super().__init__(*a, **k)
        self._calls = 0

    def _process_logic(self, data, factor):
        out = data.data * factor + 1000.0 * self._calls
        self._calls += 1
        return FloatDataType(out)


class VerifStatefulScaleProbe(FloatProbe):
    """[data * factor, number of calls this INSTANCE has served before]."""

    def __init__(self, *a, **k):
        super().__init__(*a, **k)
        self._calls = 0

    def _process_logic(self, data, factor):
        out = [data.data * factor, self._calls]
        self._calls += 1
        return out


# ---- elements that fail on ONE particular step of a sweep, with a chosen exception class ----

RAISE_CLASSES = {"ValueError": ValueError, "StopIteration": StopIteration, "KeyError": KeyError, "RuntimeError": RuntimeError,
                 "IndexError": IndexError, "StopAsyncIteration": StopAsyncIteration, "ZeroDivisionError": ZeroDivisionError,
                 "AttributeError": AttributeError, "TypeError": TypeError, "LookupError": LookupError}


def _maybe_raise(t, bad, exc):
    if t == bad:
        raise RAISE_CLASSES[exc]("verif: deliberate failure at step value %r" % (t,))


class VerifRaiseAtOperation(FloatOperation):
    """data * t, except that it raises `exc` when t == bad."""

    def _process_logic(self, data, t, bad, exc):
        _maybe_raise(t, bad, exc)
        return FloatDataType(data.data * t)


class VerifRaiseAtProbe(FloatProbe):
    """reports data * t, except that it raises `exc` when t == bad."""

    def _process_logic(self, data, t, bad, exc):
        _maybe_raise(t, bad, exc)
        return data.data * t


class VerifRaiseAtSource(DataSource):
    """produces t, except that it raises `exc` when t == bad."""

    @classmethod
    def _get_data(cls, t, bad, exc):
        _maybe_raise(t, bad, exc)
        return FloatDataType(float(t))

    @classmethod
    def output_data_type(cls):
        return FloatDataType


# ---- an element with several required and several optional parameters (identity of sweeps that leave them unbound) ----
class VerifManyParamOperation(FloatOperation):
    """data * alpha + beta + gamma + delta (+ optional eps, zeta, eta)."""

    def _process_logic(self, data, alpha, beta, gamma, delta, eps=0.0, zeta=0.0, eta=0.0):
        return FloatDataType(data.data * alpha + beta + gamma + delta + eps + zeta + eta)


# ---- unusual but legal strings reaching trace records: as an exception message, as a parameter value ----
def make_failing_with(msg):
    """Operation that raises ValueError(msg)."""
    name = "VerifFailingWith_%d" % (abs(hash(msg)) % 10 ** 8)
    if name not in _cache:
        def _process_logic(self, data):
            raise ValueError(msg)
        _cache[name] = type(name, (FloatOperation,), {"_process_logic": _process_logic, "__doc__": "Raises ValueError with a chosen message."})
    return _cache[name]


class VerifNoteOperation(FloatOperation):
    """Passes its input through; takes a free-text parameter `note`."""

    def _process_logic(self, data, note):
        return FloatDataType(data.data)


# ---- context processors with unusual but accepted context contents (direct oracles of C10) ----
from semantiva.context_processors.context_processors import ContextProcessor  # noqa: E402


class VerifMixedKeysContextProcessor(ContextProcessor):
    """Publishes one entry under an integer key and one under a string key."""

    @classmethod
    def context_keys(cls):
        return [1, "a"]

    def _process_logic(self):
        self._notify_context_update(1, "one")
        self._notify_context_update("a", "A")


class VerifMixedKeysThenFailContextProcessor(ContextProcessor):
    """Publishes one entry under an integer key and one under a string key, then fails."""

    @classmethod
    def context_keys(cls):
        return [1, "a"]

    def _process_logic(self):
        self._notify_context_update(1, "one")
        self._notify_context_update("a", "A")
        raise ValueError("verif: boom after two writes")


class VerifUnprintableError(Exception):
    """An exception whose text cannot be produced."""

    def __str__(self):
        raise RuntimeError("verif: this exception has no text")


class VerifUnprintableRaisingOperation(FloatOperation):
    """Fails with an exception whose __str__ raises."""

    def _process_logic(self, data):
        raise VerifUnprintableError()


class VerifOddDict(dict):
    """A JSON-serialisable mapping whose constructor takes no arguments."""

    def __init__(self):
        super().__init__(a=1)


class VerifRunMarker:
    """An object a caller puts into a run's context; live instances are counted after the runs."""


class VerifFailingContextProcessor(ContextProcessor):
    """A context processor whose logic raises after it was handed the run's context."""

    @classmethod
    def context_keys(cls):
        return ["never_written"]

    def _process_logic(self, marker=None):
        raise ValueError("verif: this context processor always fails")


class VerifSortInPlaceContextProcessor(ContextProcessor):
    """User code that sorts the list it finds under `t_values` IN PLACE (descending) and writes nothing."""

    @classmethod
    def context_keys(cls):
        return []

    def _process_logic(self, t_values):
        t_values.sort(reverse=True)


def _nested(depth, leaf):
    v = [leaf]
    for _ in range(depth):
        v = [v]
    return v


class VerifDeepTreeContextProcessor(ContextProcessor):
    """Replaces the context entry `tree` by a very deeply nested list."""

    @classmethod
    def context_keys(cls):
        return ["tree"]

    def _process_logic(self):
        self._notify_context_update("tree", _nested(5000, 2))


class VerifUnhashableReprContextProcessor(ContextProcessor):
    """Publishes a value whose repr() raises (a legal Python object)."""

    @classmethod
    def context_keys(cls):
        return ["odd"]

    def _process_logic(self):
        class Odd:
            def __repr__(self):
                raise RuntimeError("verif: repr not available")
        self._notify_context_update("odd", Odd())


class VerifFailOnOperation(FloatOperation):
    """Passes its input through, except that it raises when the input equals `bad`."""

    def _process_logic(self, data, bad):
        if data.data == bad:
            raise ValueError("verif: deliberate failure on %r" % (bad,))
        return FloatDataType(data.data)


# ---- exceptions with arguments that are not JSON values; a transport that fails on its k-th publish ----
def make_raising(exc_name, arg_kind):
    """Operation raising exc_name(arg) where arg is a legal but non-JSON value (bytes, frozenset, Path, tuple of bytes)."""
    import pathlib
    name = "VerifRaising_%s_%s" % (exc_name, arg_kind)
    if name not in _cache:
        arg = {"bytes": b"ch-Z", "frozenset": frozenset({1, 2}), "path": pathlib.PurePosixPath("/data/x"), "tuple": (b"a", 1),
               "object": object}[arg_kind]
        cls = {"KeyError": KeyError, "ValueError": ValueError, "LookupError": LookupError, "RuntimeError": RuntimeError}[exc_name]

        def _process_logic(self, data):
            raise cls(arg)
        _cache[name] = type(name, (FloatOperation,), {"_process_logic": _process_logic, "__doc__": "Raises an exception whose argument is not a JSON value."})
    return _cache[name]


VALUE_KINDS = ["scalar0d", "array1", "np-int", "np-shape", "len-raises", "lock", "generator", "tuple-keyed-dict", "huge-int", "set", "bytes", "nan", "file-handle", "mixed-key-dict"]


def unusual_value(kind):
    """A legal Python value of a kind that users do put into a context (fresh object per call)."""
    import threading as _th
    import numpy as _np
    if kind == "scalar0d":
        return _np.asarray(3.5)                # Sized by ABC registration, len() raises TypeError
    if kind == "array1":
        return _np.array([3.0])                # a one-point grid: an array, not a number
    if kind == "np-int":
        return _np.int64(3)                    # not JSON-serialisable as it stands
    if kind == "np-shape":
        class Grid:                            # array-like wrapper whose shape entries are numpy integers
            shape = (_np.int64(4), _np.int64(2))

            def __repr__(self):
                return "Grid(4x2)"
        return Grid()
    if kind == "len-raises":
        class OddSized:
            def __len__(self):
                raise TypeError("verif: length is not defined for this object")

            def __repr__(self):
                return "OddSized()"
        return OddSized()
    if kind == "lock":
        return _th.Lock()                      # cannot be deep-copied or pickled
    if kind == "generator":
        return (i for i in range(3))           # cannot be copied; must not be consumed by an observer
    if kind == "tuple-keyed-dict":
        return {(0, 1): 2.5, (1, 0): 3.0}      # not a JSON object (keys)
    if kind == "mixed-key-dict":
        return {1: "one", "b": 2.0}            # JSON-serialisable, but its keys cannot be sorted against each other
    if kind == "huge-int":
        return 10 ** 5000                      # str() / json.dumps raise ValueError (int max str digits)
    if kind == "set":
        return {1, 2, 3}
    if kind == "bytes":
        return b"raw\x00bytes"
    if kind == "nan":
        return float("nan")
    if kind == "file-handle":
        import os as _os
        return open(_os.devnull, "rb")
    raise ValueError(kind)


def make_value_writer(kind, key="w"):
    """Operation that passes its input through and stores an unusual value under the declared context key `key`."""
    name = "VerifValueWriter_%s_%s" % (kind.replace("-", "_"), key)
    if name not in _cache:
        def _process_logic(self, data):
            self._notify_context_update(key, unusual_value(kind))
            return FloatDataType(data.data)

        def context_keys(cls):
            return [key]
        _cache[name] = type(name, (FloatOperation,), {"_process_logic": _process_logic, "context_keys": classmethod(context_keys),
                                                       "__doc__": "Stores an unusual but legal value in the context."})
    return _cache[name]


class VerifScaleInPlaceOperation(FloatOperation):
    """Doubles the value INSIDE the data object it was given and returns that same object."""

    def _process_logic(self, data):
        data.data = data.data * 2.0
        return data


LONG_PREFIX = "p" * 230


def make_long_rewriter(key="label"):
    """Operation that rewrites context key `key` (a long string it receives) changing only its LAST character."""
    name = "VerifLongRewriter_" + key
    if name not in _cache:
        def _impl(self, data, value):
            new = value[:-1] + ("B" if value[-1:] != "B" else "C")
            self._notify_context_update(key, new)
            return FloatDataType(data.data)

        def context_keys(cls):
            return [key]
        ns = {"_impl": _impl}
        exec("def _process_logic(self, data, %s):\n    return _impl(self, data, %s)\n" % (key, key), ns)
        _cache[name] = type(name, (FloatOperation,), {"_process_logic": ns["_process_logic"], "context_keys": classmethod(context_keys),
                                                       "__doc__": "Rewrites a long string in the context, changing its last character."})
    return _cache[name]


class VerifMissingField(KeyError):
    """A user-defined lookup error raised without arguments."""


def make_raising_noargs(exc_name):
    """Operation raising exc_name() -- an exception constructed WITHOUT arguments."""
    name = "VerifRaisingNoArgs_" + exc_name
    if name not in _cache:
        cls = {"KeyError": KeyError, "VerifMissingField": VerifMissingField, "ValueError": ValueError, "IndexError": IndexError,
               "StopIteration": StopIteration, "OSError": OSError}[exc_name]

        def _process_logic(self, data):
            raise cls
        _cache[name] = type(name, (FloatOperation,), {"_process_logic": _process_logic, "__doc__": "Raises an exception that carries no argument."})
    return _cache[name]


def failing_transport(fail_at):
    """An in-memory transport whose publish() raises on the fail_at-th call (0-based) -- a full outbox, a lost connection."""
    from semantiva.execution.transport import InMemorySemantivaTransport

    class VerifFailingTransport(InMemorySemantivaTransport):
        def __init__(self):
            super().__init__()
            self._calls = 0

        def publish(self, *a, **k):
            n = self._calls
            self._calls += 1
            if n == fail_at:
                raise ConnectionError("verif: transport outbox full at publish #%d" % n)
            return super().publish(*a, **k)
    return VerifFailingTransport()


# ---- numpy arrays in the context: same bytes, another shape / dtype ----
def make_array_rewriter(key, how):
    """Operation that rewrites context key `key` (a numpy array it receives as a parameter) with the same bytes in another
    shape ('ravel', 'reshape'), another dtype ('view'), an equal copy ('copy') or changed content ('plus')."""
    name = "VerifArrayRewriter_%s_%s" % (key, how)
    if name not in _cache:
        def _process_logic(self, data, **kw):
            import numpy as np
            arr = kw[key]
            new = {"ravel": lambda a: a.ravel(), "reshape": lambda a: a.reshape(a.shape[::-1]), "copy": lambda a: a.copy(),
                   "view": lambda a: a.view(np.int32 if a.dtype == np.float32 else np.int64), "plus": lambda a: a + 1}[how](arr)
            self._notify_context_update(key, new)
            return FloatDataType(data.data)

        def context_keys(cls):
            return [key]
        src = "def _process_logic(self, data, %s):\n    return _impl(self, data, %s=%s)\n" % (key, key, key)
        ns = {"_impl": _process_logic}
        exec(src, ns)
        _cache[name] = type(name, (FloatOperation,), {"_process_logic": ns["_process_logic"], "context_keys": classmethod(context_keys),
                                                       "__doc__": "Rewrites a numpy array held in the context."})
    return _cache[name]


class VerifCollectionReturningOperation(FloatOperation):
    """Declared FloatDataType -> FloatDataType, but returns a FloatDataCollection (a processor that breaks its output contract)."""

    def _process_logic(self, data):
        from semantiva.examples.test_utils import FloatDataCollection
        return FloatDataCollection.from_list([FloatDataType(data.data), FloatDataType(data.data)])


# ---- data objects with an unusual but legal __len__ ----
class VerifOddLenData(BaseDataType):
    """A data type that defines __len__, which raises (as len() of a wrapper over a 0-d array does)."""

    def validate(self, data):
        return True

    def __len__(self):
        raise TypeError("len() of unsized object")


class VerifHugeLenData(BaseDataType):
    """A data type whose __len__ returns more than sys.maxsize (len() raises OverflowError)."""

    def validate(self, data):
        return True

    def __len__(self):
        return 1 << 70


def make_odd_source(kind):
    name = "VerifOddSource_" + kind
    if name not in _cache:
        dt = {"raises": VerifOddLenData, "huge": VerifHugeLenData}[kind]

        def _get_data(cls):
            return dt(3.0)

        def output_data_type(cls):
            return dt
        _cache[name] = type(name, (DataSource,), {"_get_data": classmethod(_get_data), "output_data_type": classmethod(output_data_type),
                                                   "__doc__": "Produces a data object with an unusual __len__."})
    return _cache[name]
