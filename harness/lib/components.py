"""Harness-side semantiva components used by the correspondence runs
(declared context write, undeclared context write, failing operation, interrupting operation).
They are ordinary user components built on the public base classes; /repo is not modified."""
from semantiva.examples.test_utils import FloatDataType, FloatOperation

_cache = {}


def make_ctxwrite(key):
    """Operation that declares `key`, stores its input value there and returns input + 1."""
    name = "VerifCtxWrite_" + key
    if name not in _cache:
        def _process_logic(self, data):
            self._notify_context_update(key, data.data)
            return FloatDataType(data.data + 1.0)

        def context_keys(cls):
            return [key]
        _cache[name] = type(name, (FloatOperation,), {"_process_logic": _process_logic,
                                                       "context_keys": classmethod(context_keys),
                                                       "__doc__": "Writes its input to a declared context key."})
    return _cache[name]


def make_badwrite(key):
    """Operation that writes `key` without declaring it."""
    name = "VerifBadWrite_" + key
    if name not in _cache:
        def _process_logic(self, data):
            self._notify_context_update(key, data.data)
            return FloatDataType(data.data)
        _cache[name] = type(name, (FloatOperation,), {"_process_logic": _process_logic,
                                                       "__doc__": "Writes an undeclared context key."})
    return _cache[name]


class VerifFailingOperation(FloatOperation):
    """Always raises ValueError."""

    def _process_logic(self, data):
        raise ValueError("verif: deliberate processor failure")


class VerifInterruptOperation(FloatOperation):
    """Raises KeyboardInterrupt (a BaseException-class abort)."""

    def _process_logic(self, data):
        raise KeyboardInterrupt("verif: deliberate interrupt")
