"""Shared by C04 and C05: configuration generator, component facts, YAML writer with cosmetic
rewrites, single-point semantic mutators, observation of the implementation's identities (with the
implementation's own preimage JSON re-hashed by the harness) and emission of model literals."""
from __future__ import annotations

import ast
import copy
import hashlib
import json
import logging
import os
import random
import re
import uuid

from harness.core import cq_bool, cq_list, cq_N, cq_opt, cq_str

NS = uuid.UUID(int=0)
COMM = ("Add", "Mult")
BINSYM = {"Add": "+", "Sub": "-", "Mult": "*", "FloorDiv": "//", "Mod": "%", "Pow": "**"}
SYMBIN = {type(ast.parse("a%sb" % s, mode="eval").body.op).__name__: k for k, s in BINSYM.items()}
CMPSYM = {"Eq": "==", "NotEq": "!=", "Lt": "<", "LtE": "<=", "Gt": ">", "GtE": ">="}
FQ = "semantiva.examples.test_utils."


def J(o):
    return json.dumps(o, sort_keys=True, separators=(",", ":"))


def sha(s):
    return hashlib.sha256(s.encode("utf-8")).hexdigest()


_ready = [False]


def setup():
    if _ready[0]:
        return
    logging.disable(logging.CRITICAL)
    import warnings
    warnings.filterwarnings("ignore")
    from semantiva.registry import apply_profile, RegistryProfile, load_extensions
    apply_profile(RegistryProfile())
    load_extensions(["semantiva-examples"])
    from semantiva.logger import Logger
    Logger(level="CRITICAL")
    from semantiva.registry.processor_registry import ProcessorRegistry
    from semantiva.examples.test_utils import FloatDataCollection

    class VerifAltFloatCollection(FloatDataCollection):
        """Second collection type (harness side) so that the `collection` field can be mutated."""

    VerifAltFloatCollection.__module__ = "harness.lib.idgen"
    VerifAltFloatCollection.__qualname__ = "VerifAltFloatCollection"
    globals()["VerifAltFloatCollection"] = VerifAltFloatCollection
    ProcessorRegistry.register_processor("VerifAltFloatCollection", VerifAltFloatCollection)
    _ready[0] = True


# ---------------------------------------------------------------------------------------------
# component facts (read from the registry; inputs of the model, not identity logic)
_INFO = {}
KINDS = {"DataSource": "KSource", "DataOperation": "KOp", "DataProbe": "KProbe"}


def procinfo(proc):
    if proc in _INFO:
        return _INFO[proc]
    from semantiva.registry import resolve_symbol
    from semantiva.pipeline._param_resolution import _default_for, _NO_DEFAULT
    from semantiva.inspection.builder import build_pipeline_inspection
    cls = resolve_symbol(proc)
    md = cls.get_metadata()
    kind = KINDS.get(md.get("component_type"), "KOther")
    suppressed = []
    if kind == "KOther":
        bare = build_pipeline_inspection([{"processor": proc}])
        required = sorted(bare.required_context_keys)
        suppressed = sorted(bare.nodes[0].suppressed_keys)
    else:
        required = [n for n in md.get("parameters", {}) if _default_for(cls, n) is _NO_DEFAULT]
    created = list(getattr(cls, "get_created_keys", lambda: [])())
    info = {"fqcn": "%s.%s" % (cls.__module__, cls.__qualname__), "kind": kind, "required": required, "created": created,
            "suppressed": suppressed}
    _INFO[proc] = info
    return info


def fqcn(name):
    from semantiva.registry import resolve_symbol
    c = resolve_symbol(name)
    return "%s.%s" % (c.__module__, c.__qualname__)


# ---------------------------------------------------------------------------------------------
# expressions (the C12 grammar): tuples <-> source <-> Gallina
def parse_expr(s):
    def go(n):
        if isinstance(n, ast.Name):
            return ("var", n.id)
        if isinstance(n, ast.Constant) and isinstance(n.value, int) and not isinstance(n.value, bool) and n.value >= 0:
            return ("const", n.value)
        if isinstance(n, ast.UnaryOp) and type(n.op).__name__ in ("USub", "UAdd", "Not"):
            return ("un", type(n.op).__name__, go(n.operand))
        if isinstance(n, ast.BinOp) and type(n.op).__name__ in BINSYM:
            return ("bin", type(n.op).__name__, go(n.left), go(n.right))
        if isinstance(n, ast.IfExp):
            return ("if", go(n.test), go(n.body), go(n.orelse))
        if isinstance(n, ast.Call) and isinstance(n.func, ast.Name) and not n.keywords:
            return ("call", n.func.id, [go(a) for a in n.args])
        if isinstance(n, ast.Compare):
            return ("cmp", go(n.left), [(type(o).__name__, go(a)) for o, a in zip(n.ops, n.comparators)])
        if isinstance(n, ast.BoolOp):
            return ("bool", type(n.op).__name__, [go(a) for a in n.values])
        raise ValueError("expression outside the modelled grammar: " + ast.dump(n))
    return go(ast.parse(s, mode="eval").body)


def esrc(e, rng=None):
    """Source text; with rng, parentheses and spacing vary (cosmetic)."""
    sp = (lambda: rng.choice(["", " "])) if rng else (lambda: " ")
    k = e[0]
    if k == "var":
        return e[1]
    if k == "const":
        return str(e[1])
    if k == "un":
        return "(%s(%s))" % ({"USub": "-", "UAdd": "+", "Not": "not "}[e[1]], esrc(e[2], rng))
    if k == "bin":
        return "(%s%s%s%s%s)" % (esrc(e[2], rng), sp(), BINSYM[e[1]], sp(), esrc(e[3], rng))
    if k == "if":
        return "(%s if %s else %s)" % (esrc(e[2], rng), esrc(e[1], rng), esrc(e[3], rng))
    if k == "call":
        return "%s(%s)" % (e[1], ", ".join(esrc(a, rng) for a in e[2]))
    if k == "cmp":
        return "(%s %s)" % (esrc(e[1], rng), " ".join("%s %s" % (CMPSYM[o], esrc(a, rng)) for o, a in e[2]))
    if k == "bool":
        return "(" + {"And": " and ", "Or": " or "}[e[1]].join(esrc(a, rng) for a in e[2]) + ")"
    raise ValueError(e)


def ecoq(e):
    k = e[0]
    if k == "var":
        return "(Var %s)" % cq_str(e[1])
    if k == "const":
        return "(Const %s)" % cq_N(e[1])
    if k == "un":
        return "(Un %s %s)" % (e[1], ecoq(e[2]))
    if k == "bin":
        return "(Bin %s %s %s)" % (e[1], ecoq(e[2]), ecoq(e[3]))
    if k == "if":
        return "(IfE %s %s %s)" % (ecoq(e[1]), ecoq(e[2]), ecoq(e[3]))
    if k == "call":
        return "(Call %s %s)" % (cq_str(e[1]), cq_list([ecoq(a) for a in e[2]]))
    if k == "cmp":
        return "(Cmp %s %s)" % (ecoq(e[1]), cq_list(["(%s, %s)" % (o, ecoq(a)) for o, a in e[2]]))
    if k == "bool":
        return "(BoolE %s %s)" % (e[1], cq_list([ecoq(a) for a in e[2]]))
    raise ValueError(e)


def ac_shuffle(e, rng):
    """Random rearrangement by commutativity/associativity of + and * at any depth."""
    k = e[0]
    if k in ("var", "const"):
        return e
    if k == "un":
        return ("un", e[1], ac_shuffle(e[2], rng))
    if k == "bin":
        op = e[1]
        if op in COMM:
            terms = []

            def collect(t):
                if t[0] == "bin" and t[1] == op:
                    collect(t[2]), collect(t[3])
                else:
                    terms.append(ac_shuffle(t, rng))
            collect(e)
            rng.shuffle(terms)

            def build(ts):
                if len(ts) == 1:
                    return ts[0]
                cut = rng.randint(1, len(ts) - 1)
                return ("bin", op, build(ts[:cut]), build(ts[cut:]))
            return build(terms)
        return ("bin", op, ac_shuffle(e[2], rng), ac_shuffle(e[3], rng))
    if k == "if":
        return ("if",) + tuple(ac_shuffle(x, rng) for x in e[1:])
    if k == "call":
        return ("call", e[1], [ac_shuffle(a, rng) for a in e[2]])
    if k == "cmp":
        return ("cmp", ac_shuffle(e[1], rng), [(o, ac_shuffle(a, rng)) for o, a in e[2]])
    if k == "bool":
        return ("bool", e[1], [ac_shuffle(a, rng) for a in e[2]])
    raise ValueError(e)


def gen_expr(rng, names, depth=2):
    if depth >= 2 and rng.random() < 0.2:
        # sum of products / product of sums: compound operands whose own spelling can be commuted
        outer, inner = rng.choice([("Add", "Mult"), ("Mult", "Add")])
        leaf = lambda: ("var", rng.choice(names)) if rng.random() < 0.6 else ("const", rng.randint(1, 5))
        return ("bin", outer, ("bin", inner, leaf(), leaf()), ("bin", inner, leaf(), leaf()))
    if depth == 0 or rng.random() < 0.25:
        return ("var", rng.choice(names)) if rng.random() < 0.7 else ("const", rng.randint(0, 3))
    r = rng.random()
    if r < 0.6:
        return ("bin", rng.choice(["Add", "Mult", "Add", "Mult", "Sub", "FloorDiv", "Mod", "Pow"]),
                gen_expr(rng, names, depth - 1), gen_expr(rng, names, depth - 1))
    if r < 0.7:
        return ("un", "USub", gen_expr(rng, names, depth - 1))
    if r < 0.85:
        f = rng.choice(["abs", "min", "max"])
        n = 1 if f == "abs" else 2
        return ("call", f, [gen_expr(rng, names, depth - 1) for _ in range(n)])
    if r < 0.93:
        return ("if", ("cmp", gen_expr(rng, names, 0), [(rng.choice(list(CMPSYM)), gen_expr(rng, names, 0))]),
                gen_expr(rng, names, depth - 1), gen_expr(rng, names, depth - 1))
    return ("bool", rng.choice(["And", "Or"]), [gen_expr(rng, names, depth - 1), gen_expr(rng, names, depth - 1)])


def expr_uses(e, out):
    if e[0] == "var":
        out.add(e[1])
    for x in e[1:]:
        if isinstance(x, tuple):
            expr_uses(x, out)
        elif isinstance(x, list):
            for y in x:
                expr_uses(y[1] if (isinstance(y, tuple) and len(y) == 2 and isinstance(y[0], str) and y[0] in CMPSYM) else y, out)
    return out


# ---------------------------------------------------------------------------------------------
# configurations
SOURCES = ["FloatValueDataSource", "FloatValueDataSourceWithDefault"]
OPS = ["FloatMultiplyOperation", "FloatAddOperation", "FloatMultiplyOperationWithDefault", "FloatSquareOperation"]
PROBES = ["FloatCollectValueProbe", "FloatBasicProbe"]
PARAM = {"FloatValueDataSource": "value", "FloatValueDataSourceWithDefault": "value", "FloatMultiplyOperation": "factor",
         "FloatAddOperation": "addend", "FloatMultiplyOperationWithDefault": "factor"}
# processors with the same parameter names: swapping one for the other is a single-point change
SWAP = {"FloatValueDataSource": "FloatValueDataSourceWithDefault", "FloatValueDataSourceWithDefault": "FloatValueDataSource",
        "FloatMultiplyOperation": "FloatMultiplyOperationWithDefault", "FloatMultiplyOperationWithDefault": "FloatMultiplyOperation",
        "FloatCollectValueProbe": "FloatBasicProbe", "FloatBasicProbe": "FloatCollectValueProbe",
        "FloatSquareOperation": "FloatSqrtOperation", "FloatAddOperation": "FloatDivideOperation",
        "slice:FloatMultiplyOperation:FloatDataCollection": "slice:FloatMultiplyOperationWithDefault:FloatDataCollection"}
KEYS = ["a", "b", "kx", "seq", "tk", "sk"]


def gen_value(rng, depth=2):
    r = rng.random()
    if depth == 0 or r < 0.55:
        return rng.choice([1.0, 2.5, 3.0, -0.5, 2, 0, 7, "s", "abc", True, False, None, 1e-07, 1e22])
    if r < 0.8:
        return {k: gen_value(rng, depth - 1) for k in rng.sample(["a", "b", "c", "zz", "k1"], rng.randint(1, 3))}
    return [gen_value(rng, depth - 1) for _ in range(rng.randint(0, 3))]


def gen_var(rng, allow_ctx=True):
    r = rng.random()
    if r < 0.35:
        d = {"lo": rng.choice([0.0, 1.0, 0, -1.5]), "hi": rng.choice([2.0, 3.0, 5, 10.5]), "steps": rng.randint(1, 5)}
        if rng.random() < 0.3:
            d["scale"] = rng.choice(["linear", "log"])
            if d["scale"] == "log":
                d["lo"] = 1.0
        if rng.random() < 0.3:
            d["endpoint"] = rng.choice([True, False])
        return d
    if r < 0.7 or not allow_ctx:
        vals = [rng.choice([0.0, 1.0, 2.0, 3.5, 4, 7]) for _ in range(rng.choice([1, 3, 4, 5, 8]))]
        if len(vals) == 2:
            vals.append(1.0)
        return {"values": vals} if rng.random() < 0.5 else vals
    return {"from_context": rng.choice(KEYS)}


def type_twin(nodes):
    """A DIFFERENT configuration that is ==-equal value by value: numeric sweep sequence values switch
    between int and float spelling (1.0 <-> 1).  Used as prior history: nothing computed for the twin may
    leak into the identities of the configuration itself."""
    import copy
    tw = copy.deepcopy(nodes)
    changed = False
    for n in tw:
        sw = (n.get("derive") or {}).get("parameter_sweep")
        if not sw:
            continue
        for v, spec in list(sw.get("variables", {}).items()):
            vals = spec if isinstance(spec, list) else (spec.get("values") if isinstance(spec, dict) else None)
            if not isinstance(vals, list):
                continue
            new = []
            for x in vals:
                if isinstance(x, bool):
                    new.append(x)
                elif isinstance(x, float) and x == int(x):
                    new.append(int(x)); changed = True
                elif isinstance(x, int):
                    new.append(float(x)); changed = True
                else:
                    new.append(x)
            if isinstance(spec, list):
                sw["variables"][v] = new
            else:
                spec["values"] = new
    return tw if changed else None


def gen_sweep(rng, proc, kind):
    nvars = rng.choice([1, 1, 2, 2, 3])
    names = rng.sample(["t", "s", "u", "n"] + (["expr", "preprocessor_view"] if rng.random() < 0.15 else []), nvars)
    variables = {}
    used = set()
    for v in names:
        spec = gen_var(rng)
        while isinstance(spec, dict) and spec.get("from_context") in used:
            spec = gen_var(rng)
        if isinstance(spec, dict) and "from_context" in spec:
            used.add(spec["from_context"])
        variables[v] = spec
    sw = {"variables": variables}
    pn = PARAM.get(proc)
    if pn and rng.random() < 0.85:
        sw["parameters"] = {pn: esrc(gen_expr(rng, names, rng.choice([1, 2, 2, 3])))}
    elif rng.random() < 0.5:
        sw["parameters"] = {}
    if kind != "probe":
        sw["collection"] = "FloatDataCollection"
    if rng.random() < 0.5:
        sw["mode"] = rng.choice(["combinatorial", "by_position"])
    if rng.random() < 0.4:
        sw["broadcast"] = rng.choice([True, False])
    return sw


def gen_node(rng, kind, idx, sweep_p=0.4):
    if kind == "source":
        proc = rng.choice(SOURCES)
    elif kind == "op":
        proc = rng.choice(OPS)
    elif kind == "probe":
        proc = rng.choice(PROBES)
    elif kind == "ctx":
        a, b = rng.sample(KEYS, 2)
        proc = rng.choice(["rename:%s:%s" % (a, b), "delete:%s" % a, 'template:"res_{%s}.txt":%s' % (a, b)])
        return {"processor": proc}
    else:
        n = {"processor": "slice:FloatMultiplyOperation:FloatDataCollection"}
        if rng.random() < 0.7:
            n["parameters"] = {"factor": gen_value(rng, 1)}
        return n
    n = {"processor": proc}
    if kind == "probe":
        n["context_key"] = "k%d" % idx if rng.random() < 0.8 else rng.choice(KEYS)
    pn = PARAM.get(proc)
    swept = rng.random() < sweep_p and proc != "FloatSquareOperation"
    if swept:
        n["derive"] = {"parameter_sweep": gen_sweep(rng, proc, kind)}
    bound = set((n.get("derive", {}).get("parameter_sweep", {}).get("parameters") or {}))
    if pn and pn not in bound and rng.random() < 0.6:
        n["parameters"] = {pn: gen_value(rng, rng.choice([0, 0, 1, 2]))}
    elif rng.random() < 0.1:
        n["parameters"] = {}
    return n


def gen_config(rng, max_nodes=5, sweep_p=0.4):
    n = rng.randint(1, max_nodes)
    nodes = [gen_node(rng, "source", 0, sweep_p)]
    for i in range(1, n):
        nodes.append(gen_node(rng, rng.choice(["op", "op", "probe", "ctx", "slice", "source"]), i, sweep_p))
    if rng.random() < 0.15 and len(nodes) >= 2:      # textually identical nodes
        nodes.append(copy.deepcopy(nodes[-1]))
    return nodes


def has_sweep(nodes):
    return any((n.get("derive") or {}).get("parameter_sweep") for n in nodes)


# ---------------------------------------------------------------------------------------------
# model literals
def jlit(v):
    if v is None:
        return "JNull"
    if isinstance(v, bool):
        return "(JBool %s)" % cq_bool(v)
    if isinstance(v, (int, float)):
        tok = json.dumps(v)
        if not re.fullmatch(r"-?[0-9][0-9eE+\-.]*", tok):
            raise ValueError("number outside the fragment: %r" % v)
        return "(JNum %s)" % cq_str(tok)
    if isinstance(v, str):
        return "(JStr %s)" % cq_str(v)
    if isinstance(v, (list, tuple)):
        return "(JArr %s)" % cq_list([jlit(x) for x in v])
    if isinstance(v, dict):
        return "(JObj %s)" % cq_list(["(%s, %s)" % (cq_str(k), jlit(x)) for k, x in v.items()])
    raise ValueError("value outside the JSON fragment: %r" % (v,))


TWO_RANGE = [None]


def two_range():
    if TWO_RANGE[0] is None:
        import os
        from harness import core
        txt = open(os.path.join(core.COQ, "Gen", "IdentityGen.v")).read()
        TWO_RANGE[0] = "two_number_list_is_range : bool := true" in txt
    return TWO_RANGE[0]


def var_lit(spec):
    """Documented forms of a sweep variable (node_preprocess._convert_var_specs), incl. the code's
    two-number-list rule."""
    if isinstance(spec, list):
        if two_range() and len(spec) == 2 and all(isinstance(x, (int, float)) for x in spec):
            return "(VRange %s %s %s %s true)" % (cq_str(json.dumps(float(spec[0]))), cq_str(json.dumps(float(spec[1]))),
                                                 cq_str("10"), cq_str("linear"))
        return "(VSeq %s)" % cq_list([jlit(x) for x in spec])
    if "from_context" in spec:
        return "(VCtx %s)" % cq_str(spec["from_context"])
    if {"lo", "hi", "steps"} <= set(spec):
        return "(VRange %s %s %s %s %s)" % (cq_str(json.dumps(float(spec["lo"]))), cq_str(json.dumps(float(spec["hi"]))),
                                            cq_str(json.dumps(int(spec["steps"]))), cq_str(str(spec.get("scale", "linear"))),
                                            cq_bool(bool(spec.get("endpoint", True))))
    if "values" in spec:
        return "(VSeq %s)" % cq_list([jlit(x) for x in spec["values"]])
    raise ValueError(spec)


def seq_values(spec):
    if isinstance(spec, list):
        if two_range() and len(spec) == 2 and all(isinstance(x, (int, float)) for x in spec):
            return None
        return list(spec)
    if isinstance(spec, dict) and "from_context" not in spec and not {"lo", "hi", "steps"} <= set(spec) and "values" in spec:
        return list(spec["values"])
    return None


def node_lit(n):
    info = procinfo(n["processor"])
    sw = (n.get("derive") or {}).get("parameter_sweep")
    if sw is None:
        swl = "None"
    else:
        coll = sw.get("collection")
        swl = ("(Some {| sw_exprs := %s; sw_vars := %s; sw_mode := %s; sw_broadcast := %s; sw_collection := %s |})"
               % (cq_list(["(%s, %s)" % (cq_str(k), ecoq(parse_expr(v))) for k, v in (sw.get("parameters") or {}).items()]),
                  cq_list(["(%s, %s)" % (cq_str(k), var_lit(v)) for k, v in sw["variables"].items()]),
                  cq_str(sw.get("mode", "combinatorial")), cq_bool(bool(sw.get("broadcast", False))),
                  cq_opt(fqcn(coll) if coll else None, cq_str)))
    return ("{| n_proc := %s; n_params := %s; n_info := {| pi_fqcn := %s; pi_kind := %s; pi_required := %s; pi_created := %s; pi_suppressed := %s |}; "
            "n_ctxkey := %s; n_sweep := %s |}"
            % (cq_str(n["processor"]), cq_list(["(%s, %s)" % (cq_str(k), jlit(v)) for k, v in (n.get("parameters") or {}).items()]),
               cq_str(info["fqcn"]), info["kind"], cq_list(info["required"], cq_str), cq_list(info["created"], cq_str), cq_list(info["suppressed"], cq_str),
               cq_opt(n.get("context_key") if info["kind"] == "KProbe" else None, cq_str), swl))


def config_lit(nodes):
    return cq_list([node_lit(n) for n in nodes])


# ---------------------------------------------------------------------------------------------
# observation of the implementation
class Recorder:
    """Minimal TraceDriver that keeps pipeline_start."""

    def __init__(self):
        self.starts = []

    def on_pipeline_start(self, pipeline_id, run_id, canonical, meta, pipeline_input=None, **kw):
        self.starts.append({"pipeline_id": pipeline_id, "meta": copy.deepcopy(meta), "canonical_json": J(canonical)})

    def __getattr__(self, name):
        return lambda *a, **k: None


def _strip_scoped():
    """which sanitiser shape compute_node_semantic_id has (generated fact node_sem_strip_scoped)"""
    try:
        return "node_sem_strip_scoped : bool := true" in open(os.path.join(os.path.dirname(os.path.dirname(os.path.dirname(os.path.abspath(__file__)))), "coq", "Gen", "SemanticIdGen.v")).read()
    except OSError:
        return False


def _strip(o, top=True):
    if _strip_scoped():
        if not isinstance(o, dict):
            return o
        out = {k: v for k, v in o.items() if k != "preprocessor_view"}
        pe = out.get("param_expressions")
        if isinstance(pe, dict):
            out["param_expressions"] = {n: ({k: v for k, v in e.items() if k != "expr"} if isinstance(e, dict) else e)
                                        for n, e in pe.items()}
        return out
    if isinstance(o, dict):
        return {k: _strip(v) for k, v in o.items() if k not in ("expr", "preprocessor_view")}
    if isinstance(o, list):
        return [_strip(v) for v in o]
    return o


class Mismatch(Exception):
    pass


def observe(nodes, runs=2):
    """Identities of one configuration through build_inspection_payload, Pipeline construction and
    `runs` traced runs of ONE Pipeline object; plus the tables preimage -> hash recomputed by the
    harness from the implementation's own JSON objects (checked against the implementation's ids)."""
    from semantiva.inspection import build_inspection_payload
    from semantiva.inspection.builder import build_pipeline_inspection
    from semantiva.pipeline.graph_builder import build_canonical_spec, compute_pipeline_id
    from semantiva.pipeline import Pipeline, Payload
    from semantiva.context_processors.context_types import ContextType
    from semantiva.logger import Logger

    payload = build_inspection_payload(copy.deepcopy(nodes))
    canonical, _ = build_canonical_spec(copy.deepcopy(nodes))
    insp = build_pipeline_inspection(copy.deepcopy(nodes))
    tU, tH = {}, {}
    uu = []
    for n in canonical["nodes"]:
        pre = J({k: v for k, v in n.items() if k != "node_uuid"})
        u = str(uuid.uuid5(NS, pre))
        if u != n["node_uuid"]:
            raise Mismatch("node uuid is not uuid5(zero namespace, sorted-key JSON of the canonical node)")
        tU[pre] = u
        uu.append(u)
    pn = payload["pipeline_spec_canonical"]["nodes"]
    if [x["uuid"] for x in pn] != uu:
        raise Mismatch("inspection payload node uuids differ from build_canonical_spec")
    sems = []
    for i, x in enumerate(pn):
        pre_meta = insp.nodes[i].preprocessor_metadata if i < len(insp.nodes) else None
        if isinstance(pre_meta, dict):
            pre = "semantiva:node-sem-v1:" + J(_strip(pre_meta))
            tH[pre] = sha(pre)
            if tH[pre] != x["node_semantic_id"]:
                raise Mismatch("node semantic id is not sha256(prefix + sorted-key JSON of stripped metadata)")
        elif x["node_semantic_id"] != "none":
            raise Mismatch("node without preprocessor has node_semantic_id %r" % x["node_semantic_id"])
        sems.append(x["node_semantic_id"])
    for n in nodes:
        sw = (n.get("derive") or {}).get("parameter_sweep") or {}
        for spec in (sw.get("variables") or {}).values():
            vals = seq_values(spec)
            if vals is not None:
                tH[J(vals)] = sha(J(vals))
    plid_pre = J(canonical)
    tH[plid_pre] = sha(plid_pre)
    plid = compute_pipeline_id(canonical)
    if plid != "plid-" + tH[plid_pre]:
        raise Mismatch("pipeline id is not plid-sha256(sorted-key JSON of canonical spec)")
    entries = [{"name": n.get("name"), "node_uuid": n.get("node_uuid"), "payload_from": n.get("payload_from")} for n in canonical["nodes"]]
    sem_pre = "semantiva:pipeline-sem-v1:" + J({"nodes": entries})
    if "plsemid-" + sha(sem_pre) != payload["identity"]["semantic_id"]:
        for e, s in zip(entries, sems):
            if s != "none":
                e["node_semantic_id"] = s
        sem_pre = "semantiva:pipeline-sem-v1:" + J({"nodes": entries})
        if "plsemid-" + sha(sem_pre) != payload["identity"]["semantic_id"]:
            raise Mismatch("pipeline semantic id is not plsemid-sha256(prefix + structure JSON) in either known shape")
    tH[sem_pre] = sha(sem_pre)
    cfg_pre = J(sorted([[u, s] for u, s in zip(uu, sems)], key=lambda p: p[0]))
    tH[cfg_pre] = sha(cfg_pre)
    if "plcid-" + tH[cfg_pre] != payload["identity"]["config_id"]:
        raise Mismatch("config id is not plcid-sha256(sorted pairs JSON)")
    invalid = [i for i, n in enumerate(insp.nodes) if not getattr(n, "is_configuration_valid", True)]
    out = {"invalid_nodes": invalid, "uuids": uu, "nodesem": sems, "plid": plid, "semid": payload["identity"]["semantic_id"],
           "cfgid": payload["identity"]["config_id"], "required": list(payload["required_context_keys"]),
           "payload": payload, "tU": tU, "tH": tH, "run_plids": [], "problems": []}
    # Pipeline construction + traced runs of one object
    rec = Recorder()
    p = Pipeline(copy.deepcopy(nodes), trace=rec, logger=Logger(level="CRITICAL"))
    out["ctor_uuids"] = [n["node_uuid"] for n in p.canonical_spec["nodes"]]
    out["ctor_plid"] = compute_pipeline_id(p.canonical_spec)
    for r in range(runs):
        before = J(p.canonical_spec)
        tH[before] = sha(before)
        k = len(rec.starts)
        try:
            ctx = ContextType()
            for key in out["required"] + KEYS:
                ctx.set_value(key, [1.0, 2.0, 3.0] if key in ("seq", "tk", "sk") else 2.0)
            p.process(Payload(None, ctx))
        except BaseException as ex:  # noqa - only pipeline_start is observed
            if isinstance(ex, KeyboardInterrupt):
                raise
        if len(rec.starts) != k + 1:
            out["problems"].append("run %d emitted %d pipeline_start records" % (r, len(rec.starts) - k))
            break
        st = rec.starts[-1]
        if st["pipeline_id"] != "plid-" + tH[before]:
            out["problems"].append("run %d: pipeline_id is not the hash of the Pipeline object's canonical spec before the run" % r)
        out["run_plids"].append(st["pipeline_id"])
        out.setdefault("run_meta", []).append(st["meta"])
    return out


CASE_HEADER = """From Coq Require Import List String Bool NArith.
From SV Require Import Common.Prelude Model.Json Model.Expr Model.Identity Gen.IdentityGen.
Import ListNotations. Open Scope string_scope.
Definition sl_eqb (a b : list string) : bool :=
  Nat.eqb (List.length a) (List.length b) && forallb (fun p => String.eqb (fst p) (snd p)) (combine a b).
Definition caseT : Type := (config * list (string * string) * list (string * string) *
                        (list string * list string * string * string * string * list string * list string))%%type.
Definition case_ok (c : caseT) : bool :=
  match c with
  | (cfg, tU, tH, (us, ns, plid, semid, cfgid, req, runs)) =>
      let U := lookup tU in let H := lookup tH in
      let i := spec_ids U H cfg in
      sl_eqb (i_uuids i) us && sl_eqb (i_nodesem i) ns && String.eqb (i_plid i) plid &&
      String.eqb (i_semid i) semid && String.eqb (i_cfgid i) cfgid && sl_eqb (i_required i) req &&
      sl_eqb (map (fun k => match impl_run_ids U H (EBuild cfg :: repeat (ERun 0 true) k) 0 with
                            | Some x => i_plid x | None => "none" end) (seq 0 (List.length runs))) runs
  end.
Definition cases : list caseT := [
%s
].
Eval vm_compute in bad_indices case_ok cases 0.
"""


def case_lit(nodes, ob):
    if ob.get("invalid_nodes"):
        # a node the inspection marks invalid (unknown parameter left by a processor mutation ...) contributes no required
        # keys; Model/Identity.v's node_required describes valid nodes only (the identities themselves do not depend on it
        # and are judged by the direct mutation oracle)
        raise ValueError("configuration with an invalid node: required keys outside the modelled fragment")
    tab = lambda t: cq_list(["(%s, %s)" % (cq_str(k), cq_str(v)) for k, v in t.items()])
    sl = lambda l: cq_list(l, cq_str)
    return "(%s, %s, %s, (%s, %s, %s, %s, %s, %s, %s))" % (
        config_lit(nodes), tab(ob["tU"]), tab(ob["tH"]), sl(ob["uuids"]), sl(ob["nodesem"]), cq_str(ob["plid"]),
        cq_str(ob["semid"]), cq_str(ob["cfgid"]), sl(ob["required"]), sl(ob["run_plids"]))


def shard_texts(lits, per=150):
    return [CASE_HEADER % ";\n".join(lits[i:i + per]) for i in range(0, len(lits), per)]


# ---------------------------------------------------------------------------------------------
# YAML writer with cosmetic freedom
PLAIN = re.compile(r"^[A-Za-z_][A-Za-z0-9_.]*$")
RESERVED = {"true", "false", "null", "yes", "no", "on", "off", "y", "n", "True", "False", "Null", "None", "NULL", "TRUE", "FALSE",
            "Yes", "No", "On", "Off", "YES", "NO", "ON", "OFF", "Y", "N"}


class Style:
    """rng = None -> plain block style in given order (the base text)."""

    def __init__(self, rng=None, anchors=True, layout=True, perm=None):
        """layout: flow/block, quoting, scalar spellings, anchors; perm: None = permute every mapping,
        otherwise the set of mapping classes (see pclass) whose key order is permuted (reversed when
        the rng draws the identity, so that a requested permutation always changes something)."""
        self.rng = rng
        self.layout = layout and rng is not None
        self.anchors = anchors and self.layout
        self.perm = perm
        self.count = 0
        self.seen = []       # (value, anchor name) for compound values already emitted
        self.permuted = set()

    def coin(self, p=0.5):
        return self.layout and self.rng.random() < p

    def order(self, keys, path=()):
        keys = list(keys)
        cls = pclass(path)
        if self.rng is not None and (self.perm is None or cls in self.perm) and len(keys) > 1:
            new = list(keys)
            self.rng.shuffle(new)
            if new == keys:
                new.reverse()
            self.permuted.add(cls)
            return new
        return keys


def pclass(path):
    """Class of the mapping at `path` (path is relative to the document root)."""
    p = [x for x in path]
    if p[:2] != ["pipeline", "nodes"]:
        return "document"
    p = p[3:]      # drop pipeline, nodes, index
    if not p:
        return "node"
    if p[0] == "parameters":
        return "parameters" if len(p) == 1 else "parameters.nested"
    if p[0] == "derive":
        if len(p) == 1:
            return "derive"
        q = p[2:]
        if not q:
            return "sweep"
        if q[0] == "variables":
            return "sweep.variables" if len(q) == 1 else "sweep.variable_spec"
        if q[0] == "parameters":
            return "sweep.parameters"
    return "other"


def scalar(v, st):
    if not st.layout and st.rng is not None:
        return scalar(v, Style())
    if v is None:
        return st.rng.choice(["null", "~", "Null"]) if st.rng else "null"
    if isinstance(v, bool):
        if st.rng:
            return st.rng.choice(["true", "True", "yes", "on"] if v else ["false", "False", "no", "off"])
        return "true" if v else "false"
    if isinstance(v, int):
        return st.rng.choice([str(v), "+%d" % v if v >= 0 else str(v)]) if st.rng else str(v)
    if isinstance(v, float):
        base = repr(v)
        if st.rng and re.fullmatch(r"-?[0-9]+\.[0-9]+", base):
            return st.rng.choice([base, base + "0", base + "00", base + "e+0", base + "e-0", base + "E+00"])
        if "e" in base and "." not in base:     # PyYAML needs a dot: 1e-07 -> 1.0e-07
            m, e = base.split("e")
            base = "%s.0e%s" % (m, e)
        return base
    if isinstance(v, str):
        plain = PLAIN.match(v) and v not in RESERVED
        if st.rng is None:
            return v if plain else "'%s'" % v.replace("'", "''")
        opts = ["'%s'" % v.replace("'", "''"), '"%s"' % v.replace("\\", "\\\\").replace('"', '\\"')]
        if plain:
            opts += [v, v]
        return st.rng.choice(opts)
    raise ValueError(v)


def emit(v, st, indent, flow=False, path=()):
    """Return YAML text of v.  Block collections start on a new line (leading newline included)."""
    pad = "  " * indent
    if isinstance(v, (dict, list)) and st.anchors and len(v) > 0:
        for old, name in st.seen:
            if old == v and type(old) is type(v) and J(old) == J(v) and st.coin(0.7):
                return " *" + name if not flow else "*" + name
    anchor = ""
    if isinstance(v, (dict, list)) and st.anchors and len(v) > 0 and st.coin(0.3):
        st.count += 1
        name = "a%d" % st.count
        anchor = "&" + name + " "
        st.seen.append((copy.deepcopy(v), name))
    if isinstance(v, dict):
        keys = st.order(v.keys(), path)
        if not v:
            return ("" if flow else " ") + "{}"
        if flow or st.coin(0.3):
            body = anchor + "{" + ", ".join("%s: %s" % (scalar(k, st), emit(v[k], st, indent, True, path + (k,))) for k in keys) + "}"
            return body if flow else " " + body
        out = (" " + anchor.strip() if anchor else "")
        for k in keys:
            out += "\n%s%s:%s" % (pad, scalar(k, st), emit(v[k], st, indent + 1, False, path + (k,)))
        return out
    if isinstance(v, list):
        if not v:
            return ("" if flow else " ") + "[]"
        if flow or st.coin(0.4):
            body = anchor + "[" + ", ".join(emit(x, st, indent, True, path + (i,)) for i, x in enumerate(v)) + "]"
            return body if flow else " " + body
        out = (" " + anchor.strip() if anchor else "")
        for i, x in enumerate(v):
            item = emit(x, st, indent + 1, False, path + (i,))
            if item.startswith("\n"):
                # block collection inside a sequence entry: put first line after the dash
                lines = item[1:].split("\n")
                first = lines[0].strip()
                out += "\n%s- %s" % (pad, first)
                for l in lines[1:]:
                    out += "\n" + l
            else:
                out += "\n%s-%s" % (pad, item if item.startswith(" ") else " " + item)
        return out
    s = scalar(v, st)
    return s if flow else " " + s


def to_yaml(nodes, st=None, extensions=True):
    st = st or Style()
    doc = {}
    if extensions:
        doc["extensions"] = ["semantiva-examples"]
    doc["pipeline"] = {"nodes": nodes}
    text = emit(doc, st, 0)
    return text.lstrip("\n") + "\n"


def rewrite_exprs(nodes, rng):
    """Copy of the configuration with +/* operands of every sweep expression rearranged."""
    out = copy.deepcopy(nodes)
    for n in out:
        sw = (n.get("derive") or {}).get("parameter_sweep")
        if sw and sw.get("parameters"):
            sw["parameters"] = {k: esrc(ac_shuffle(parse_expr(v), rng), rng) for k, v in sw["parameters"].items()}
    return out


def respell_range_bounds(nodes, rng):
    """Copy of the configuration with the bounds of every RANGE variable spelled as the other numeric type where the value
    allows it (lo: -1 <-> lo: -1.0): the same range, the same swept values.  (Not for explicit value lists: there the
    element type is part of the domain.)"""
    out = copy.deepcopy(nodes)
    for n in out:
        sw = (n.get("derive") or {}).get("parameter_sweep")
        for spec in ((sw or {}).get("variables") or {}).values():
            if isinstance(spec, dict) and "lo" in spec and "hi" in spec:
                for f in ("lo", "hi"):
                    v = spec[f]
                    if isinstance(v, bool) or rng.random() < 0.3:
                        continue
                    if isinstance(v, int):
                        spec[f] = float(v)
                    elif isinstance(v, float) and v == int(v) and abs(v) < 2 ** 53:
                        spec[f] = int(v)
    return out


def cosmetic_variant(nodes, rng, kind="all", perm=None):
    """(yaml text, the object it must load to, classes of mappings actually permuted).
    kind: all | layout (flow/block, quoting, anchors/aliases, scalar spellings) | keyorder (perm = classes
    or None for every depth) | exprs (+/* operand order)."""
    re_nodes = respell_range_bounds(rewrite_exprs(nodes, rng), rng) if kind in ("all", "exprs") else copy.deepcopy(nodes)
    if kind == "all":
        st = Style(rng)
    elif kind == "layout":
        st = Style(rng, perm=set())
    elif kind == "keyorder":
        st = Style(rng, layout=False, perm=perm)
    else:
        st = Style()
    text = to_yaml(re_nodes, st)
    return text, re_nodes, sorted(st.permuted)


def same_meaning(a, b):
    """Deep equality including scalar types (1 vs 1.0 vs True are different)."""
    if type(a) is not type(b):
        return False
    if isinstance(a, dict):
        return set(a) == set(b) and all(same_meaning(a[k], b[k]) for k in a)
    if isinstance(a, list):
        return len(a) == len(b) and all(same_meaning(x, y) for x, y in zip(a, b))
    return a == b


# ---------------------------------------------------------------------------------------------
# single-point semantic mutations: (operator name, position description, mutated configuration)
def _paths(v, pre=()):
    if isinstance(v, dict):
        for k, x in v.items():
            yield from _paths(x, pre + (k,))
    elif isinstance(v, list):
        for i, x in enumerate(v):
            yield from _paths(x, pre + (i,))
    else:
        yield pre, v


def _set(v, path, new):
    for p in path[:-1]:
        v = v[p]
    v[path[-1]] = new


def _other(v):
    if isinstance(v, bool):
        return not v
    if isinstance(v, int):
        return v + 1
    if isinstance(v, float):
        return v * 2 + 1      # v + 1 == v for large floats
    if isinstance(v, str):
        return v + "x"
    return 0


def mutate_expr(e, where):
    """Non-equivalent change at the where-th leaf (constant +1 / variable -> constant 5)."""
    cnt = [0]

    def go(x):
        k = x[0]
        if k in ("var", "const"):
            cnt[0] += 1
            if cnt[0] - 1 == where:
                return ("const", x[1] + 1) if k == "const" else ("const", 5)
            return x
        if k == "un":
            return ("un", x[1], go(x[2]))
        if k == "bin":
            return ("bin", x[1], go(x[2]), go(x[3]))
        if k == "if":
            return ("if", go(x[1]), go(x[2]), go(x[3]))
        if k == "call":
            return ("call", x[1], [go(a) for a in x[2]])
        if k == "cmp":
            return ("cmp", go(x[1]), [(o, go(a)) for o, a in x[2]])
        if k == "bool":
            return ("bool", x[1], [go(a) for a in x[2]])
    out = go(e)
    return out, cnt[0]


def mutations(nodes):
    for i, n in enumerate(nodes):
        sw = (n.get("derive") or {}).get("parameter_sweep")
        # processor of a node / wrapped processor of a sweep
        if n["processor"] in SWAP:
            m = copy.deepcopy(nodes)
            m[i]["processor"] = SWAP[n["processor"]]
            yield ("sweep.wrapped_processor" if sw else "processor", "node %d" % i, m)
        elif n["processor"].startswith("rename:"):
            m = copy.deepcopy(nodes)
            m[i]["processor"] = n["processor"] + "2"
            yield ("processor", "node %d" % i, m)
            # the same destination, another source key (plain and dotted)
            _, a, b = n["processor"].split(":")
            for src2 in (a + "2", "acq." + a, "acq.x" + a):
                m = copy.deepcopy(nodes)
                m[i]["processor"] = "rename:%s:%s" % (src2, b)
                yield ("processor", "node %d rename source %s -> %s" % (i, a, src2), m)
        elif n["processor"].startswith("template:"):
            # the same output key, another template text (the generated templates contain a dot)
            m = copy.deepcopy(nodes)
            m[i]["processor"] = n["processor"].replace('template:"', 'template:"v2_', 1)
            yield ("processor", "node %d template text" % i, m)
        elif n["processor"].startswith("delete:"):
            for key2 in (n["processor"][7:] + "2", "acq." + n["processor"][7:]):
                m = copy.deepcopy(nodes)
                m[i]["processor"] = "delete:" + key2
                yield ("processor", "node %d delete key" % i, m)
        # parameter value at any depth
        for path, v in _paths(n.get("parameters") or {}):
            m = copy.deepcopy(nodes)
            _set(m[i]["parameters"], path, _other(v))
            yield ("parameter.value", "node %d path %s" % (i, "/".join(map(str, path))), m)
        # a string value with another line terminator / blank (another string all the same)
        for path, v in _paths(n.get("parameters") or {}):
            if not isinstance(v, str):
                continue
            for a, b in (("\r\n", "\n"), ("\n", "\r\n"), ("\r", "\n"), ("\n", "\r"), ("\t", " "), (" ", "  ")):
                if a in v and v.replace(a, b) != v and (a != "\n" or "\r\n" not in v):
                    m = copy.deepcopy(nodes)
                    _set(m[i]["parameters"], path, v.replace(a, b))
                    yield ("parameter.value", "node %d path %s: %r -> %r" % (i, "/".join(map(str, path)), a, b), m)
        # nodes: delete / insert / swap
        if len(nodes) > 1:
            yield ("nodes.delete", "node %d" % i, copy.deepcopy(nodes[:i] + nodes[i + 1:]))
        yield ("nodes.insert", "before %d" % i, copy.deepcopy(nodes[:i] + [{"processor": "FloatSquareOperation"}] + nodes[i:]))
        yield ("nodes.duplicate", "node %d" % i, copy.deepcopy(nodes[:i + 1] + nodes[i:]))
        # (two neighbours that differ only in the probe's context_key are not "a different order of nodes" in an
        #  identity-bearing respect: swapping them equals exchanging their context keys, which C05 does not list)
        ident = lambda n: {k: v for k, v in n.items() if k != "context_key"}
        if i + 1 < len(nodes) and not same_meaning(ident(nodes[i]), ident(nodes[i + 1])):
            m = copy.deepcopy(nodes)
            m[i], m[i + 1] = m[i + 1], m[i]
            yield ("nodes.swap", "nodes %d,%d" % (i, i + 1), m)
        if not sw:
            continue
        # expressions
        for pn, src in (sw.get("parameters") or {}).items():
            e = parse_expr(src)
            _, leaves = mutate_expr(e, -1)
            for w in range(leaves):
                m = copy.deepcopy(nodes)
                m[i]["derive"]["parameter_sweep"]["parameters"][pn] = esrc(mutate_expr(e, w)[0])
                yield ("sweep.expression", "node %d %s leaf %d" % (i, pn, w), m)
            # `a or b` / `a and b` return one of their operands: exchanging distinct operands is another expression
            def bool_swaps(x, path=()):
                if isinstance(x, tuple):
                    if x and x[0] == "bool" and len(x[2]) >= 2 and x[2][0] != x[2][-1]:
                        yield path
                    for j, y in enumerate(x):
                        yield from bool_swaps(y, path + (j,))
                elif isinstance(x, list):
                    for j, y in enumerate(x):
                        yield from bool_swaps(y, path + (j,))

            def replace_at(x, path, f):
                if not path:
                    return f(x)
                if isinstance(x, tuple):
                    return tuple(replace_at(y, path[1:], f) if j == path[0] else y for j, y in enumerate(x))
                return [replace_at(y, path[1:], f) if j == path[0] else y for j, y in enumerate(x)]
            for bp in list(bool_swaps(e))[:3]:
                m = copy.deepcopy(nodes)
                m[i]["derive"]["parameter_sweep"]["parameters"][pn] = esrc(replace_at(e, bp, lambda b: ("bool", b[1], list(reversed(b[2])))))
                yield ("sweep.expression", "node %d %s operands of and/or exchanged" % (i, pn), m)
            if e[0] == "bin" and e[1] not in COMM and e[2] != e[3]:
                m = copy.deepcopy(nodes)
                m[i]["derive"]["parameter_sweep"]["parameters"][pn] = esrc(("bin", e[1], e[3], e[2]))
                yield ("sweep.expression", "node %d %s swap operands of %s" % (i, pn, e[1]), m)
        # variable domains
        for vn, spec in sw["variables"].items():
            def with_spec(new):
                m = copy.deepcopy(nodes)
                m[i]["derive"]["parameter_sweep"]["variables"][vn] = new
                return m
            vals = seq_values(spec)
            if vals is not None:
                for j in range(len(vals)):
                    new = list(vals)
                    new[j] = new[j] + 1
                    yield ("sweep.variable_domain", "node %d %s sequence element %d of %d" % (i, vn, j, len(vals)),
                           with_spec({"values": new} if isinstance(spec, dict) else new))
                yield ("sweep.variable_domain", "node %d %s sequence append" % (i, vn),
                       with_spec({"values": vals + [9.0]} if isinstance(spec, dict) else vals + [9.0]))
                # the same numbers as values of another type (==-equal, different domain: 1 / 1.0 / True)
                for kind, conv in (("int<->float", lambda x: float(x) if isinstance(x, int) and not isinstance(x, bool) else
                                    (int(x) if isinstance(x, float) and x == int(x) else x)),
                                   ("0/1->bool", lambda x: bool(x) if not isinstance(x, bool) and x in (0, 1) else x)):
                    new = [conv(x) for x in vals]
                    if [type(a) for a in new] != [type(a) for a in vals]:
                        yield ("sweep.variable_domain", "node %d %s sequence values %s (equal numbers, other type)" % (i, vn, kind),
                               with_spec({"values": new} if isinstance(spec, dict) else new))
            elif isinstance(spec, dict) and "from_context" in spec:
                yield ("sweep.variable_domain", "node %d %s from_context key" % (i, vn), with_spec({"from_context": spec["from_context"] + "2"}))
            elif isinstance(spec, dict):
                for f in ("lo", "hi", "steps"):
                    new = dict(spec)
                    new[f] = spec[f] + 1
                    yield ("sweep.variable_domain", "node %d %s range %s" % (i, vn, f), with_spec(new))
                for f in ("lo", "hi"):     # a bound moved by less than any rounded print would show (another float all the same)
                    new = dict(spec)
                    new[f] = float(spec[f]) + 1e-13
                    if new[f] != float(spec[f]):
                        yield ("sweep.variable_domain", "node %d %s range %s + 1e-13" % (i, vn, f), with_spec(new))
                new = dict(spec)
                new["endpoint"] = not spec.get("endpoint", True)
                yield ("sweep.variable_domain", "node %d %s range endpoint" % (i, vn), with_spec(new))
                new = dict(spec)
                new["scale"] = "log" if spec.get("scale", "linear") == "linear" else "linear"
                yield ("sweep.variable_domain", "node %d %s range scale" % (i, vn), with_spec(new))
        m = copy.deepcopy(nodes)
        m[i]["derive"]["parameter_sweep"]["mode"] = "by_position" if sw.get("mode", "combinatorial") == "combinatorial" else "combinatorial"
        yield ("sweep.mode", "node %d" % i, m)
        m = copy.deepcopy(nodes)
        m[i]["derive"]["parameter_sweep"]["broadcast"] = not sw.get("broadcast", False)
        yield ("sweep.broadcast", "node %d" % i, m)
        if sw.get("collection"):
            m = copy.deepcopy(nodes)
            m[i]["derive"]["parameter_sweep"]["collection"] = ("VerifAltFloatCollection" if sw["collection"] == "FloatDataCollection"
                                                               else "FloatDataCollection")
            yield ("sweep.collection", "node %d" % i, m)


# ---------------------------------------------------------------------------------------------
# CLI inspect in a fresh process
def parse_inspect(stdout):
    sem = re.search(r"Semantic ID:\s*(\S+)", stdout)
    cfg = re.search(r"Config ID:\s*(\S+)", stdout)
    req = re.search(r"^Required Context Keys:\s*(.*)$", stdout, re.M)
    keys = [k.strip() for k in req.group(1).split(",")] if req and req.group(1).strip() not in ("", "None", "none") else []
    return {"semid": sem.group(1) if sem else None, "cfgid": cfg.group(1) if cfg else None, "required": keys,
            "uuids": re.findall(r"- UUID:\s*(\S+)", stdout), "nodesem": re.findall(r"- Node Semantic ID:\s*(\S+)", stdout)}


# ---------------------------------------------------------------------------------------------
# order of calls on ONE configuration object (direct oracle; no model involved)
def null_params(nodes):
    """the same configuration with an explicit null `parameters:` wherever a node has none (legal YAML: `parameters:`)"""
    out = copy.deepcopy(nodes)
    changed = False
    for n in out:
        if not n.get("parameters"):
            n["parameters"] = None
            changed = True
    return out if changed else None


def _payload_ids(p):
    pn = p["pipeline_spec_canonical"]["nodes"]
    return {"uuids": [x["uuid"] for x in pn], "nodesem": [x["node_semantic_id"] for x in pn],
            "semid": p["identity"]["semantic_id"], "cfgid": p["identity"]["config_id"]}


def observe_shared(nodes, order):
    """Identities obtained by performing the operations of `order` one after the other on ONE configuration object
    (what a program that inspects and then runs its configuration does).  -> list of (operation, ids)"""
    from semantiva.inspection import build_inspection_payload
    from semantiva.inspection.builder import build_pipeline_inspection
    from semantiva.pipeline.graph_builder import build_canonical_spec, compute_pipeline_id
    from semantiva.pipeline import Pipeline, Payload
    from semantiva.context_processors.context_types import ContextType
    from semantiva.logger import Logger
    s = copy.deepcopy(nodes)
    got = []
    for op in order:
        if op == "payload":
            got.append((op, _payload_ids(build_inspection_payload(s))))
        elif op == "inspect":
            build_pipeline_inspection(s)
            canonical, _ = build_canonical_spec(s)
            got.append((op, {"uuids": [n["node_uuid"] for n in canonical["nodes"]], "plid": compute_pipeline_id(canonical)}))
        elif op == "canonical":
            canonical, _ = build_canonical_spec(s)
            got.append((op, {"uuids": [n["node_uuid"] for n in canonical["nodes"]], "plid": compute_pipeline_id(canonical)}))
        else:
            rec = Recorder()
            p = Pipeline(s, trace=rec, logger=Logger(level="CRITICAL"))
            ids = {"uuids": [n["node_uuid"] for n in p.canonical_spec["nodes"]], "plid": compute_pipeline_id(p.canonical_spec)}
            try:
                ctx = ContextType()
                for key in KEYS:
                    ctx.set_value(key, [1.0, 2.0, 3.0] if key in ("seq", "tk", "sk") else 2.0)
                p.process(Payload(None, ctx))
            except BaseException as ex:  # noqa - only pipeline_start is observed
                if isinstance(ex, KeyboardInterrupt):
                    raise
            if rec.starts:
                st = rec.starts[-1]
                ids["run_plid"] = st["pipeline_id"]
                m = st["meta"]
                ids["semid"], ids["cfgid"] = m.get("semantic_id"), m.get("config_id")
            got.append((op, ids))
    return got


HASHSEED_CHILD = r"""
import json, sys
from harness.lib import idgen as G
G.setup()
from harness.lib import components as C
from semantiva.inspection import build_inspection_payload
def unmark(x):
    # JSON has no sets: {"@set": [...]} stands for what YAML's !!set gives
    if isinstance(x, dict) and set(x) == {"@set"}:
        return set(unmark(v) for v in x["@set"])
    if isinstance(x, dict):
        return {k: unmark(v) for k, v in x.items()}
    if isinstance(x, list):
        return [unmark(v) for v in x]
    return x
cfgs = unmark(json.load(sys.stdin))
out = []
for nodes in cfgs:
    for n in nodes:
        if isinstance(n.get("processor"), str) and n["processor"].startswith("@"):
            n["processor"] = getattr(C, n["processor"][1:])
    try:
        p = build_inspection_payload(nodes)
        out.append({"ids": G._payload_ids(p), "required": list(p["required_context_keys"])})
    except Exception as ex:
        out.append({"error": "%s: %s" % (type(ex).__name__, str(ex)[:200])})
print("IDS " + json.dumps(out))
"""


def hashseed_configs():
    """sweeps whose element has several required and several defaulted parameters that no expression binds, several
    from_context variables, several swept parameters: everything that is a SET inside the implementation"""
    many = "@VerifManyParamOperation"
    src = {"processor": "FloatValueDataSource", "parameters": {"value": 1.0}}
    return [
        [src, {"processor": many, "derive": {"parameter_sweep": {"parameters": {"alpha": "t"}, "variables": {"t": [1.0, 2.0]},
                                                                  "collection": "FloatDataCollection"}}}],
        [src, {"processor": many, "derive": {"parameter_sweep": {"parameters": {"alpha": "t + s", "eps": "s"},
                                                                  "variables": {"t": {"from_context": "tk"}, "s": {"from_context": "sk"},
                                                                                "u": {"from_context": "seq"}, "w": [1.0, 2.0]},
                                                                  "mode": "by_position", "broadcast": True,
                                                                  "collection": "FloatDataCollection"}}}],
        [src, {"processor": many, "parameters": {"beta": 1.0, "zeta": 4.0},
               "derive": {"parameter_sweep": {"parameters": {"gamma": "2 * t", "alpha": "t"}, "variables": {"t": {"lo": 0.0, "hi": 1.0, "steps": 3}},
                                              "collection": "FloatDataCollection"}}}],
        [src, {"processor": many}],
        # sweep values that are sets (YAML !!set): their text depends on the interpreter's hash seed
        [src, {"processor": "FloatMultiplyOperation", "derive": {"parameter_sweep": {
            "parameters": {"factor": "t"}, "variables": {"t": [{"@set": ["alpha", "beta", "gamma", "delta"]}, {"@set": ["x", "y", "z"]}]},
            "collection": "FloatDataCollection"}}}],
        # required keys that only differ in case / compare equal after case folding: the reported list has ONE order
        [src, {"processor": "rename:Gain:a"}, {"processor": "rename:gain:b"}, {"processor": "rename:GAIN:c"}, {"processor": "rename:offset:d"},
         {"processor": "rename:stra\u00dfe:e"}, {"processor": "rename:strasse:f"}, {"processor": "rename:STRASSE:g"}],
    ]
