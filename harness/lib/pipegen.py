"""Pipeline descriptors shared by C01/C02/C03/C06/C07/C10: one descriptor yields both the
semantiva node configuration and the Gallina node literal; seeded generator; implementation runner
that canonicalises the outcome."""
from __future__ import annotations

import logging
import math

from harness.core import cq_N, cq_Z, cq_bool, cq_list, cq_nat, cq_opt, cq_pair, cq_str

KEYS = ["value", "factor", "addend", "path", "divisor", "k", "j", "seq", "t_values"]
DOTTED = ["acq.gain", "x.y"]
_ready = [False]


def setup_impl():
    if _ready[0]:
        return
    from semantiva.registry import RegistryProfile, apply_profile, load_extensions
    apply_profile(RegistryProfile())
    load_extensions(["semantiva-examples"])
    logging.disable(logging.CRITICAL)
    _ready[0] = True


# ----- values -----------------------------------------------------------------------
def v_impl(v):
    if isinstance(v, bool):
        raise ValueError("bool")
    if isinstance(v, int):
        return float(v)
    if isinstance(v, list):
        return [v_impl(x) for x in v]
    return v


def v_coq(v):
    if v is None:
        return "VNone"
    if isinstance(v, int):
        return "(VNum %s)" % cq_Z(v)
    if isinstance(v, str):
        return "(VStr %s)" % cq_str(v)
    if isinstance(v, list):
        return "(VList %s)" % cq_list([v_coq(x) for x in v])
    raise ValueError(v)


def canon_val(v):
    """implementation value -> descriptor value (int for integer-valued float) or raise Unsupported."""
    import numpy as np
    if v is None:
        return None
    if isinstance(v, (bool, np.bool_)):
        raise Unsupported("bool")
    if isinstance(v, (float, np.floating)):
        f = float(v)
        if not math.isfinite(f) or f != math.floor(f) or abs(f) >= 2 ** 53:
            raise Unsupported("non-integer float %r" % (v,))
        if f == 0 and math.copysign(1.0, f) < 0:
            raise Unsupported("negative zero (no counterpart in the integer model)")
        return int(f)
    if isinstance(v, (int, np.integer)):
        raise Unsupported("python int in context")
    if isinstance(v, str):
        if any(ord(c) < 32 or ord(c) > 126 for c in v):
            raise Unsupported("non-ascii")
        if "np.float64(" in v:
            raise Unsupported("numpy scalar repr rendered into a string")
        if "-0.0" in v:
            raise Unsupported("negative zero rendered into a string")
        return v
    if isinstance(v, (list, tuple)):
        return [canon_val(x) for x in v]
    if isinstance(v, np.ndarray):
        if v.ndim == 0:
            raise Unsupported("0-d array")
        return [canon_val(x) for x in v.tolist()]
    raise Unsupported(type(v).__name__)


class Unsupported(Exception):
    pass


def ctx_coq(c):
    return cq_list([cq_pair(cq_str(k), v_coq(v)) for k, v in c.items()])


def data_coq(d):
    if d is None:
        return "DNone"
    if isinstance(d, int):
        return "(DF %s)" % cq_Z(d)
    return "(DC %s)" % cq_list([cq_Z(x) for x in d])


# ----- sweep expressions (float constants) --------------------------------------------
EBIN = {"Add": "+", "Sub": "-", "Mult": "*", "FloorDiv": "//", "Mod": "%"}


def e_src(e):
    k = e[0]
    if k == "var":
        return e[1]
    if k == "const":
        return "%d.0" % e[1]
    if k == "un":
        return "(-(%s))" % e_src(e[2])
    if k == "bin":
        return "((%s) %s (%s))" % (e_src(e[2]), EBIN[e[1]], e_src(e[3]))
    if k == "call":
        return "%s(%s)" % (e[1], ", ".join(e_src(a) for a in e[2]))
    raise ValueError(e)


def e_coq(e):
    k = e[0]
    if k == "var":
        return "(Var %s)" % cq_str(e[1])
    if k == "const":
        return "(Const %s)" % cq_N(e[1])
    if k == "un":
        return "(Un USub %s)" % e_coq(e[2])
    if k == "bin":
        return "(Bin %s %s %s)" % (e[1], e_coq(e[2]), e_coq(e[3]))
    if k == "call":
        return "(Call %s %s)" % (cq_str(e[1]), cq_list([e_coq(a) for a in e[2]]))
    raise ValueError(e)


def rand_sweep_expr(rng, vars_, depth=2):
    if depth <= 0 or rng.random() < 0.3:
        return ("var", rng.choice(vars_)) if rng.random() < 0.7 else ("const", rng.randint(0, 3))
    r = rng.random()
    if r < 0.7:
        op = rng.choice(["Add", "Sub", "Mult", "Mult", "Add", "FloorDiv", "Mod"])
        right = rand_sweep_expr(rng, vars_, depth - 1)
        if op in ("FloorDiv", "Mod"):
            right = ("const", rng.randint(1, 3))  # numpy floats from ranges divide by zero to inf: keep divisors constant
        return ("bin", op, rand_sweep_expr(rng, vars_, depth - 1), right)
    if r < 0.8:
        return ("un", "USub", rand_sweep_expr(rng, vars_, depth - 1))
    f = rng.choice(["abs", "min", "max"])
    n = 1 if f == "abs" else 2
    return ("call", f, [rand_sweep_expr(rng, vars_, depth - 1) for _ in range(n)])


# ----- processors ------------------------------------------------------------------------
ELEM = {  # kind -> (impl processor name, coq proc, parameter names, has default)
    "src": ("FloatValueDataSource", "(lib_src false)", ["value"], {}),
    "srcdef": ("FloatValueDataSourceWithDefault", "(lib_src true)", ["value"], {"value": 42}),
    "csrc": ("FloatDataSource", "(lib_const_src 123)", [], {}),
    "psrc": ("FloatPayloadSource", "(lib_const_src 456)", [], {}),
    "mul": ("FloatMultiplyOperation", "(lib_mul false)", ["factor"], {}),
    "muldef": ("FloatMultiplyOperationWithDefault", "(lib_mul true)", ["factor"], {"factor": 2}),
    "add": ("FloatAddOperation", "lib_add", ["addend"], {}),
    "square": ("FloatSquareOperation", "lib_square", [], {}),
    "divide": ("FloatDivideOperation", "lib_divide", ["divisor"], {}),
    "probe": ("FloatCollectValueProbe", "lib_probe", [], {}),
    "sink": ("FloatMockDataSink", "lib_sink", ["path"], {}),
    "sink0": ("FloatDataSink", "lib_sink0", [], {}),
    "psink": ("FloatPayloadSink", "lib_sink0", [], {}),
    "csum": ("FloatCollectionSumOperation", "lib_csum", [], {}),
    "failing": ("@VerifFailingOperation", "lib_failing", [], {}),
    "copyprobe": ("CopyDataProbe", "lib_copyprobe", [], {}),      # BaseDataType in, passes any data through
}
SOURCES = ("src", "srcdef", "csrc", "psrc")
F2F = ("mul", "muldef", "add", "square", "divide", "failing")
PROBES = ("probe",)


def _cls(name):
    from harness.lib import components
    return getattr(components, name)


def node_impl(n):
    """descriptor -> semantiva node configuration dict"""
    k = n["k"]
    cfg = {a: v_impl(b) for a, b in n.get("cfg", {}).items()}
    out = {}
    if k in ELEM:
        name = ELEM[k][0]
        out["processor"] = _cls(name[1:]) if name.startswith("@") else name
    elif k == "ctxwrite":
        from harness.lib.components import make_ctxwrite
        out["processor"] = make_ctxwrite(n["key"])
    elif k == "badwrite":
        from harness.lib.components import make_badwrite
        out["processor"] = make_badwrite(n["key"])
    elif k == "rename":
        out["processor"] = "rename:%s:%s" % (n["a"], n["b"])
    elif k == "delete":
        out["processor"] = "delete:%s" % n["a"]
    elif k == "template":
        out["processor"] = 'template:"%s":%s' % ("".join(s if t == "lit" else "{%s}" % s for t, s in n["segs"]), n["out"])
    elif k == "slice":
        out["processor"] = "slice:%s:FloatDataCollection" % ELEM[n["elem"]][0]
    elif k == "sweep":
        out["processor"] = ELEM[n["elem"]][0]
        vars_ = {}
        for name, spec in n["vars"]:
            if spec[0] == "seq":
                vars_[name] = {"values": v_impl(spec[1])}
            elif spec[0] == "rawlist":
                vars_[name] = v_impl(spec[1])
            elif spec[0] == "range":
                vars_[name] = {"lo": float(spec[1]), "hi": float(spec[2]), "steps": spec[3], "endpoint": spec[4]}
            else:
                vars_[name] = {"from_context": spec[1]}
        ps = {"parameters": {name: e_src(e) for name, e in n["exprs"]}, "variables": vars_,
              "mode": n["mode"], "broadcast": n["broadcast"]}
        if n["elem"] not in PROBES:
            ps["collection"] = "FloatDataCollection"
        out["derive"] = {"parameter_sweep": ps}
    else:
        raise ValueError(k)
    if cfg:
        out["parameters"] = cfg
    if n.get("ckey") is not None:
        out["context_key"] = n["ckey"]
    if n.get("proc_name"):
        out["processor"] = n["proc_name"]        # another spelling of the same processor (e.g. `package.module:Class`)
    return out


def node_coq(n, probe_pub="probe_sweep_publishes", two_flag=None):
    k = n["k"]
    cfg = cq_list([cq_pair(cq_str(a), v_coq(b)) for a, b in n.get("cfg", {}).items()])
    ck = cq_opt(n.get("ckey"), cq_str)
    if k in ELEM:
        p = ELEM[k][1]
    elif k == "ctxwrite":
        p = "(lib_ctxwrite %s)" % cq_str(n["key"])
    elif k == "badwrite":
        p = "(lib_badwrite %s)" % cq_str(n["key"])
    elif k == "rename":
        p = "(lib_rename none_value_is_noop %s %s)" % (cq_str(n["a"]), cq_str(n["b"]))
    elif k == "delete":
        p = "(lib_delete none_value_is_noop %s)" % cq_str(n["a"])
    elif k == "template":
        p = "(lib_template %s %s)" % (cq_list(["(%s %s)" % ("Lit" if t == "lit" else "Hole", cq_str(s)) for t, s in n["segs"]]), cq_str(n["out"]))
    elif k == "slice":
        p = "(%s %s)" % ("slice_probe" if n["elem"] in PROBES else "slice_op", ELEM[n["elem"]][1])
    elif k == "sweep":
        vs = []
        for name, spec in n["vars"]:
            if spec[0] == "rawlist" and two_flag is not None:
                s = "(convert_var %s (RawList %s))" % (two_flag, cq_list([v_coq(x) for x in spec[1]]))
            elif spec[0] in ("seq", "rawlist"):
                s = "(VSeq %s)" % cq_list([v_coq(x) for x in spec[1]])
            elif spec[0] == "range":
                s = "(VRange %s %s %s %s)" % (cq_Z(spec[1]), cq_Z(spec[2]), cq_nat(spec[3]), cq_bool(spec[4]))
            else:
                s = "(VFromCtx %s)" % cq_str(spec[1])
            vs.append(cq_pair(cq_str(name), s))
        sw = "(mkSweep %s %s %s %s)" % (cq_list(vs), cq_list([cq_pair(cq_str(a), e_coq(e)) for a, e in n["exprs"]]),
                                        "Comb" if n["mode"] == "combinatorial" else "ByPos", cq_bool(n["broadcast"]))
        p = "(sweep_proc %s %s %s)" % (probe_pub, ELEM[n["elem"]][1], sw)
    else:
        raise ValueError(k)
    return "(mkNode %s %s %s)" % (p, cfg, ck)


# ----- running the implementation -------------------------------------------------------------
def exc_class(exc):
    """Exception class name; third-party subclasses (numpy's UFuncTypeError...) map to their builtin base."""
    for c in type(exc).__mro__:
        if c.__module__ == "builtins" or c.__module__.startswith(("semantiva", "harness")):
            return c.__name__
    return type(exc).__name__


def classify(exc):
    msg = str(exc)
    cls = exc_class(exc)
    if cls == "TypeError" and "Incompatible data type for Node" in msg:
        return ("SGate", cls)
    if cls == "KeyError" and "Unable to resolve parameter" in msg:
        return ("SResolve", cls)
    if cls == "KeyError" and "Invalid context key" in msg:
        return ("SWrite", cls)
    if cls == "KeyError" and ("Invalid suppressed key" in msg or "not found in context" in msg):
        return ("SDelete", cls)
    return ("SProcessor", cls)


def make_data(d):
    from semantiva.examples.test_utils import FloatDataCollection, FloatDataType
    if d is None:
        return None
    if isinstance(d, int):
        return FloatDataType(float(d))
    return FloatDataCollection.from_list([FloatDataType(float(x)) for x in d])


def canon_data(d):
    tn = type(d).__name__
    if d is None or tn == "NoDataType":
        return None
    if tn == "FloatDataType":
        return canon_val(d.data)
    if tn == "FloatDataCollection":
        return [canon_val(x.data) for x in d]
    raise Unsupported("data " + tn)


class StartLog:
    """Counts node starts by wrapping _PipelineNode.process (harness side; /repo untouched)."""

    def __enter__(self):
        from semantiva.pipeline.nodes.nodes import _PipelineNode
        from semantiva.pipeline.payload_processors import _PayloadProcessor
        self.started = []
        self._orig = _PayloadProcessor.process
        log = self.started
        orig = self._orig

        def process(node, payload=None):
            if isinstance(node, _PipelineNode):
                log.append(type(node).__name__)
            return orig(node, payload)
        _PayloadProcessor.process = process
        self._cls = _PayloadProcessor
        return self

    def __exit__(self, *a):
        self._cls.process = self._orig


def via_yaml(cfgs):
    """Round-trip the node configurations through YAML text and the real loader (glue: string shorthands,
    scalar parsing, derive blocks).  Returns the loaded node list, or None when a processor is a class object."""
    import os
    import tempfile
    import yaml
    from semantiva.configurations.load_pipeline_from_yaml import load_pipeline_from_yaml
    if any(not isinstance(c.get("processor"), str) for c in cfgs):
        return None
    text = yaml.safe_dump({"pipeline": {"nodes": cfgs}}, sort_keys=False)
    fd, path = tempfile.mkstemp(suffix=".yaml", prefix="verif_c01_")
    try:
        with os.fdopen(fd, "w") as f:
            f.write(text)
        return list(load_pipeline_from_yaml(path).nodes)
    finally:
        os.remove(path)


def run_impl(nodes, data0, ctx0, trace=None, keep=None, yaml_path=False):
    """-> ('done', data, ctx) | ('failed', idx, stage, cls) | ('cfailed', idx, cls) | ('rejected', cls) | ('unsupported', why)"""
    setup_impl()
    from semantiva.context_processors import ContextType
    from semantiva.pipeline import Payload, Pipeline
    cfgs = [node_impl(n) for n in nodes]
    try:
        if yaml_path:
            loaded = via_yaml(cfgs)
            if loaded is not None:
                cfgs = loaded
                if keep is not None:
                    keep["via_yaml"] = True
        pipe = Pipeline(cfgs, trace=trace)
    except Exception as ex:  # loader rejects the configuration
        return ("rejected", type(ex).__name__)
    if keep is not None:
        keep["pipeline"] = pipe
    ctx = ContextType({k: v_impl(v) for k, v in ctx0.items()})
    with StartLog() as log:
        try:
            out = pipe.process(Payload(make_data(data0), ctx))
        except Exception as ex:
            if keep is not None:
                keep["exception"] = ex
            if not log.started:
                idx = first_unconstructible(pipe)
                if idx is not None:
                    return ("cfailed", idx, exc_class(ex))
                return ("failed", 0, "SConstruct", exc_class(ex))
            st, cls = classify(ex)
            return ("failed", len(log.started) - 1, st, cls)
    try:
        return ("done", canon_data(out.data), {k: canon_val(v) for k, v in out.context.to_dict().items()})
    except Unsupported as u:
        return ("unsupported", str(u))


def first_unconstructible(pipe):
    from semantiva.execution.orchestrator.orchestrator import LocalSemantivaOrchestrator
    orch = LocalSemantivaOrchestrator()
    for i, nd in enumerate(pipe.resolved_spec):
        try:
            orch._instantiate_nodes([nd], pipe.logger)
        except Exception:
            return i
    return None


def expect_coq(o):
    if o[0] == "done":
        return "(XDone %s %s)" % (data_coq(o[1]), ctx_coq(o[2]))
    if o[0] == "failed":
        return "(XFailed %s %s %s)" % (cq_nat(o[1]), o[2], cq_str(o[3]))
    if o[0] == "cfailed":
        return "(XCFailed %s %s)" % (cq_nat(o[1]), cq_str(o[2]))
    raise ValueError(o)


# ----- generator ---------------------------------------------------------------------------------
def gen_value(rng, kind="num"):
    if kind == "num":
        return rng.randint(-3, 5)
    if kind == "any":
        r = rng.random()
        return rng.randint(-3, 5) if r < 0.7 else ("s" if r < 0.85 else None)
    if kind == "seq":
        return [rng.randint(-2, 4) for _ in range(rng.randint(1, 3))]


def gen_ctx(rng, p=0.2, need=None):
    c = {}
    for k, v in (need or {}).items():
        if rng.random() < 0.9:
            c[k] = v
    for k in KEYS:
        if k not in c and rng.random() < p:
            if k in ("seq", "t_values"):
                c[k] = gen_value(rng, "seq") if rng.random() < 0.85 else rng.choice([[], "s", 3])
            elif k == "path":
                c[k] = rng.choice(["p.txt", 1, None])
            elif k == "divisor":
                c[k] = rng.choice([1, -1, 0, "s", None])
            else:
                c[k] = gen_value(rng, "any")
    return c


def place_param(rng, n, name, stats, need=None, has_default=False):
    """Choose a placement for parameter `name`: node config / initial context / left to an earlier
    node, the default or nothing (missing)."""
    r = rng.random()
    good = "p.txt" if name == "path" else (rng.choice([1, -1, 1, 0]) if name == "divisor" else gen_value(rng, "num"))
    if r < 0.40:
        n.setdefault("cfg", {})[name] = good if rng.random() < 0.93 else gen_value(rng, "any")
        stats["placement:config"] = stats.get("placement:config", 0) + 1
    elif r < 0.75 and need is not None:
        need.setdefault(name, good if rng.random() < 0.93 else gen_value(rng, "any"))
        stats["placement:initial-context"] = stats.get("placement:initial-context", 0) + 1
    elif has_default:
        stats["placement:default-or-earlier-node"] = stats.get("placement:default-or-earlier-node", 0) + 1
    else:
        stats["placement:earlier-node-or-missing"] = stats.get("placement:earlier-node-or-missing", 0) + 1


def gen_sweep(rng, elem, stats, need=None):
    nv = rng.choice([1, 1, 2, 2, 3])
    # (mixed-case names and a digit: the documented order of a combinatorial sweep is the plain sorted() order of the names)
    names = rng.sample(["t", "u", "w", "s", "B", "Z", "t2", "a"], nv)
    vars_ = []
    mode = rng.choice(["combinatorial", "by_position"])
    broadcast = rng.random() < 0.4
    L = rng.randint(1, 4)
    for v in names:
        r = rng.random()
        ln = L if (mode == "by_position" and rng.random() < 0.75) else rng.randint(1, 4)
        if r < 0.5:
            vars_.append((v, ("seq", [rng.randint(-2, 4) for _ in range(ln)])))
        elif r < 0.8:
            lo = rng.randint(-2, 3)
            endpoint = rng.random() < 0.6
            step = rng.randint(0, 2)
            div = (ln - 1) if endpoint else ln
            vars_.append((v, ("range", lo, lo + step * div if div else lo + rng.randint(0, 2), ln, endpoint)))
        else:
            used = [sp[1] for _, sp in vars_ if sp[0] == "ctx"]
            key = rng.choice([k for k in ["seq", "t_values", "k"] if k not in used] or ["seq"])
            if key in used:
                vars_.append((v, ("seq", [rng.randint(-2, 4) for _ in range(ln)])))
                continue
            vars_.append((v, ("ctx", key)))
            if need is not None and rng.random() < 0.8:
                need.setdefault(key, [rng.randint(-2, 4) for _ in range(ln)])
    eparams = ELEM[elem][2]
    exprs = []
    for pn in eparams:
        if rng.random() < 0.65:
            exprs.append((pn, rand_sweep_expr(rng, names)))
    n = {"k": "sweep", "elem": elem, "vars": vars_, "exprs": exprs, "mode": mode, "broadcast": broadcast}
    for pn in eparams:
        if pn not in dict(exprs):
            place_param(rng, n, pn, stats, need, pn in ELEM[elem][3])
    if elem in PROBES:
        n["ckey"] = rng.choice(KEYS)
    stats["sweep:" + elem] = stats.get("sweep:" + elem, 0) + 1
    return n


def gen_pipeline(rng, stats, maxlen=8, malformed=0.0, extra=False):
    ln = rng.randint(1, maxlen)
    nodes = []
    need = {}
    avail = set()
    cur = rng.choice([None, None, None, "F", "C"])  # type of initial data
    data0 = None if cur is None else (rng.randint(-3, 5) if cur == "F" else [rng.randint(-2, 3) for _ in range(rng.randint(0, 3))])
    for i in range(ln):
        r = rng.random()
        wrong = rng.random() < 0.03  # deliberately ignore the current type
        t = cur if not wrong else rng.choice([None, "F", "C"])
        if t is None and r < 0.95:
            if rng.random() < 0.3:
                n = gen_sweep(rng, rng.choice(["src", "srcdef"]), stats, need)
                cur = "C"
            else:
                k = rng.choice(["src", "src", "srcdef", "csrc", "psrc"])
                n = {"k": k}
                for pn in ELEM[k][2]:
                    place_param(rng, n, pn, stats, need, pn in ELEM[n.get('elem', n['k'])][3])
                cur = "F"
        elif r < 0.30:
            # context-only nodes
            c = rng.choice(["rename", "delete", "template", "template"])

            def pick(dotted_ok=False):
                if dotted_ok and rng.random() < 0.14:       # a key containing a dot (legal context key; not usable as a template hole)
                    k = rng.choice(DOTTED)
                    if k not in avail and rng.random() < 0.8:
                        need[k] = gen_value(rng, "num")
                        avail.add(k)
                    return k
                av = sorted(k for k in avail if k in KEYS[:7])
                if av and rng.random() < 0.85:
                    return rng.choice(av)
                k = rng.choice(KEYS[:7])
                if k not in avail and rng.random() < 0.7:
                    need[k] = gen_value(rng, "num")
                    avail.add(k)
                return k
            if c == "rename":
                a = pick(True)
                b = rng.choice([k for k in KEYS + DOTTED if k != a]) if rng.random() < 0.92 else a
                n = {"k": "rename", "a": a, "b": b}
                if rng.random() < 0.12:
                    n["cfg"] = {a: gen_value(rng, "any")}
            elif c == "delete":
                a = pick(True)
                n = {"k": "delete", "a": a}
                if rng.random() < 0.12:
                    n["cfg"] = {a: gen_value(rng, "any")}
            else:
                hs = [pick() for _ in range(rng.randint(1, 2))]
                segs = [("lit", "t_")]
                for h in hs:
                    segs += [("hole", h), ("lit", "_")]
                n = {"k": "template", "segs": segs, "out": rng.choice(KEYS)}
        elif t == "F" or (t is None):
            c = rng.choice(["mul", "mul", "muldef", "add", "square", "divide", "probe", "probe", "sink", "sink0", "psink",
                            "ctxwrite", "ctxwrite", "sweepop", "sweepop", "sweepprobe", "mul", "add", "muldef", "probe", "square"]
                           + (["badwrite", "failing", "src"] if rng.random() < 0.25 else []))
            if c in ("mul", "muldef", "add", "divide", "sink"):
                n = {"k": c}
                for pn in ELEM[c][2]:
                    place_param(rng, n, pn, stats, need, pn in ELEM[n.get('elem', n['k'])][3])
                if c == "divide" and "cfg" in n and isinstance(n["cfg"].get("divisor"), int):
                    n["cfg"]["divisor"] = rng.choice([1, -1, 0, 1])
            elif c in ("square", "sink0", "psink", "failing"):
                n = {"k": c}
            elif c == "probe":
                n = {"k": "probe", "ckey": rng.choice(KEYS)} if not (extra and rng.random() < 0.3) else {"k": "copyprobe", "ckey": rng.choice(KEYS)}
            elif c == "ctxwrite":
                n = {"k": "ctxwrite", "key": rng.choice(KEYS)}
            elif c == "badwrite":
                n = {"k": "badwrite", "key": rng.choice(KEYS)}
            elif c == "sweepop":
                n = gen_sweep(rng, rng.choice(["mul", "muldef", "add"]), stats, need)
                cur = "C" if t == "F" else cur
            elif c == "sweepprobe":
                n = gen_sweep(rng, "probe", stats, need)
            else:
                n = {"k": "src"}
                place_param(rng, n, "value", stats, need, False)
        else:  # collection
            c = rng.choice(["smul", "smul", "sadd", "ssq", "sprobe", "sprobe", "csum", "csum", "smuldef"]
                           + (["copyprobe", "copyprobe"] if extra else []))
            if c == "csum":
                n = {"k": "csum"}
                cur = "F"
            elif c == "sprobe":
                n = {"k": "slice", "elem": "probe", "ckey": rng.choice(KEYS)}
            elif c == "copyprobe":
                n = {"k": "copyprobe", "ckey": rng.choice(KEYS)}
            else:
                e = {"smul": "mul", "sadd": "add", "ssq": "square", "smuldef": "muldef"}[c]
                n = {"k": "slice", "elem": e}
                for pn in ELEM[e][2]:
                    place_param(rng, n, pn, stats, need, pn in ELEM[n.get('elem', n['k'])][3])
        if malformed and rng.random() < malformed:
            m = rng.random()
            if m < 0.5 and n["k"] in ELEM and n["k"] not in ("failing",):
                n.setdefault("cfg", {})["bogus"] = 1
            elif m < 0.8 and n["k"] == "probe":
                n["ckey"] = None
        avail |= set(need)
        if n["k"] == "rename":
            avail.discard(n["a"]); avail.add(n["b"])
        elif n["k"] == "delete":
            avail.discard(n["a"])
        elif n["k"] == "template":
            avail.add(n["out"])
        elif n["k"] == "ctxwrite":
            avail.add(n["key"])
        if n.get("ckey"):
            avail.add(n["ckey"])
        stats["node:" + n["k"]] = stats.get("node:" + n["k"], 0) + 1
        nodes.append(n)
    return nodes, data0, need


def node_impl_repr(n):
    """JSON-able rendering of the semantiva node configuration."""
    c = node_impl(n)
    if not isinstance(c.get("processor"), str):
        c = dict(c)
        c["processor"] = "<class %s>" % c["processor"].__name__
    return c
