"""Shared trace machinery of C06 / C07 / C10.

* capture: run one pipeline descriptor (harness.lib.pipegen) with a JsonlTraceDriver in file or
  directory mode at a given detail level; observe what is on disk and whether the handle is closed at
  the moment Pipeline.process returns or raises (BaseException included);
* the harness's own execution log of the same run (context / data around every node, parameter values
  and channels actually used, UTC time bracket) taken by wrapping _PayloadProcessor.process and the
  node module's resolve_runtime_value -- /repo is not modified;
* schema validation: jsonschema Draft202012Validator + referencing.Registry of the shipped schemas,
  record_type -> schema through the shipped registry file;
* normalisation (documented volatile fields dropped) and the record skeleton compared inside Coq.
"""
from __future__ import annotations

import datetime as _dt
import glob
import json
import os
import shutil
import tempfile
import time

from harness import core
from harness.core import cq_bool, cq_list, cq_nat, cq_opt, cq_pair, cq_str
from harness.lib import pipegen as pg

DETAILS = ["hash", "repr", "context", "all"]
MODES = ["file", "directory"]
VOLATILE_TOP = ("run_id", "timestamp", "seq")
BASE_ONLY = ("KeyboardInterrupt", "SystemExit", "GeneratorExit", "VerifAbort")


# ----- descriptors: pipegen's plus an interrupting operation and a sweep over YAML dates ---------------
def node_impl(n):
    k = n["k"]
    if k == "interrupt":
        from harness.lib import components as _c
        if n.get("nomsg"):
            return {"processor": _c.VerifInterruptNoMessageOperation}
        return {"processor": {"KeyboardInterrupt": _c.VerifInterruptOperation, "SystemExit": _c.VerifSystemExitOperation,
                              "VerifAbort": _c.VerifCustomAbortOperation}[n.get("exc", "KeyboardInterrupt")]}
    if k == "failing0":
        from harness.lib import components as _c
        return {"processor": _c.VerifFailingNoMessageOperation}
    if k == "raising":
        from harness.lib import components as _c
        return {"processor": _c.make_raising(n["exc"], n["arg"])}
    if k == "failmsg":
        from harness.lib import components as _c
        return {"processor": _c.make_failing_with(n["msg"])}
    if k == "wvalue":
        from harness.lib import components as _c
        return {"processor": _c.make_value_writer(n["value"], n.get("key", "w"))}
    if k == "raising0":
        from harness.lib import components as _c
        return {"processor": _c.make_raising_noargs(n["exc"])}
    if k == "inplace":
        from harness.lib import components as _c
        return {"processor": _c.VerifScaleInPlaceOperation}
    if k == "longrewrite":
        from harness.lib import components as _c
        return {"processor": _c.make_long_rewriter(n.get("key", "label"))}
    if k == "note":
        from harness.lib import components as _c
        return {"processor": _c.VerifNoteOperation, "parameters": {"note": n["note"]}} if "note" in n else {"processor": _c.VerifNoteOperation}
    if k in ("streamsrc", "streamsum", "sumitems"):
        from harness.lib import components as _c
        return {"processor": {"streamsrc": _c.VerifStreamSource, "streamsum": _c.VerifStreamSum, "sumitems": _c.VerifSumItems}[k]}
    if k == "baddesc":
        # a descriptor-valued parameter ({"class", "kwargs"}) whose instantiation fails when the run materialises it
        return {"processor": "FloatMultiplyOperation",
                "parameters": {"factor": {"class": "builtins.float", "kwargs": {"no_such_argument": 1}}}}
    if k == "datesweep":
        # what yaml.safe_load gives for `variables: {t: [2020-01-01, 2020-01-02]}`
        vals = [_dt.date(2020, 1, 1 + i) for i in range(n["n"])]
        return {"processor": "FloatValueDataSource",
                "derive": {"parameter_sweep": {"parameters": {"value": "%d.0" % n["value"]}, "variables": {"t": vals},
                                               "collection": "FloatDataCollection"}}}
    return pg.node_impl(n)


def node_coq(n):
    k = n["k"]
    if k in ("streamsrc", "streamsum", "sumitems"):
        raise pg.Unsupported("one-shot iterator component (direct oracle only)")
    if k == "baddesc":
        raise pg.Unsupported("descriptor-valued parameter (direct oracle only)")
    if k in ("failmsg", "note", "raising", "wvalue", "raising0", "inplace", "longrewrite"):
        raise pg.Unsupported("unusual-string / unusual-exception / unusual-value component (direct oracle only)")
    if k == "failing0":
        return "(mkNode lib_failing [] None)"     # the model's error carries the class, not the message
    if k == "interrupt":
        return "(mkNode (lib_abort %s) [] None)" % pg.cq_str(n.get("exc", "KeyboardInterrupt"))
    if k == "datesweep":
        # the element values do not depend on t: the model only needs the number of steps
        return pg.node_coq({"k": "sweep", "elem": "src", "vars": [("t", ("seq", list(range(n["n"]))))],
                            "exprs": [("value", ("const", n["value"]))], "mode": "combinatorial", "broadcast": False})
    return pg.node_coq(n)


def node_meta(n):
    """preprocessor metadata class of a node: none / JSON-safe / not JSON-serialisable"""
    if n["k"] == "datesweep":
        return "MOpaque"
    if n["k"] == "sweep":
        return "MJson"
    return "MNone"


def node_repr(n):
    if n["k"] in ("interrupt", "datesweep", "streamsrc", "streamsum", "sumitems", "baddesc", "failing0", "failmsg", "note", "raising", "wvalue", "raising0", "inplace", "longrewrite"):
        c = node_impl(n)
        c = json.loads(json.dumps(c, default=lambda o: getattr(o, "__name__", None) or str(o)))
        return c
    return pg.node_impl_repr(n)


# ----- schemas ------------------------------------------------------------------------------------------
_val = {}


def schema_dir():
    return os.path.join(core.REPO, "semantiva", "trace", "schema")


def validators():
    if _val:
        return _val
    from jsonschema import Draft202012Validator
    from referencing import Registry, Resource
    docs = {}
    for p in sorted(glob.glob(os.path.join(schema_dir(), "*.schema.json"))):
        d = json.load(open(p))
        docs[d["$id"]] = d
    reg = Registry().with_resources([(i, Resource.from_contents(d)) for i, d in docs.items()])
    table = json.load(open(os.path.join(schema_dir(), "trace_registry_v1.json")))["records"]
    for rt, sid in table.items():
        _val[rt] = Draft202012Validator(docs[sid], registry=reg)
    return _val


def schema_errors(rec):
    """-> list of short stable strings 'record_type:keyword:path' (empty = valid)"""
    rt = rec.get("record_type") if isinstance(rec, dict) else None
    v = validators().get(rt)
    if v is None:
        return ["%s:unknown-record-type" % rt]
    out = []
    for e in v.iter_errors(rec):
        leaf = e
        while leaf.context:  # allOf / anyOf: descend to the first concrete error
            leaf = leaf.context[0]
        what = leaf.validator
        detail = ""
        if what == "required":
            missing = [r for r in leaf.validator_value if r not in leaf.instance]
            detail = ",".join(missing)
        out.append("%s:%s:%s%s" % (rt, what, "/".join(str(x) for x in leaf.absolute_path), (":" + detail) if detail else ""))
    return sorted(set(out))


# ----- the harness's own execution log ------------------------------------------------------------------
class ExecLog:
    """Wraps node.process and the node module's resolve_runtime_value while a pipeline runs."""

    def __enter__(self):
        from semantiva.pipeline.nodes import nodes as nodes_mod
        from semantiva.pipeline.nodes.nodes import _PipelineNode
        from semantiva.pipeline.payload_processors import _PayloadProcessor
        self.entries = []
        self._pp = _PayloadProcessor
        self._orig_process = _PayloadProcessor.process
        self._nodes_mod = nodes_mod
        self._orig_resolve = nodes_mod.resolve_runtime_value
        entries = self.entries
        orig_process = self._orig_process
        orig_resolve = self._orig_resolve
        cur = []

        def snap(ctx):
            try:
                return dict(ctx.to_dict())
            except Exception:
                return dict(ctx) if isinstance(ctx, dict) else {}

        def data_key(v):
            """content of a payload AT THIS MOMENT (a processor may change the object in place later)"""
            tn = type(v).__name__
            try:
                if tn == "FloatDataType":
                    return "F:" + repr(float(v.data))
                if tn == "FloatDataCollection":
                    return "C:" + repr([float(x.data) for x in v])
            except Exception:  # noqa
                pass
            return tn

        def process(node, payload=None):
            if not isinstance(node, _PipelineNode) or payload is None:
                return orig_process(node, payload)
            e = {"node_class": type(node).__name__, "data_pre_key": data_key(payload.data), "data_post_key": None,
                 "proc_ref": "%s.%s" % (type(node.processor).__module__, type(node.processor).__qualname__),
                 "ctx_pre": snap(payload.context), "data_pre": payload.data, "params": [], "t0": time.time(),
                 "exc": None, "ctx_post": None, "data_post": None, "ctx_obj": payload.context}
            entries.append(e)
            cur.append(e)
            try:
                out = orig_process(node, payload)
                e["ctx_post"] = snap(out.context)
                e["data_post"] = out.data
                e["data_post_key"] = data_key(out.data)
                return out
            except BaseException as ex:
                e["exc"] = ex
                e["ctx_post"] = snap(payload.context)
                e["data_post"] = payload.data
                e["data_post_key"] = data_key(payload.data)
                raise
            finally:
                e["t1"] = time.time()
                cur.pop()

        def resolve(*, name, processor_cls, processor_config, context):
            if name in processor_config:
                ch = "node"
            elif name in context.keys():
                ch = "context"
            else:
                ch = "default"
            try:
                v = orig_resolve(name=name, processor_cls=processor_cls, processor_config=processor_config, context=context)
            except BaseException:
                if cur:
                    cur[-1]["params"].append((name, "unresolved", None))
                raise
            if cur:
                cur[-1]["params"].append((name, ch, v))
            return v

        _PayloadProcessor.process = process
        nodes_mod.resolve_runtime_value = resolve
        return self

    def __exit__(self, *a):
        self._pp.process = self._orig_process
        self._nodes_mod.resolve_runtime_value = self._orig_resolve


# ----- one run ---------------------------------------------------------------------------------------------
def make_pipeline(nodes, trace=None):
    pg.setup_impl()
    from semantiva.pipeline import Pipeline
    return Pipeline([node_impl(n) for n in nodes], trace=trace)


def make_payload(data0, ctx0):
    from semantiva.context_processors import ContextType
    from semantiva.data_types import NoDataType
    from semantiva.pipeline import Payload
    d = NoDataType() if data0 is None else pg.make_data(data0)
    return Payload(d, ContextType({k: pg.v_impl(v) for k, v in ctx0.items()}))


def outcome_of(pipe, log, result, exc):
    """same canonical outcomes as pipegen.run_impl; BaseException-class aborts included"""
    if exc is None:
        try:
            return ("done", pg.canon_data(result.data), {k: pg.canon_val(v) for k, v in result.context.to_dict().items()})
        except pg.Unsupported as u:
            return ("unsupported", str(u))
    started = len(log.entries)
    last = log.entries[-1] if log.entries else None
    if last is None or last["exc"] is None:
        # raised outside any node: construction, or a trace-side operation
        idx = pg.first_unconstructible(pipe)
        if idx is not None and started == 0:
            return ("cfailed", idx, pg.exc_class(exc))
        return ("tfailed", max(started - 1, 0), pg.exc_class(exc))
    st, cls = pg.classify(exc)
    if last["exc"] is not exc:
        return ("tfailed", started - 1, pg.exc_class(exc))
    return ("failed", started - 1, st, cls)


def run_plain(nodes, data0, ctx0, pipe=None):
    """untraced run -> (outcome, exception or None, log)"""
    pipe = pipe or make_pipeline(nodes)
    result = exc = None
    with ExecLog() as log:
        try:
            result = pipe.process(make_payload(data0, ctx0))
        except BaseException as ex:  # noqa: KeyboardInterrupt is one of the injected failure kinds
            exc = ex
    return outcome_of(pipe, log, result, exc), exc, log


class Traced:
    pass


_dir_names = [0]


def run_traced(nodes, data0, ctx0, detail="hash", mode="file", pipe=None, driver=None, path=None, keep_dir=False, run_metadata=None):
    """Traced run.  Observes, at the moment process() returns or raises: driver._file, bytes on disk;
    then forces the handle shut and reads what was emitted."""
    pg.setup_impl()
    from semantiva.trace.drivers.jsonl import JsonlTraceDriver
    r = Traced()
    own_dir = None
    if driver is None:
        own_dir = tempfile.mkdtemp(prefix="verif_trace_")
        if mode == "file":
            path = os.path.join(own_dir, "t.ser.jsonl")
        else:
            # directory output: a directory that does not exist yet, one that exists, and existing ones whose name
            # contains a dot (a version, a date) -- rotating, so every caller of the directory mode sees all of them
            _dir_names[0] += 1
            name, make = [("traces", False), ("traces_here", True), ("traces.v2", True), ("2026.09.30", True)][_dir_names[0] % 4]
            path = os.path.join(own_dir, name)
            if make:
                os.makedirs(path)
        driver = JsonlTraceDriver(path, detail=detail)
    r.driver, r.path, r.detail, r.mode = driver, path, detail, mode
    pipe = pipe or make_pipeline(nodes, trace=driver)
    r.pipe = pipe
    r.canonical_ids = [n["node_uuid"] for n in pipe.canonical_spec.get("nodes", [])]
    r.canonical_edges = [(e["source"], e["target"]) for e in pipe.canonical_spec.get("edges", [])]
    before = _disk(path, mode)
    result = exc = None
    r.t0 = time.time()
    with ExecLog() as log:
        try:
            if run_metadata is not None:
                pipe.set_run_metadata(run_metadata)
            result = pipe.process(make_payload(data0, ctx0))
        except BaseException as ex:  # noqa
            exc = ex
    r.t1 = time.time()
    r.handle_open = driver._file is not None
    at_return = _disk(path, mode)
    if driver._file is not None:
        try:
            driver._file.flush()
            driver._file.close()
        except Exception:
            pass
        driver._file = None
    emitted = _disk(path, mode)
    r.lines_at_return = at_return[len(before):]
    r.lines = emitted[len(before):]
    r.flushed_all = (r.lines_at_return == r.lines)
    r.records = []
    r.bad_json = 0
    for ln in r.lines:
        try:
            r.records.append(json.loads(ln))
        except Exception:
            r.bad_json += 1
            r.records.append({"record_type": None})
    r.log, r.exc, r.result = log, exc, result
    r.outcome = outcome_of(pipe, log, result, exc)
    r.own_dir = own_dir
    if own_dir and not keep_dir:
        shutil.rmtree(own_dir, ignore_errors=True)
        r.own_dir = None
    return r


def _disk(path, mode):
    files = [path] if mode == "file" else sorted(glob.glob(os.path.join(path, "*.ser.jsonl")), key=os.path.getmtime)
    out = []
    for f in files:
        if os.path.exists(f):
            with open(f, encoding="utf-8") as fh:
                out += fh.read().splitlines()
    return out


# ----- normalisation (documented volatile fields: run id, timestamps, durations, sequence numbers) ---------
def normalise(records):
    out = []
    for rec in records:
        r = json.loads(json.dumps(rec))
        for k in VOLATILE_TOP:
            r.pop(k, None)
        if isinstance(r.get("identity"), dict):
            r["identity"].pop("run_id", None)
        if isinstance(r.get("timing"), dict):
            r["timing"] = sorted(r["timing"].keys())
        out.append(r)
    return out


def first_diff(a, b, path=""):
    """path of the first difference between two JSON values (None when equal)"""
    if type(a) is not type(b):
        return path or "/"
    if isinstance(a, dict):
        for k in sorted(set(a) | set(b)):
            if k not in a or k not in b:
                return "%s/%s" % (path, k)
            d = first_diff(a[k], b[k], "%s/%s" % (path, k))
            if d:
                return d
        return None
    if isinstance(a, list):
        if len(a) != len(b):
            return path + "/#len"
        for i, (x, y) in enumerate(zip(a, b)):
            d = first_diff(x, y, "%s/%d" % (path, i))
            if d:
                return d
        return None
    if isinstance(a, float) and a != a and b != b:
        return None             # NaN recorded twice is the same record content
    return None if a == b else (path or "/")


def generic_path(p):
    """drop list indices / uuids from a diff path so that it is a stable signature component"""
    parts = [x for x in (p or "").split("/") if x and not x.isdigit()]
    return "/".join("*" if len(x) == 36 and x.count("-") == 4 else x for x in parts)


# ----- well-formedness predicates computed from the harness's own log (direct oracle of C06) ---------------
def bracket_problems(r):
    """-> list of (signature-suffix, text) about the emitted stream of one traced run"""
    probs = []
    recs = r.records
    types = [x.get("record_type") for x in recs]
    started = len(r.log.entries)
    returned = r.exc is None
    if r.bad_json:
        probs.append(("line-not-json", "%d emitted line(s) are not JSON" % r.bad_json))
    if not types or types[0] != "pipeline_start" or types.count("pipeline_start") != 1:
        probs.append(("no-single-pipeline_start", "record types %s" % types))
    if types.count("pipeline_end") != 1 or types[-1] != "pipeline_end":
        probs.append(("no-pipeline_end", "record types %s" % types))
    sers = [x for x in recs if x.get("record_type") == "ser"]
    if any(t not in ("pipeline_start", "ser", "pipeline_end") for t in types):
        probs.append(("foreign-record", "record types %s" % types))
    if len(sers) != started:
        probs.append(("ser-count", "%d node(s) started, %d SER(s) emitted" % (started, len(sers))))
    ids = r.canonical_ids
    want_nodes = ids[:len(sers)]
    got_nodes = [s.get("identity", {}).get("node_id") for s in sers]
    if got_nodes != want_nodes:
        probs.append(("ser-order", "SER node ids are not the canonical prefix"))
    up = {}
    for s, t in r.canonical_edges:
        up.setdefault(t, []).append(s)
    for s in sers:
        nid = s.get("identity", {}).get("node_id")
        if s.get("dependencies", {}).get("upstream") != up.get(nid, []):
            probs.append(("upstream", "SER upstream differs from the canonical edges"))
            break
    st = [s.get("status") for s in sers]
    failing_node = (not returned) and started > 0 and r.log.entries[-1]["exc"] is not None
    want_st = ["succeeded"] * len(sers)
    if failing_node and len(sers) == started:
        want_st[-1] = "error"
    if st != want_st:
        probs.append(("status-sequence", "statuses %s, expected %s" % (st, want_st)))
    runs = set([x.get("run_id") for x in recs if x.get("record_type") in ("pipeline_start", "pipeline_end")]
               + [s.get("identity", {}).get("run_id") for s in sers])
    pids = set([x.get("pipeline_id") for x in recs if x.get("record_type") == "pipeline_start"]
               + [s.get("identity", {}).get("pipeline_id") for s in sers])
    if len(runs) > 1 or len(pids) > 1 or None in runs or None in pids:
        probs.append(("ids-not-shared", "run ids %s pipeline ids %s" % (sorted(map(str, runs)), sorted(map(str, pids)))))
    ends = [x for x in recs if x.get("record_type") == "pipeline_end"]
    if ends:
        ok = (ends[-1].get("summary") or {}).get("status") == "ok"
        if ok != returned:
            probs.append(("end-status", "pipeline_end says %s, run %s" % ((ends[-1].get("summary") or {}).get("status"),
                                                                      "returned" if returned else "raised")))
    if r.handle_open:
        probs.append(("handle-open", "driver._file is still open when the call returns/raises"))
    if not r.flushed_all:
        probs.append(("unflushed", "%d of %d emitted line(s) on disk when the call returns/raises"
                      % (len(r.lines_at_return), len(r.lines))))
    return probs


# ----- record skeleton for the comparison inside Coq ---------------------------------------------------------
def _classes(xs):
    seen, out = [], []
    for x in xs:
        if x not in seen:
            seen.append(x)
        out.append(seen.index(x))
    return out


def _check(lst, code):
    for c in lst or []:
        if c.get("code") == code:
            return c.get("result") == "PASS"
    return None


def skeleton(r):
    """-> Gallina `list orec` text of the emitted records (volatile fields dropped), or raises pg.Unsupported"""
    ids = r.canonical_ids
    runs, pids = [], []

    def cls(tab, v):
        if v not in tab:
            tab.append(v)
        return tab.index(v)
    hash_on = r.driver.get_options().get("hash")
    ddig, cdig = [], []
    out = []
    for rec in r.records:
        rt = rec.get("record_type")
        if rt == "pipeline_start":
            out.append("(OStart %s %s %s)" % (cq_bool("pipeline_spec_canonical" in rec), cq_nat(cls(pids, rec.get("pipeline_id"))),
                                              cq_nat(cls(runs, rec.get("run_id")))))
        elif rt == "pipeline_end":
            out.append("(OEnd %s %s)" % (cq_nat(cls(runs, rec.get("run_id"))), cq_bool((rec.get("summary") or {}).get("status") == "ok")))
        elif rt == "ser":
            idn = rec.get("identity", {})
            nid = idn.get("node_id")
            if nid not in ids:
                out.append("OOther")
                continue
            ups = rec.get("dependencies", {}).get("upstream", [])
            if any(u not in ids for u in ups):
                out.append("OOther")
                continue
            proc = rec.get("processor", {})
            params = proc.get("parameters", {})
            srcs = proc.get("parameter_sources", {})
            chan = {"node": "ChNode", "context": "ChContext", "default": "ChDefault"}
            pre = rec.get("assertions", {}).get("preconditions")
            post = rec.get("assertions", {}).get("postconditions")
            checks = [_check(pre, "required_keys_present"), _check(pre, "input_type_ok"), _check(post, "output_type_ok"),
                      _check(post, "context_writes_realized")]
            if any(c is None for c in checks):
                out.append("OOther")
                continue
            summ = rec.get("summaries") or {}
            dig = None
            if hash_on:
                try:
                    dig = (cls(ddig, summ["input_data"]["sha256"]), cls(ddig, summ["output_data"]["sha256"]),
                           cls(cdig, summ["pre_context"]["sha256"]), cls(cdig, summ["post_context"]["sha256"]))
                except KeyError:
                    dig = None
            err = dict(rec.get("error") or {})
            k_ser = sum(1 for x in r.records[:r.records.index(rec)] if x.get("record_type") == "ser")
            le = r.log.entries[k_ser] if k_ser < len(r.log.entries) else None
            if le is not None and le["exc"] is not None and err.get("type") == type(le["exc"]).__name__:
                # third-party subclasses (numpy's UFuncTypeError ...) are canonicalised to their builtin base,
                # exactly as the outcome's error class is (pg.exc_class); C07's direct oracle compares the raw name
                err["type"] = pg.exc_class(le["exc"])
            cd = rec.get("context_delta", {})
            out.append("(OSer %s %s (mkOSer %s %s %s %s %s %s %s %s %s %s %s %s %s))" % (
                cq_nat(cls(pids, idn.get("pipeline_id"))), cq_nat(cls(runs, idn.get("run_id"))),
                cq_nat(ids.index(nid)), cq_list([cq_nat(ids.index(u)) for u in ups]),
                cq_bool(rec.get("status") == "succeeded"), cq_str(str(err.get("type", ""))),
                cq_list(cd.get("created_keys", []), cq_str), cq_list(cd.get("updated_keys", []), cq_str),
                cq_list([cq_pair(cq_str(k), pg.v_coq(pg.canon_val(v))) for k, v in sorted(params.items())]),
                cq_list([cq_pair(cq_str(k), chan[v]) for k, v in sorted(srcs.items())]),
                cq_bool(checks[0]), cq_bool(checks[1]), cq_bool(checks[2]), cq_bool(checks[3]),
                cq_opt(dig, lambda d: "(%s, %s, %s, %s)" % tuple(cq_nat(x) for x in d))))
        else:
            out.append("OOther")
    return cq_list(out)


def expect_coq(o):
    if o[0] == "tfailed":
        return "(XTFailed %s %s)" % (cq_nat(o[1]), cq_str(o[2]))
    return "(XPlain %s)" % pg.expect_coq(o)


def rfc3339_to_epoch(s):
    """seconds since the epoch of the instant an RFC 3339 string with literal Z denotes"""
    if not isinstance(s, str) or not s.endswith("Z"):
        return None
    try:
        return _dt.datetime.fromisoformat(s[:-1]).replace(tzinfo=_dt.timezone.utc).timestamp()
    except ValueError:
        return None


# ----- cases: generated pipeline x failure point x failure kind ------------------------------------------------
KINDS = ["none", "processor-exception", "unresolvable-parameter", "type-gate", "undeclared-write",
         "unknown-parameter-at-construction", "probe-without-key-at-construction", "descriptor-at-construction", "keyboard-interrupt",
         "system-exit", "custom-base-exception", "processor-exception-no-message", "keyboard-interrupt-no-message"]


def out_dtype(node_obj):
    """expected output type of an instantiated node, as the model's dtype"""
    try:
        t = node_obj.processor.output_data_type()
    except Exception:
        return "TAny"
    name = getattr(t, "__name__", None)
    return {"NoDataType": "TNone", "FloatDataType": "TF", "FloatDataCollection": "TC"}.get(name, "TAny")


def type_char(v):
    tn = type(v).__name__
    return {"NoDataType": "N", "NoneType": "N", "FloatDataType": "F", "FloatDataCollection": "C"}.get(tn, "?")


def inject(nodes, i, kind, types, ctxs):
    """insert a node that fails in the requested way before position i (types[i] / ctxs[i] = data type and
    context keys the harness observed there on the unmodified pipeline); None when not applicable"""
    t = types[i] if i < len(types) else None
    have = ctxs[i] if i < len(ctxs) else set()
    if kind == "processor-exception":
        new = {"k": "failing"} if t == "F" else None
    elif kind == "processor-exception-no-message":
        new = {"k": "failing0"} if t == "F" else None
    elif kind == "keyboard-interrupt-no-message":
        new = {"k": "interrupt", "nomsg": True} if t == "F" else None
    elif kind == "keyboard-interrupt":
        new = {"k": "interrupt"} if t == "F" else None
    elif kind == "system-exit":
        new = {"k": "interrupt", "exc": "SystemExit"} if t == "F" else None
    elif kind == "custom-base-exception":
        new = {"k": "interrupt", "exc": "VerifAbort"} if t == "F" else None
    elif kind == "undeclared-write":
        new = {"k": "badwrite", "key": "j"} if t == "F" else None
    elif kind == "unresolvable-parameter":
        new = None
        if t == "F":
            for k, pn in (("mul", "factor"), ("add", "addend"), ("divide", "divisor")):
                if pn not in have:
                    new = {"k": k}
                    break
        elif t == "N" and "value" not in have:
            new = {"k": "src"}
    elif kind == "type-gate":
        new = {"k": "csum"} if t in ("F", "N") else ({"k": "square"} if t == "C" else None)
    elif kind == "unknown-parameter-at-construction":
        new = {"k": "square", "cfg": {"bogus": 1}}
    elif kind == "probe-without-key-at-construction":
        new = {"k": "probe", "ckey": None}
    elif kind == "descriptor-at-construction":
        new = {"k": "baddesc"}
    else:
        raise ValueError(kind)
    if new is None:
        return None
    return nodes[:i] + [new] + nodes[i:]


def observe_types(nodes, data0, ctx0):
    """untraced run of the base pipeline -> (outcome, data type before each started node (+ after the last),
    context keys before each started node (+ after the last))"""
    out, exc, log = run_plain(nodes, data0, ctx0)
    types = [type_char(e["data_pre"]) for e in log.entries]
    ctxs = [set(e["ctx_pre"]) for e in log.entries]
    if log.entries and log.entries[-1]["exc"] is None:
        types.append(type_char(log.entries[-1]["data_post"]))
        ctxs.append(set(log.entries[-1]["ctx_post"]))
    if not log.entries:
        types, ctxs = [("N" if data0 is None else ("F" if isinstance(data0, int) else "C"))], [set(ctx0)]
    return out, types, ctxs


def tnode_coq(n, out_t):
    return "(mkT %s %s %s)" % (node_coq(n), node_meta(n), out_t)


def _has_negzero(v, depth=0):
    import math
    if isinstance(v, float):
        return v == 0.0 and math.copysign(1.0, v) < 0
    if depth < 4 and isinstance(v, (list, tuple)):
        return any(_has_negzero(x, depth + 1) for x in v)
    if depth < 4 and hasattr(v, "data") and not isinstance(v, (str, bytes)):
        try:
            return _has_negzero(v.data, depth + 1)
        except Exception:
            return False
    try:
        import numpy as np
        if isinstance(v, np.floating):
            return float(v) == 0.0 and math.copysign(1.0, float(v)) < 0
    except Exception:
        pass
    return False


def case_coq(nodes, data0, ctx0, r, prior=False, pid_same=True):
    """Gallina `tcase` of a traced run r (raises pg.Unsupported for values outside the model)"""
    import math
    for v in ctx0.values():
        if isinstance(v, float) and (not math.isfinite(v) or _has_negzero(v)):
            raise pg.Unsupported("NaN / infinity / negative zero in the initial context")
    last = r.log.entries[-1] if r.log.entries else None
    if last is not None and last["exc"] is not None and last["ctx_post"] != last["ctx_pre"]:
        # Model/Pipeline.v's exec_node has no partial effects on failure; the SER of such a node is still checked
        # against the real context difference by the direct oracle of C07
        raise pg.Unsupported("failing node changed the context before raising")
    for e in r.log.entries:
        if _has_negzero(getattr(e["data_post"], "data", e["data_post"])) or _has_negzero(list((e["ctx_post"] or {}).values())):
            # the model's numbers are integers: it has no -0.0, whose repr (hence digest) differs from that of 0.0
            raise pg.Unsupported("negative zero in an intermediate value")
    objs = list(getattr(r.pipe, "nodes", []) or [])
    orch = getattr(r.pipe, "orchestrator", None)
    last = list(getattr(orch, "last_nodes", []) or []) if orch is not None else []
    if len(last) == len(nodes):
        objs = last
    outs = [out_dtype(objs[i]) if i < len(objs) and len(objs) == len(nodes) else "TAny" for i in range(len(nodes))]
    return "(mkCase %s %s %s %s %s %s %s %s %s)" % (
        cq_list([tnode_coq(n, outs[i]) for i, n in enumerate(nodes)]), pg.data_coq(data0), pg.ctx_coq(ctx0),
        cq_bool(prior), cq_bool(pid_same), skeleton(r), cq_bool(not r.handle_open), cq_nat(len(r.lines_at_return)),
        expect_coq(r.outcome))


HEADER = """From Coq Require Import List String ZArith NArith.
From SV Require Import Model.Expr Model.Pipeline Model.Sweep Model.PipelineLib Gen.PipelineGen Model.Trace Gen.OrchestratorGen.
Import ListNotations. Open Scope string_scope.
Definition cases : list tcase := [
%s
].
Eval vm_compute in bad_idx (tcase_ok gen_facts) cases 0.
"""


def evaluate(prop, texts, shard=150):
    """texts: list of tcase literals -> (bad indices, shard errors)"""
    shards = [HEADER % ";\n".join(texts[i:i + shard]) for i in range(0, len(texts), shard)]
    per, errs = core.mismatches(prop, shards, timeout=900)
    bad = []
    for k, ls in enumerate(per):
        if ls is not None:
            bad += [k * shard + b for b in ls[0]]
    return bad, errs


def gen_base(rng, stats, maxlen=6):
    """a generated pipeline that the loader accepts: (nodes, data0, ctx0)"""
    for _ in range(50):
        nodes, data0, need = pg.gen_pipeline(rng, stats, maxlen=maxlen, malformed=0.0)
        ctx0 = pg.gen_ctx(rng, need=need)
        try:
            make_pipeline(nodes)
        except Exception:
            continue
        return nodes, data0, ctx0
    raise RuntimeError("generator produced no loadable pipeline")


def failure_cases(rng, n_base, stats, maxlen=6, every_index=True):
    """-> list of dicts {nodes, data0, ctx0, kind, index}: each base pipeline, then each failure kind injected at
    each node index (0..len) where it applies"""
    out = []
    for _ in range(n_base):
        nodes, data0, ctx0 = gen_base(rng, stats, maxlen)
        out.append({"nodes": nodes, "data0": data0, "ctx0": ctx0, "kind": "none", "index": None})
        o, types, ctxs = observe_types(nodes, data0, ctx0)
        reach = len(types)          # positions the unmodified run reaches with a known data type
        idxs = list(range(reach)) if every_index else [rng.randrange(reach)]
        for i in idxs:
            for kind in KINDS[1:]:
                cand = inject(nodes, i, kind, types, ctxs)
                if cand is None:
                    continue
                try:
                    make_pipeline(cand)
                except Exception:
                    continue
                out.append({"nodes": cand, "data0": data0, "ctx0": ctx0, "kind": kind, "index": i})
    return out


# ----- shared set-up of the three property modules -----------------------------------------------------------------
def read_facts():
    """booleans of coq/Gen/OrchestratorGen.v"""
    import re
    p = os.path.join(core.COQ, "Gen", "OrchestratorGen.v")
    txt = open(p).read() if os.path.exists(p) else ""
    return {m.group(1): m.group(2) == "true" for m in re.finditer(r"Definition (\w+) : bool := (true|false)\.", txt)}


def setup_check(ck):
    from harness.translate import run_all
    gen = run_all(["pipeline", "orchestrator"])
    ck.build_models(["Model/PipelineLib.v", "Gen/PipelineGen.v", "Model/Trace.v", "Gen/OrchestratorGen.v"])
    proved = ck.prove(gen_results=gen)
    if ck.tier == "thorough" and proved:
        ck.coqchk()
    pg.setup_impl()
    facts = read_facts()
    ck.notes["generated_facts"] = facts
    return facts


def load_corpus(prop):
    d = os.path.join(core.ROOT, "corpus", prop)
    out = []
    for p in sorted(glob.glob(os.path.join(d, "*.json"))):
        o = json.load(open(p))
        o["corpus_file"] = os.path.basename(p)
        for n in o["nodes"]:        # JSON has no tuples: pipegen descriptors use lists interchangeably
            pass
        out.append(o)
    return out


def replay_obj(c, r=None, **extra):
    o = {"nodes": [node_repr(n) for n in c["nodes"]], "descriptors": c["nodes"], "data0": c["data0"], "ctx0": c["ctx0"],
         "kind": c.get("kind"), "index": c.get("index")}
    if r is not None:
        o.update({"detail": r.detail, "mode": r.mode, "outcome": list(r.outcome),
                  "record_types": [x.get("record_type") for x in r.records],
                  "handle_open": r.handle_open, "lines_on_disk_at_return": len(r.lines_at_return), "lines_emitted": len(r.lines)})
    o.update(extra)
    return o


def tz_probe_main():
    """subprocess body of the TZ sweep: a small traced run; prints what the timestamps denote"""
    import sys
    pg.setup_impl()
    time.tzset()
    from semantiva.execution.orchestrator.orchestrator import LocalSemantivaOrchestrator
    from semantiva.trace.drivers.jsonl import JsonlTraceDriver
    nodes = [{"k": "src", "cfg": {"value": 3}}, {"k": "square"}, {"k": "probe", "ckey": "k"}]
    t0 = time.time()
    r = run_traced(nodes, None, {}, detail="hash", mode="file")
    t1 = time.time()
    stamps = []
    for rec in r.records:
        if rec.get("record_type") in ("pipeline_start", "pipeline_end"):
            stamps.append(("driver", rec.get("record_type"), rec.get("timestamp")))
        elif rec.get("record_type") == "ser":
            stamps.append(("orchestrator", "ser.started_at", rec["timing"].get("started_at")))
            stamps.append(("orchestrator", "ser.finished_at", rec["timing"].get("finished_at")))
    a0 = time.time()
    direct = [("orchestrator", "_iso_now", LocalSemantivaOrchestrator()._iso_now()),
              ("driver", "_now_timestamp", JsonlTraceDriver(os.path.join(tempfile.gettempdir(), "verif_unused.jsonl"))._now_timestamp())]
    a1 = time.time()
    json.dump({"tz": os.environ.get("TZ"), "tzname": list(time.tzname), "t0": t0, "t1": t1, "a0": a0, "a1": a1,
               "stamps": stamps, "direct": direct, "outcome": list(r.outcome),
               "wall_ms": [rec["timing"].get("wall_ms") for rec in r.records if rec.get("record_type") == "ser"]}, sys.stdout)


if __name__ == "__main__":
    import sys
    if sys.argv[1:] == ["tzprobe"]:
        tz_probe_main()


# ----- unusual but legal strings (direct oracle only: the model's strings are printable ASCII) ---------------
UNUSUAL_STRINGS = ["caf\u00e9 \u00fc", "tmp_\udc80.dat", "half \ud800 pair", "\U0001F600 ok", "line\nbreak\r\n", "nul\x00byte", "\u2028sep", "\udcff"]


def unusual_string_cases(rng, n):
    """pipelines in which an unusual string reaches the trace: under an untouched context key, as the value of a node parameter
    (from the configuration and from the context), and as the message of the exception a node raises"""
    out = []
    for i in range(n):
        s = UNUSUAL_STRINGS[i % len(UNUSUAL_STRINGS)]
        where = ("context", "parameter", "context-parameter", "exception")[(i // len(UNUSUAL_STRINGS) + i) % 4]
        base = [{"k": "src", "cfg": {"value": 2}}, {"k": "mul", "cfg": {"factor": 3}}]
        ctx0 = {}
        if where == "context":
            nodes, ctx0 = base + [{"k": "probe", "ckey": "k"}], {"label": s}
        elif where == "parameter":
            nodes = base + [{"k": "note", "note": s}, {"k": "probe", "ckey": "k"}]
        elif where == "context-parameter":
            nodes, ctx0 = base + [{"k": "note"}, {"k": "probe", "ckey": "k"}], {"note": s}
        else:
            nodes = base + [{"k": "failmsg", "msg": s}, {"k": "probe", "ckey": "k"}]
        out.append({"nodes": nodes, "data0": None, "ctx0": ctx0, "kind": "unusual-string:" + where, "direct_only": True})
    # exceptions whose argument is not a JSON value
    for exc, arg in (("KeyError", "bytes"), ("KeyError", "frozenset"), ("KeyError", "path"), ("ValueError", "bytes"), ("LookupError", "tuple"),
                     ("RuntimeError", "object"))[: max(2, n // 3)]:
        out.append({"nodes": [{"k": "src", "cfg": {"value": 2}}, {"k": "mul", "cfg": {"factor": 3}}, {"k": "raising", "exc": exc, "arg": arg},
                              {"k": "probe", "ckey": "k"}], "data0": None, "ctx0": {}, "kind": "unusual-exception-argument:%s:%s" % (exc, arg), "direct_only": True})
    out += unusual_value_cases(n)
    return out


def unusual_value_cases(n):
    """a node stores an unusual but legal VALUE in the context (0-d array, an object whose len() raises, a lock, a generator, a
    mapping with tuple keys, a 5000-digit integer, ...): alone under its own key, and under a key from which a later node
    resolves a parameter; and nodes raising exceptions constructed without arguments"""
    from harness.lib.components import VALUE_KINDS
    out = []
    base = [{"k": "src", "cfg": {"value": 2}}, {"k": "mul", "cfg": {"factor": 3}}]
    for i, kind in enumerate(VALUE_KINDS[: max(4, n)]):
        out.append({"nodes": base + [{"k": "wvalue", "value": kind}, {"k": "add", "cfg": {"addend": 1}}, {"k": "probe", "ckey": "k"}],
                    "data0": None, "ctx0": {}, "kind": "unusual-value:own-key:" + kind, "direct_only": True})
        out.append({"nodes": base + [{"k": "wvalue", "value": kind, "key": "note"}, {"k": "note"}, {"k": "probe", "ckey": "k"}],
                    "data0": None, "ctx0": {}, "kind": "unusual-value:as-parameter:" + kind, "direct_only": True})
    # a processor that changes its input object in place and returns it; a long string rewritten in its last character only
    out.append({"nodes": base + [{"k": "inplace"}, {"k": "add", "cfg": {"addend": 1}}, {"k": "inplace"}, {"k": "probe", "ckey": "k"}],
                "data0": None, "ctx0": {}, "kind": "unusual-value:in-place-data-update", "direct_only": True, "all_details": True})
    from harness.lib.components import LONG_PREFIX
    out.append({"nodes": base + [{"k": "longrewrite"}, {"k": "longrewrite"}, {"k": "probe", "ckey": "k"}],
                "data0": None, "ctx0": {"label": LONG_PREFIX + "A"}, "kind": "unusual-value:long-string-rewritten", "direct_only": True, "all_details": True})
    for exc in ("KeyError", "VerifMissingField", "ValueError", "IndexError", "StopIteration", "OSError")[: max(3, n // 3)]:
        out.append({"nodes": base + [{"k": "raising0", "exc": exc}, {"k": "probe", "ckey": "k"}], "data0": None, "ctx0": {},
                    "kind": "exception-without-arguments:" + exc, "direct_only": True})
    return out


def transport_failure_problems(nodes, fail_at, detail, mode):
    """A run whose transport fails on the publish after node `fail_at`: the node started, so it has a SER; one start, one
    error end; handle closed; the caller gets the transport's exception.  -> list of problems"""
    pg.setup_impl()
    from semantiva.pipeline import Pipeline
    from semantiva.trace.drivers.jsonl import JsonlTraceDriver
    from harness.lib.components import failing_transport
    own_dir = tempfile.mkdtemp(prefix="verif_tf_")
    path = os.path.join(own_dir, "t.ser.jsonl") if mode == "file" else os.path.join(own_dir, "traces")
    driver = JsonlTraceDriver(path, detail=detail)
    probs = []
    try:
        pipe = Pipeline([node_impl(n) for n in nodes], trace=driver, transport=failing_transport(fail_at))
        exc = None
        with ExecLog() as log:
            try:
                pipe.process(make_payload(None, {}))
            except BaseException as ex:  # noqa
                exc = ex
        started = len(log.entries)
        open_handle = driver._file is not None
        if open_handle:
            try:
                driver._file.close()
            except Exception:  # noqa
                pass
            driver._file = None
        recs = []
        for ln in _disk(path, mode):
            try:
                recs.append(json.loads(ln))
            except Exception:  # noqa
                recs.append({"record_type": None})
        types = [r.get("record_type") for r in recs]
        sers = [r for r in recs if r.get("record_type") == "ser"]
        if exc is None or type(exc).__name__ != "ConnectionError":
            probs.append("exception-changed (caller got %s)" % (type(exc).__name__ if exc else "no exception"))
        if types.count("pipeline_start") != 1 or types[:1] != ["pipeline_start"]:
            probs.append("no-single-pipeline_start %s" % types)
        if types.count("pipeline_end") != 1 or types[-1:] != ["pipeline_end"]:
            probs.append("no-pipeline_end %s" % types)
        if len(sers) != started:
            probs.append("ser-count: %d node(s) started, %d SER(s)" % (started, len(sers)))
        ends = [r for r in recs if r.get("record_type") == "pipeline_end"]
        if ends and (ends[-1].get("summary") or {}).get("status") == "ok":
            probs.append("end-status ok although the run raised")
        if open_handle:
            probs.append("handle-open")
    finally:
        shutil.rmtree(own_dir, ignore_errors=True)
    return probs


def launch_style_runs(nodes, data0, ctx0, detail, mode, n_runs=3):
    """What a run-space launch does: ONE driver and ONE Pipeline object, n runs, each carrying the launch's TraceContext
    in its run metadata.  -> (list of Traced, list of problems); the contract of every single run is unchanged:
    closed handle and everything on disk when process() returns or raises, one well-formed bracket per run, and in
    directory mode one file per run holding that run's records only."""
    pg.setup_impl()
    from semantiva.trace.drivers.jsonl import JsonlTraceDriver
    from semantiva.trace.runtime import TraceContext
    own_dir = tempfile.mkdtemp(prefix="verif_launch_")
    path = os.path.join(own_dir, "t.ser.jsonl") if mode == "file" else os.path.join(own_dir, "traces")
    driver = JsonlTraceDriver(path, detail=detail)
    pipe = make_pipeline(nodes, trace=driver)
    tctx = TraceContext()
    tctx.set_run_space_fk(spec_id="s" * 64, launch_id="l-verif", attempt=1, inputs_id=None)
    runs, problems = [], []
    try:
        for i in range(n_runs):
            files_before = set(glob.glob(os.path.join(path, "*.ser.jsonl"))) if mode == "directory" else set()
            r = run_traced(nodes, data0, ctx0, detail=detail, mode=mode, pipe=pipe, driver=driver, path=path,
                           run_metadata={"trace_context": tctx, "run_space_index": i, "run_space_context": dict(ctx0)})
            runs.append(r)
            for p, _ in bracket_problems(r):
                problems.append("run %d: %s" % (i, p))
            if mode == "directory":
                new = set(glob.glob(os.path.join(path, "*.ser.jsonl"))) - files_before
                if len(new) != 1:
                    problems.append("run %d: %d new trace files in directory mode" % (i, len(new)))
        if mode == "directory":
            for f in glob.glob(os.path.join(path, "*.ser.jsonl")):
                ids, ends = set(), 0
                for ln in open(f, encoding="utf-8").read().splitlines():
                    try:
                        rec = json.loads(ln)
                    except Exception:  # noqa
                        continue
                    if rec.get("record_type") in ("pipeline_start", "pipeline_end", "ser"):
                        ids.add(rec.get("run_id") or (rec.get("identity") or {}).get("run_id"))
                        ends += rec.get("record_type") == "pipeline_end"
                if len(ids) > 1 or ends > 1:
                    problems.append("one trace file holds %d run ids and %d pipeline_end records" % (len(ids), ends))
    finally:
        shutil.rmtree(own_dir, ignore_errors=True)
    return runs, problems
