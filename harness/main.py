"""./check dispatcher."""
import importlib
import json
import os
import sys
import time

from harness import core


def setup():
    from harness.translate import run_all
    res = run_all()
    bad = {k: v for k, v in res.items() if not v.get("ok")}
    if bad:
        print("translation problems (recorded per check, build continues):", json.dumps(bad, indent=1))
    core.ensure_project()
    rc, out = core.make(["all"], timeout=3000)
    print(out[-3000:])
    return rc


def main(argv):
    if not argv:
        print(__doc__)
        return 2
    if argv[0] == "setup":
        return setup()
    if argv[0] == "replay":
        obj = json.load(open(argv[1]))
        mod = importlib.import_module("harness.props." + obj["property"].lower())
        return mod.replay(obj)
    prop = argv[0].upper()
    tier = argv[1] if len(argv) > 1 else os.environ.get("VERIF_TIER", "quick")
    seed = int(os.environ.get("VERIF_SEED", "0"))
    mod = importlib.import_module("harness.props." + prop.lower())
    ck = core.Check(prop, tier, seed)
    try:
        mod.run(ck)
    except Exception as ex:  # machinery failure: never silently green
        import traceback
        traceback.print_exc()
        ck.problems.append({"kind": "harness", "what": "exception in check machinery: %r" % (ex,), "detail": traceback.format_exc()[-2000:]})
    return ck.finish(**getattr(mod, "FINISH", {}))


if __name__ == "__main__":
    sys.exit(main(sys.argv[1:]))
