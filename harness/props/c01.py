"""C01 — Pipeline execution matches the documented dual-channel node semantics.

proof side : Properties/C01.v over Model/Pipeline.v (generic executor; theorems hold for every processor)
tie        : Gen/PipelineGen.v (resolution order, gate order, reserved names) + differential execution of
             Pipeline(nodes).process(Payload(data, ctx)) against Model/PipelineLib.v on generated pipelines
search     : the Spec model IS the documented semantics, so a disagreement on a case is the failing input;
             additional direct oracles: probe leaves data unchanged, no node after the failing one starts.
"""
from __future__ import annotations

import json
import os
import random

from harness import core
from harness.lib import pipegen as pg
from harness.translate import run_all

HEADER = """From Coq Require Import List String ZArith NArith.
From SV Require Import Model.Expr Model.Pipeline Model.Sweep Model.PipelineLib Gen.PipelineGen.
Import ListNotations. Open Scope string_scope.
Definition cases : list pcase := [
%s
].
Eval vm_compute in bad_idx pcase_ok cases 0.
"""


def case_text(nodes, data0, ctx0, outcome):
    return "(%s, %s, %s, %s)" % (core.cq_list([pg.node_coq(n) for n in nodes]), pg.data_coq(data0), pg.ctx_coq(ctx0),
                                 pg.expect_coq(outcome))


def signature_of(nodes, outcome):
    """Stable signature of a disagreeing case: the node kinds around the first point of interest."""
    idx = outcome[1] if outcome[0] in ("failed", "cfailed") else len(nodes) - 1
    n = nodes[min(idx, len(nodes) - 1)]
    kind = n["k"] + (":" + n["elem"] if "elem" in n else "")
    return "C01:model-vs-implementation:%s:%s" % (outcome[0], kind)


def shrink(nodes, data0, ctx0, still_bad):
    """Delete nodes / context keys / config entries while the disagreement persists."""
    changed = True
    while changed:
        changed = False
        for i in range(len(nodes)):
            cand = nodes[:i] + nodes[i + 1:]
            if cand and still_bad(cand, data0, ctx0):
                nodes, changed = cand, True
                break
        if changed:
            continue
        for k in list(ctx0):
            c2 = {a: b for a, b in ctx0.items() if a != k}
            if still_bad(nodes, data0, c2):
                ctx0, changed = c2, True
                break
    return nodes, data0, ctx0


def evaluate(cases, prop="C01", shard=200):
    """cases: list of (nodes, data0, ctx0, outcome).  Returns list of bad indices and shard errors."""
    texts = []
    for i in range(0, len(cases), shard):
        texts.append(HEADER % ";\n".join(case_text(*c) for c in cases[i:i + shard]))
    per, errs = core.mismatches(prop, texts, timeout=900)
    bad = []
    for k, ls in enumerate(per):
        if ls is not None:
            bad += [k * shard + b for b in ls[0]]
    return bad, errs


def run(ck, only_sweeps=False, prop="C01"):
    rng = random.Random(ck.seed * 104729 + 1)
    thorough = ck.tier == "thorough"
    gen = run_all(["pipeline"])
    ck.build_models(["Model/PipelineLib.v", "Gen/PipelineGen.v"])
    proved = ck.prove(gen_results=gen)
    if thorough and proved:
        ck.coqchk()
    pg.setup_impl()

    stats = {}
    n_cases = (6000 if thorough else 700)
    cases, dropped = [], {"rejected": 0, "unsupported": 0}
    seen = set()
    attempts = 0
    while len(cases) < n_cases and attempts < n_cases * 3:
        attempts += 1
        nodes, data0, need = pg.gen_pipeline(rng, stats, maxlen=(12 if thorough and rng.random() < 0.2 else 8),
                                             malformed=(0.08 if attempts % 5 == 0 else 0.0))
        ctx0 = pg.gen_ctx(rng, need=need)
        key = json.dumps([nodes, data0, ctx0], sort_keys=True, default=str)
        if key in seen:
            continue
        seen.add(key)
        keep = {}
        out = pg.run_impl(nodes, data0, ctx0, keep=keep, yaml_path=(attempts % 3 == 0))
        if keep.get("via_yaml"):
            stats["entry:yaml-text-through-loader"] = stats.get("entry:yaml-text-through-loader", 0) + 1
        else:
            stats["entry:dict"] = stats.get("entry:dict", 0) + 1
        if out[0] in ("rejected", "unsupported"):
            dropped[out[0]] += 1
            continue
        cases.append((nodes, data0, ctx0, out))
    kinds = {"done": 0, "failed": 0, "cfailed": 0}
    stages = {}
    for c in cases:
        kinds[c[3][0]] += 1
        if c[3][0] == "failed":
            stages[c[3][2] + ":" + c[3][3]] = stages.get(c[3][2] + ":" + c[3][3], 0) + 1
    bad, errs = evaluate(cases, prop)
    for k, rc, out in errs:
        ck.corr_problem("correspondence shard %d did not evaluate (rc=%s)" % (k, rc), out)
    ck.cov["evaluations"] = len(cases)
    ck.cov["traces_validated_against_impl"] = len(cases) - len(bad)
    ck.cov["distinct_nontrivial"] = sum(1 for c in cases if len(c[0]) >= 2)
    ck.cov["rule"] = ("distinct (pipeline, initial data, initial context) triples from the seeded structured generator "
                      "(length 1..8%s; type-tracking so most run to completion; 20%% of draws allow malformed nodes); "
                      "non-trivial = at least two nodes; dropped: %s" % ("/12" if thorough else "", dropped))
    ck.notes["outcomes"] = kinds
    ck.notes["failure_kinds"] = stages
    ck.notes["generator_distribution"] = dict(sorted(stats.items()))
    ck.cov["samples"] = [{"nodes": [pg.node_impl_repr(n) for n in c[0]], "data0": c[1], "ctx0": c[2], "outcome": list(c[3])}
                         for c in cases[:4]]
    ck.log("correspondence: %d/%d agree; outcomes %s; dropped %s" % (len(cases) - len(bad), len(cases), kinds, dropped))

    if not only_sweeps:
        overlap_oracle(ck, cases, 150 if thorough else 40)
        ck.notes["keyword_only_and_sink_runs"] = keyword_only_oracle(ck) + failing_sink_oracle(ck) + context_writing_element_oracle(ck)

    # every disagreement is a failing input of the property (Spec = documented semantics): shrink and report
    reported = set()
    for b in bad[:40]:
        nodes, data0, ctx0, out = cases[b]
        sig = signature_of(nodes, out)
        if sig in reported:
            continue
        reported.add(sig)

        def still_bad(n2, d2, c2):
            o2 = pg.run_impl(n2, d2, c2)
            if o2[0] in ("rejected", "unsupported"):
                return False
            b2, e2 = evaluate([(n2, d2, c2, o2)], prop + "_shrink")
            return bool(b2) and signature_of(n2, o2) == sig
        if len(reported) <= 2:  # shrinking costs one coqc call per step: only the first two signatures
            try:
                nodes, data0, ctx0 = shrink(nodes, data0, ctx0, still_bad)
            except Exception:  # noqa
                pass
        out = pg.run_impl(nodes, data0, ctx0)
        ck.fail_input(sig, "implementation outcome differs from the documented node semantics (Spec model)",
                      {"nodes": [pg.node_impl_repr(n) for n in nodes], "descriptors": nodes, "data0": data0, "ctx0": ctx0,
                       "implementation": list(out)})
    ck.cov["trusted_base"] = TRUSTED


def keyword_only_oracle(ck):
    """Direct oracle: processors whose parameters are keyword-only (`def _process_logic(self, data, *, factor, offset=0.0)`).
    Every placement of each parameter -- node configuration, initial context, produced by an earlier probe, default, missing --
    resolves with the documented precedence configuration > context > default, and a missing required one raises at the node."""
    import itertools
    from semantiva.context_processors import ContextType
    from semantiva.pipeline import Payload, Pipeline
    from harness.lib import components as C
    pg.setup_impl()
    n = 0
    placements = ["config", "context", "probe", "absent"]
    for pf, po in itertools.product(placements, placements):
        for kind in ("operation", "probe"):
            cfg, ctx0 = {}, {}
            want = {"factor": (None if kind == "operation" else 1.0), "offset": 0.0}         # defaults (None: required)
            nodes = [{"processor": "FloatValueDataSource", "parameters": {"value": 3.0}}]
            for name, where, val in (("factor", pf, 4.0), ("offset", po, 0.5)):
                if where == "config":
                    cfg[name], ctx0[name] = val, 99.0        # configuration beats the context
                    want[name] = val
                elif where == "context":
                    ctx0[name] = val
                    want[name] = val
                elif where == "probe":
                    nodes.append({"processor": "FloatCollectValueProbe", "context_key": name})      # publishes 3.0 under the name
                    want[name] = 3.0
            node = {"processor": C.VerifKwOnlyScaleOperation if kind == "operation" else C.VerifKwOnlyProbe, "parameters": dict(cfg)}
            if kind == "probe":
                node["context_key"] = "out"
            nodes.append(node)
            try:
                res = Pipeline(nodes).process(Payload(None, ContextType(dict(ctx0))))
                got = ("done", res.data.data if kind == "operation" else list(res.context.get_value("out")))
            except Exception as ex:  # noqa
                got = ("raises", pg.classify(ex)[0])
            n += 1
            if want["factor"] is None:
                exp = ("raises", "SResolve")
            else:
                exp = ("done", 3.0 * want["factor"] + want["offset"] if kind == "operation" else [3.0 * want["factor"], want["offset"]])
            if got != exp:
                ck.fail_input("C01:keyword-only-parameter:%s" % kind,
                              "a %s with keyword-only parameters, factor from %s, offset from %s: got %s, documented semantics give %s"
                              % (kind, pf, po, got, exp), {"kind": "keyword-only", "component": kind, "factor": pf, "offset": po, "got": list(got), "want": list(exp)})
                return n
    return n


def context_writing_element_oracle(ck):
    """Direct oracle: an operation that writes a declared context key, used plainly, under a slicer and as the element of a
    parameter sweep: the key it declares is created (last write wins) and a later node resolves its parameter from it."""
    from semantiva.context_processors import ContextType
    from semantiva.pipeline import Payload, Pipeline
    from harness.lib import components as C
    pg.setup_impl()
    n = 0
    src = {"processor": "FloatValueDataSource", "parameters": {"value": 2.0}}
    after = {"processor": "FloatMultiplyOperation"}          # reads `factor` ... which nobody supplies: use a probe on the key instead
    variants = {
        "plain": ([src, {"processor": C.VerifScaleAndNoteOperation, "parameters": {"factor": 5.0}}], 10.0, 5.0),
        "swept": ([src, {"processor": C.VerifScaleAndNoteOperation,
                         "derive": {"parameter_sweep": {"parameters": {"factor": "f"}, "variables": {"f": [2.0, 5.0]}, "collection": "FloatDataCollection"}}}],
                  [4.0, 10.0], 5.0),
    }
    for name, (nodes, want_data, want_key) in variants.items():
        # a later node takes its parameter from the written key
        nodes = nodes + [{"processor": 'template:"used-{last_factor}":label'}]
        try:
            res = Pipeline(nodes).process(Payload(None, ContextType({})))
            d = res.data
            got = ("done", [x.data for x in d] if hasattr(d, "__iter__") else d.data, res.context.get_value("last_factor"), res.context.get_value("label"))
        except Exception as ex:  # noqa
            got = ("raises", type(ex).__name__, str(ex)[:120])
        n += 1
        want = ("done", want_data, want_key, "used-%s" % want_key)
        if got != want:
            ck.fail_input("C01:context-writing-operation:%s" % name,
                          "an operation that declares and writes `last_factor`, used %s: got %s, documented semantics give %s" % (name, got, want),
                          {"kind": "context-writing-element", "variant": name, "got": list(got), "want": list(want)})
    return n


def failing_sink_oracle(ck):
    """Direct oracle: a sink whose write fails at run time (a path in a directory that does not exist, from the configuration,
    the context or an earlier template node): the run raises at that node and no later node runs."""
    import tempfile
    from semantiva.context_processors import ContextType
    from semantiva.pipeline import Payload, Pipeline
    pg.setup_impl()
    n = 0
    missing = os.path.join(tempfile.gettempdir(), "verif_no_such_dir_%d" % os.getpid(), "deeper", "out.txt")
    variants = {
        "config": ([{"processor": "FloatTxtFileSaver", "parameters": {"path": missing}}], {}),
        "context": ([{"processor": "FloatTxtFileSaver"}], {"path": missing}),
        "template": ([{"processor": 'template:"{base}/deeper/out.txt":path'}, {"processor": "FloatTxtFileSaver"}], {"base": os.path.dirname(os.path.dirname(missing))}),
    }
    for name, (mid, ctx0) in variants.items():
        nodes = [{"processor": "FloatValueDataSource", "parameters": {"value": 2.0}}] + mid + [{"processor": "FloatCollectValueProbe", "context_key": "after"}]
        with pg.StartLog() as log:
            try:
                res = Pipeline(nodes).process(Payload(None, ContextType(dict(ctx0))))
                got = ("done", sorted(res.context.keys()))
            except Exception as ex:  # noqa
                got = ("raises", type(ex).__name__)
        n += 1
        started = len(log.started)
        sink_index = len(nodes) - 2
        if got[0] != "raises" or started != sink_index + 1:
            ck.fail_input("C01:failing-sink-does-not-stop-the-run",
                          "a file sink whose path (from %s) lies in a directory that does not exist: the run %s and %d of %d nodes started; "
                          "the documented semantics raise at node %d and run nothing after it" % (name, got, started, len(nodes), sink_index + 1),
                          {"kind": "failing-sink", "path_from": name, "got": list(got), "started": started})
    return n


def _shift_ctx(ctx0):
    """a second context: every numeric value shifted, so that two overlapping runs are distinguishable"""
    out = {}
    for k, v in ctx0.items():
        out[k] = v + 3 if isinstance(v, (int, float)) and not isinstance(v, bool) else v
    return out


def _run_on(pipe, data0, ctx0):
    from semantiva.context_processors import ContextType
    from semantiva.pipeline import Payload
    try:
        out = pipe.process(Payload(pg.make_data(data0), ContextType({k: pg.v_impl(v) for k, v in ctx0.items()})))
        return ("done", pg.canon_data(out.data), {k: pg.canon_val(v) for k, v in out.context.to_dict().items()})
    except pg.Unsupported as u:
        return ("unsupported", str(u))
    except Exception as ex:  # noqa
        return ("failed", type(ex).__name__)


def overlap_oracle(ck, cases, limit):
    """Direct oracle (no model involved): several process() calls on ONE Pipeline object -- one after the other, and two
    that overlap inside a data node (two threads, a rendezvous operation after the first node) -- must each return
    what a run of their own payload on a fresh Pipeline returns.  Runs are independent: nothing of one run's data or
    context may show up in another's."""
    import threading
    from semantiva.pipeline import Pipeline
    from harness.lib.components import VerifRendezvousOperation as RV
    tried = found = 0
    for nodes, data0, ctx0, out in cases:
        if tried >= limit:
            break
        if out[0] != "done" or not nodes or nodes[0]["k"] not in ("src", "srcdef") or data0 is not None:
            continue
        ctxs = [ctx0, _shift_ctx(ctx0)]
        if not ctx0 or ctxs[0] == ctxs[1]:
            continue
        cfgs = [pg.node_impl(n) for n in nodes]
        cfgs.insert(1, {"processor": RV})
        RV.barrier = None
        try:
            want = [_run_on(Pipeline([dict(c) for c in cfgs]), data0, c) for c in ctxs]
        except Exception:  # noqa
            continue
        if any(w[0] != "done" for w in want) or want[0] == want[1]:
            continue
        tried += 1
        pipe = Pipeline([dict(c) for c in cfgs])
        seq = [_run_on(pipe, data0, c) for c in (ctxs[0], ctxs[1], ctxs[0])]          # three runs, one object
        got = [None, None]
        RV.barrier = threading.Barrier(2)

        def work(i):
            got[i] = _run_on(pipe, data0, ctxs[i])
        ts = [threading.Thread(target=work, args=(i,), daemon=True) for i in (0, 1)]
        for t in ts:
            t.start()
        for t in ts:
            t.join(30)
        RV.barrier = None
        rep = {"nodes": [pg.node_impl_repr(n) for n in nodes], "descriptors": nodes, "data0": data0, "contexts": ctxs,
               "kind": "overlap"}
        if seq != [want[0], want[1], want[0]]:
            found += 1
            ck.fail_input("C01:runs-on-one-pipeline-object:sequential-run-differs-from-fresh-pipeline",
                          "runs 1..3 on one Pipeline object returned %s; fresh pipelines return %s" % (str(seq)[:300], str(want)[:300]),
                          dict(rep, got=seq, want=want))
        elif got != want:
            found += 1
            ck.fail_input("C01:runs-on-one-pipeline-object:overlapping-run-differs-from-fresh-pipeline",
                          "two overlapping process() calls on one Pipeline object returned %s; each payload alone returns %s" % (str(got)[:300], str(want)[:300]),
                          dict(rep, got=got, want=want))
    ck.notes["overlap_oracle"] = {"pipelines": tried, "violations": found}
    ck.cov["evaluations"] += tried * 5
    ck.log("one-object oracle: %d pipelines (3 sequential + 2 overlapping runs each), %d violations" % (tried, found))


def replay(obj):
    r = obj["replay"]
    if r.get("kind") == "overlap":
        class _Ck:
            notes, cov, failing = {}, {"evaluations": 0}, []
            def fail_input(self, sig, what, rep): self.failing.append(sig); print("STILL FAILS:", sig, "-", what)
            def log(self, m): print(m)
        pg.setup_impl()
        overlap_oracle(_Ck(), [(r["descriptors"], r["data0"], r["contexts"][0], ("done",))], 1)
        return 0
    if r.get("kind") == "context-writing-element":
        class _Ck3:
            failing = []
            def fail_input(self, sig, what, rep): self.failing.append(sig); print("STILL FAILS:", sig, "-", what)
        c3 = _Ck3()
        context_writing_element_oracle(c3)
        print("recorded:", json.dumps(r), "| now:", c3.failing or "no violation on this tree")
        return 1 if c3.failing else 0
    if r.get("kind") in ("keyword-only", "failing-sink"):
        class _Ck2:
            notes, cov, failing = {}, {"evaluations": 0}, []
            def fail_input(self, sig, what, rep): self.failing.append(sig); print("STILL FAILS:", sig, "-", what)
        c = _Ck2()
        (keyword_only_oracle if r["kind"] == "keyword-only" else failing_sink_oracle)(c)
        print("recorded:", json.dumps(r), "| now:", c.failing or "no violation on this tree")
        return 1 if c.failing else 0
    out = pg.run_impl(r["descriptors"], r["data0"], r["ctx0"])
    print("nodes:", json.dumps(r["nodes"]))
    print("data0:", r["data0"], "ctx0:", r["ctx0"])
    print("implementation now:", out, "| recorded:", r["implementation"])
    return 0


TRUSTED = [
    "Coq 8.16.1 kernel (coqc), vm_compute; no native_compute",
    "model: coq/Model/Pipeline.v (generic executor), Model/Sweep.v, Model/PipelineLib.v (component library over Z: the harness only "
    "produces integer-valued floats and drops cases whose observed values are not)",
    "translator harness/translate/pipeline.py (resolution order chain, gate-before-resolve, reserved names, probe sweep publication)",
    "correspondence harness: harness/lib/pipegen.py (descriptor -> semantiva config and Gallina literal), exception classification by message",
    "modelled not verified: Python dict semantics of ContextType, numpy linspace for integer steps, the component library's arithmetic",
]
FINISH = {"level": "proof", "assumptions": [
    "component arithmetic is exact on the integer-valued floats the generators produce",
    "failing node index is observed by wrapping _PayloadProcessor.process in the harness process"]}
