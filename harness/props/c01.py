"""C01 — Pipeline execution matches the documented dual-channel node semantics.

proof side : Properties/C01.v over Model/Pipeline.v (generic executor; theorems hold for every processor)
tie        : Gen/PipelineGen.v (resolution order, gate order, reserved names) + differential execution of
             Pipeline(nodes).process(Payload(data, ctx)) against Model/PipelineLib.v on generated pipelines
search     : the Spec model IS the documented semantics, so a disagreement on a case is the failing input;
             additional direct oracles: probe leaves data unchanged, no node after the failing one starts.
"""
from __future__ import annotations

import json
import random

from harness import core
from harness.lib import pipegen as pg
from harness.translate import run_all

HEADER = """From Coq Require Import List String ZArith NArith.
From SV Require Import Model.Expr Model.Pipeline Model.Sweep Model.PipelineLib Gen.PipelineGen.
Import ListNotations. Open Scope string_scope.
Definition cases : list pcase := [
%s
].
Eval vm_compute in bad_idx pcase_ok cases 0.
"""


def case_text(nodes, data0, ctx0, outcome):
    return "(%s, %s, %s, %s)" % (core.cq_list([pg.node_coq(n) for n in nodes]), pg.data_coq(data0), pg.ctx_coq(ctx0),
                                 pg.expect_coq(outcome))


def signature_of(nodes, outcome):
    """Stable signature of a disagreeing case: the node kinds around the first point of interest."""
    idx = outcome[1] if outcome[0] in ("failed", "cfailed") else len(nodes) - 1
    n = nodes[min(idx, len(nodes) - 1)]
    kind = n["k"] + (":" + n["elem"] if "elem" in n else "")
    return "C01:model-vs-implementation:%s:%s" % (outcome[0], kind)


def shrink(nodes, data0, ctx0, still_bad):
    """Delete nodes / context keys / config entries while the disagreement persists."""
    changed = True
    while changed:
        changed = False
        for i in range(len(nodes)):
            cand = nodes[:i] + nodes[i + 1:]
            if cand and still_bad(cand, data0, ctx0):
                nodes, changed = cand, True
                break
        if changed:
            continue
        for k in list(ctx0):
            c2 = {a: b for a, b in ctx0.items() if a != k}
            if still_bad(nodes, data0, c2):
                ctx0, changed = c2, True
                break
    return nodes, data0, ctx0


def evaluate(cases, prop="C01", shard=200):
    """cases: list of (nodes, data0, ctx0, outcome).  Returns list of bad indices and shard errors."""
    texts = []
    for i in range(0, len(cases), shard):
        texts.append(HEADER % ";\n".join(case_text(*c) for c in cases[i:i + shard]))
    per, errs = core.mismatches(prop, texts, timeout=900)
    bad = []
    for k, ls in enumerate(per):
        if ls is not None:
            bad += [k * shard + b for b in ls[0]]
    return bad, errs


def run(ck, only_sweeps=False, prop="C01"):
    rng = random.Random(ck.seed * 104729 + 1)
    thorough = ck.tier == "thorough"
    gen = run_all(["pipeline"])
    ck.build_models(["Model/PipelineLib.v", "Gen/PipelineGen.v"])
    proved = ck.prove(gen_results=gen)
    if thorough and proved:
        ck.coqchk()
    pg.setup_impl()

    stats = {}
    n_cases = (6000 if thorough else 700)
    cases, dropped = [], {"rejected": 0, "unsupported": 0}
    seen = set()
    attempts = 0
    while len(cases) < n_cases and attempts < n_cases * 3:
        attempts += 1
        nodes, data0, need = pg.gen_pipeline(rng, stats, maxlen=(12 if thorough and rng.random() < 0.2 else 8),
                                             malformed=(0.08 if attempts % 5 == 0 else 0.0))
        ctx0 = pg.gen_ctx(rng, need=need)
        key = json.dumps([nodes, data0, ctx0], sort_keys=True, default=str)
        if key in seen:
            continue
        seen.add(key)
        keep = {}
        out = pg.run_impl(nodes, data0, ctx0, keep=keep, yaml_path=(attempts % 3 == 0))
        if keep.get("via_yaml"):
            stats["entry:yaml-text-through-loader"] = stats.get("entry:yaml-text-through-loader", 0) + 1
        else:
            stats["entry:dict"] = stats.get("entry:dict", 0) + 1
        if out[0] in ("rejected", "unsupported"):
            dropped[out[0]] += 1
            continue
        cases.append((nodes, data0, ctx0, out))
    kinds = {"done": 0, "failed": 0, "cfailed": 0}
    stages = {}
    for c in cases:
        kinds[c[3][0]] += 1
        if c[3][0] == "failed":
            stages[c[3][2] + ":" + c[3][3]] = stages.get(c[3][2] + ":" + c[3][3], 0) + 1
    bad, errs = evaluate(cases, prop)
    for k, rc, out in errs:
        ck.corr_problem("correspondence shard %d did not evaluate (rc=%s)" % (k, rc), out)
    ck.cov["evaluations"] = len(cases)
    ck.cov["traces_validated_against_impl"] = len(cases) - len(bad)
    ck.cov["distinct_nontrivial"] = sum(1 for c in cases if len(c[0]) >= 2)
    ck.cov["rule"] = ("distinct (pipeline, initial data, initial context) triples from the seeded structured generator "
                      "(length 1..8%s; type-tracking so most run to completion; 20%% of draws allow malformed nodes); "
                      "non-trivial = at least two nodes; dropped: %s" % ("/12" if thorough else "", dropped))
    ck.notes["outcomes"] = kinds
    ck.notes["failure_kinds"] = stages
    ck.notes["generator_distribution"] = dict(sorted(stats.items()))
    ck.cov["samples"] = [{"nodes": [pg.node_impl_repr(n) for n in c[0]], "data0": c[1], "ctx0": c[2], "outcome": list(c[3])}
                         for c in cases[:4]]
    ck.log("correspondence: %d/%d agree; outcomes %s; dropped %s" % (len(cases) - len(bad), len(cases), kinds, dropped))

    if not only_sweeps:
        overlap_oracle(ck, cases, 150 if thorough else 40)

    # every disagreement is a failing input of the property (Spec = documented semantics): shrink and report
    reported = set()
    for b in bad[:40]:
        nodes, data0, ctx0, out = cases[b]
        sig = signature_of(nodes, out)
        if sig in reported:
            continue
        reported.add(sig)

        def still_bad(n2, d2, c2):
            o2 = pg.run_impl(n2, d2, c2)
            if o2[0] in ("rejected", "unsupported"):
                return False
            b2, e2 = evaluate([(n2, d2, c2, o2)], prop + "_shrink")
            return bool(b2) and signature_of(n2, o2) == sig
        if len(reported) <= 2:  # shrinking costs one coqc call per step: only the first two signatures
            try:
                nodes, data0, ctx0 = shrink(nodes, data0, ctx0, still_bad)
            except Exception:  # noqa
                pass
        out = pg.run_impl(nodes, data0, ctx0)
        ck.fail_input(sig, "implementation outcome differs from the documented node semantics (Spec model)",
                      {"nodes": [pg.node_impl_repr(n) for n in nodes], "descriptors": nodes, "data0": data0, "ctx0": ctx0,
                       "implementation": list(out)})
    ck.cov["trusted_base"] = TRUSTED


def _shift_ctx(ctx0):
    """a second context: every numeric value shifted, so that two overlapping runs are distinguishable"""
    out = {}
    for k, v in ctx0.items():
        out[k] = v + 3 if isinstance(v, (int, float)) and not isinstance(v, bool) else v
    return out


def _run_on(pipe, data0, ctx0):
    from semantiva.context_processors import ContextType
    from semantiva.pipeline import Payload
    try:
        out = pipe.process(Payload(pg.make_data(data0), ContextType({k: pg.v_impl(v) for k, v in ctx0.items()})))
        return ("done", pg.canon_data(out.data), {k: pg.canon_val(v) for k, v in out.context.to_dict().items()})
    except pg.Unsupported as u:
        return ("unsupported", str(u))
    except Exception as ex:  # noqa
        return ("failed", type(ex).__name__)


def overlap_oracle(ck, cases, limit):
    """Direct oracle (no model involved): several process() calls on ONE Pipeline object -- one after the other, and two
    that overlap inside a data node (two threads, a rendezvous operation after the first node) -- must each return
    what a run of their own payload on a fresh Pipeline returns.  Runs are independent: nothing of one run's data or
    context may show up in another's."""
    import threading
    from semantiva.pipeline import Pipeline
    from harness.lib.components import VerifRendezvousOperation as RV
    tried = found = 0
    for nodes, data0, ctx0, out in cases:
        if tried >= limit:
            break
        if out[0] != "done" or not nodes or nodes[0]["k"] not in ("src", "srcdef") or data0 is not None:
            continue
        ctxs = [ctx0, _shift_ctx(ctx0)]
        if not ctx0 or ctxs[0] == ctxs[1]:
            continue
        cfgs = [pg.node_impl(n) for n in nodes]
        cfgs.insert(1, {"processor": RV})
        RV.barrier = None
        try:
            want = [_run_on(Pipeline([dict(c) for c in cfgs]), data0, c) for c in ctxs]
        except Exception:  # noqa
            continue
        if any(w[0] != "done" for w in want) or want[0] == want[1]:
            continue
        tried += 1
        pipe = Pipeline([dict(c) for c in cfgs])
        seq = [_run_on(pipe, data0, c) for c in (ctxs[0], ctxs[1], ctxs[0])]          # three runs, one object
        got = [None, None]
        RV.barrier = threading.Barrier(2)

        def work(i):
            got[i] = _run_on(pipe, data0, ctxs[i])
        ts = [threading.Thread(target=work, args=(i,), daemon=True) for i in (0, 1)]
        for t in ts:
            t.start()
        for t in ts:
            t.join(30)
        RV.barrier = None
        rep = {"nodes": [pg.node_impl_repr(n) for n in nodes], "descriptors": nodes, "data0": data0, "contexts": ctxs,
               "kind": "overlap"}
        if seq != [want[0], want[1], want[0]]:
            found += 1
            ck.fail_input("C01:runs-on-one-pipeline-object:sequential-run-differs-from-fresh-pipeline",
                          "runs 1..3 on one Pipeline object returned %s; fresh pipelines return %s" % (str(seq)[:300], str(want)[:300]),
                          dict(rep, got=seq, want=want))
        elif got != want:
            found += 1
            ck.fail_input("C01:runs-on-one-pipeline-object:overlapping-run-differs-from-fresh-pipeline",
                          "two overlapping process() calls on one Pipeline object returned %s; each payload alone returns %s" % (str(got)[:300], str(want)[:300]),
                          dict(rep, got=got, want=want))
    ck.notes["overlap_oracle"] = {"pipelines": tried, "violations": found}
    ck.cov["evaluations"] += tried * 5
    ck.log("one-object oracle: %d pipelines (3 sequential + 2 overlapping runs each), %d violations" % (tried, found))


def replay(obj):
    r = obj["replay"]
    if r.get("kind") == "overlap":
        class _Ck:
            notes, cov, failing = {}, {"evaluations": 0}, []
            def fail_input(self, sig, what, rep): self.failing.append(sig); print("STILL FAILS:", sig, "-", what)
            def log(self, m): print(m)
        pg.setup_impl()
        overlap_oracle(_Ck(), [(r["descriptors"], r["data0"], r["contexts"][0], ("done",))], 1)
        return 0
    out = pg.run_impl(r["descriptors"], r["data0"], r["ctx0"])
    print("nodes:", json.dumps(r["nodes"]))
    print("data0:", r["data0"], "ctx0:", r["ctx0"])
    print("implementation now:", out, "| recorded:", r["implementation"])
    return 0


TRUSTED = [
    "Coq 8.16.1 kernel (coqc), vm_compute; no native_compute",
    "model: coq/Model/Pipeline.v (generic executor), Model/Sweep.v, Model/PipelineLib.v (component library over Z: the harness only "
    "produces integer-valued floats and drops cases whose observed values are not)",
    "translator harness/translate/pipeline.py (resolution order chain, gate-before-resolve, reserved names, probe sweep publication)",
    "correspondence harness: harness/lib/pipegen.py (descriptor -> semantiva config and Gallina literal), exception classification by message",
    "modelled not verified: Python dict semantics of ContextType, numpy linspace for integer steps, the component library's arithmetic",
]
FINISH = {"level": "proof", "assumptions": [
    "component arithmetic is exact on the integer-valued floats the generators produce",
    "failing node index is observed by wrapping _PayloadProcessor.process in the harness process"]}
