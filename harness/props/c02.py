"""C02 — Static inspection is sound: accepted configs do not fail on flow at run time.

proof side : Properties/C02.v over Model/Inspect.v + Model/Pipeline.v (soundness by simulation for the
             order-sensitive / last-data-tracking variant; refutation witnesses for the other variants)
tie        : Gen/InspectGen.v (three structural facts of builder.py / validator.py) + equality of the whole
             inspection report (per-node origins, created, suppressed, types, errors; required keys; validity)
             between build_pipeline_inspection/validate_pipeline and the model on generated pipelines
search     : dynamic oracles on the implementation, independent of the model:
             (O1) accepted + required keys supplied + suitable initial data, yet the run fails on flow;
             (O2) reported created/suppressed keys vs keys that appear/disappear at each node;
             (O3) reported parameter origin vs the actual last writer / channel.
"""
from __future__ import annotations

import json
import os
import random

from harness import core
from harness.core import cq_bool, cq_list, cq_nat, cq_opt, cq_pair, cq_str
from harness.lib import pipegen as pg
from harness.translate import run_all

TY = {"NoDataType": "TNone", "FloatDataType": "TF", "FloatDataCollection": "TC", "BaseDataType": "TAny"}

HEADER = """From Coq Require Import List String ZArith NArith.
From SV Require Import Model.Expr Model.Pipeline Model.Sweep Model.PipelineLib Model.Inspect Model.InspectCases
  Gen.PipelineGen Gen.InspectGen.
Import ListNotations. Open Scope string_scope.
Definition cases : list icase := [
%s
].
Eval vm_compute in bad_idx (icase_ok impl) cases 0.
"""


def out_type(n):
    k = n["k"]
    if k == "copyprobe":
        return "TAny"
    if k == "sweep":
        return "TC" if n["elem"] not in pg.PROBES else "TF"
    if k == "slice":
        return "TC"
    if k in ("rename", "delete", "template"):
        return "TAny"
    return "TF"


def impl_report(nodes):
    """-> (per-node dicts, required sorted, valid) from the real inspection"""
    from semantiva.inspection import build_pipeline_inspection, validate_pipeline
    cfgs = [pg.node_impl(n) for n in nodes]
    insp = build_pipeline_inspection(cfgs)
    try:
        validate_pipeline(insp)
        valid = True
    except Exception:  # noqa
        valid = False
    out = []
    for ni in insp.nodes:
        d = {"invalid": ni.node_class == "Invalid"}
        if d["invalid"]:
            d["invalid_params"] = sorted(i["name"] for i in ni.invalid_parameters)
            errs = []
            for e in ni.errors:
                errs.append("InvalidNodeParameterError" if ni.invalid_parameters else
                            ("PipelineConfigurationError" if "context_key" in e else
                             ("ValueError" if "duplicate parameter name" in e else "other:" + e[:40])))
            d["errors"] = sorted(set(errs))
            d.update(origins={}, created=[], suppressed=[], tin=None, tout=None)
        else:
            origins = {}
            for name, idx in ni.context_params.items():
                origins[name] = ("ctx", idx)
            for name in ni.default_params:
                origins[name] = ("default", None)
            d["origins"] = origins
            d["created"] = sorted(ni.created_keys)
            d["suppressed"] = sorted(ni.suppressed_keys)
            d["tin"] = TY.get(getattr(ni.input_type, "__name__", None)) if ni.input_type is not None else None
            d["tout"] = TY.get(getattr(ni.output_type, "__name__", None)) if ni.output_type is not None else None
            d["errors"] = sorted(set("deleted" if "previously deleted" in e else ("type" if "incompatib" in e else "other:" + e[:40])
                                     for e in ni.errors))
        out.append(d)
    return out, sorted(insp.required_context_keys), valid, insp


def xnode_coq(d):
    def origin(o):
        if o[0] == "default":
            return "ODefault"
        return "(OContext %s)" % cq_opt(o[1], cq_nat)
    return "(mkX %s %s %s %s %s %s %s %s)" % (
        cq_bool(d["invalid"]), cq_list(d.get("invalid_params", []), cq_str),
        cq_list([cq_pair(cq_str(k), origin(v)) for k, v in d["origins"].items()]),
        cq_list(d["created"], cq_str), cq_list(d["suppressed"], cq_str),
        cq_opt(d["tin"]), cq_opt(d["tout"]), cq_list(d["errors"], cq_str))


def case_text(nodes, rep, req, valid):
    inodes = cq_list(["(%s, %s)" % (pg.node_coq(n), out_type(n)) for n in nodes])
    return "(%s, %s, %s, %s)" % (inodes, cq_list([xnode_coq(d) for d in rep]), cq_list(req, cq_str), cq_bool(valid))


class Snapshots:
    """Context snapshot at the entry of every node and the keys every node actually wrote / deleted
    (harness-side wrappers around _PayloadProcessor.process and ContextType.set_value/delete_value; /repo untouched)."""

    def __enter__(self):
        from semantiva.pipeline.nodes.nodes import _PipelineNode
        from semantiva.pipeline.payload_processors import _PayloadProcessor
        from semantiva.context_processors.context_types import ContextType
        self.snaps, self.writes, self.deletes = [], [], []
        self._orig = _PayloadProcessor.process
        self._set, self._del = ContextType.set_value, ContextType.delete_value
        snaps, orig, writes, deletes = self.snaps, self._orig, self.writes, self.deletes
        oset, odel = self._set, self._del

        def process(node, payload=None):
            if isinstance(node, _PipelineNode) and payload is not None:
                snaps.append(dict(payload.context.to_dict()))
                writes.append([])
                deletes.append([])
            return orig(node, payload)

        def set_value(ctx, key, value):
            if writes:
                writes[-1].append(key)
            return oset(ctx, key, value)

        def delete_value(ctx, key):
            if deletes:
                deletes[-1].append(key)
            return odel(ctx, key)
        _PayloadProcessor.process = process
        ContextType.set_value, ContextType.delete_value = set_value, delete_value
        self._cls, self._ctx = _PayloadProcessor, ContextType
        return self

    def __exit__(self, *a):
        self._cls.process = self._orig
        self._ctx.set_value, self._ctx.delete_value = self._set, self._del


def first_data_type(nodes):
    """data type a suitable initial payload must have: that of the first data-carrying node's input."""
    for n in nodes:
        k = n["k"]
        if k in ("rename", "delete", "template"):
            continue
        if k in pg.SOURCES or (k == "sweep" and n["elem"] in ("src", "srcdef")):
            return None
        if k in ("slice", "csum"):
            return "C"
        return "F"
    return None


import re as _re
_MISSING_ARG = _re.compile(r"missing \d+ required (positional|keyword-only) argument")


def dynamic_oracles(ck, nodes, rep, req, insp, rng, counters):
    from semantiva.context_processors import ContextType
    from semantiva.pipeline import Payload, Pipeline
    t0 = first_data_type(nodes)
    data0 = None if t0 is None else (3 if t0 == "F" else [1, 2])
    base = {}
    seq_keys = {"seq", "t_values"} | {sp[1] for n in nodes if n["k"] == "sweep" for _, sp in n["vars"] if sp[0] == "ctx"}
    for k in req:
        base[k] = [1, 2] if k in seq_keys else ("p.txt" if k == "path" else (1 if k == "divisor" else rng.randint(1, 4)))
    variants = [dict(base)]
    extra = dict(base)
    for k in pg.KEYS:
        if k not in extra and rng.random() < 0.3:
            extra[k] = [2, 3] if k in ("seq", "t_values") else rng.randint(1, 4)
    variants.append(extra)
    for vi, ctx0 in enumerate(variants):
        cfgs = [pg.node_impl(n) for n in nodes]
        with Snapshots() as sn, pg.StartLog() as log:
            try:
                pipe = Pipeline(cfgs)
                res = pipe.process(Payload(pg.make_data(data0), ContextType({k: pg.v_impl(v) for k, v in ctx0.items()})))
                exc = None
                final = dict(res.context.to_dict())
            except Exception as ex:  # noqa
                exc, final = ex, None
        counters["dynamic_runs"] += 1
        replay = {"nodes": [pg.node_impl_repr(n) for n in nodes], "descriptors": nodes, "data0": data0, "ctx0": ctx0}
        if exc is not None:
            st, cls = pg.classify(exc)
            idx = len(log.started) - 1
            if cls == "TypeError" and _MISSING_ARG.search(str(exc)):
                # the processor was called without one of its parameters: the parameter was not resolved although the
                # configuration was accepted and every reported key supplied
                replay["failure"] = [idx, "SCall", cls, str(exc)[:200]]
                ck.fail_input("C02:accepted-but-fails-on-flow:SCall:parameter-not-passed",
                              "inspection+validation accepted, required keys supplied, node %d is called without a parameter: %s" % (idx + 1, str(exc)[:160]), replay)
                continue
            if st in ("SResolve", "SGate") or cls == "InvalidNodeParameterError":
                if st == "SResolve":
                    import re
                    m = re.search(r"parameter '([^']+)'", str(exc))
                    key = m.group(1) if m else "?"
                    later = any(key in d["created"] for d in rep[idx + 1:] if not d["invalid"])
                    earlier_sup = any(key in d["suppressed"] for d in rep[:idx] if not d["invalid"])
                    cause = "use-before-create" if later else ("deleted-earlier" if earlier_sup else "other")
                elif st == "SGate":
                    prev = idx - 1
                    ctx_between = prev >= 0 and nodes[prev]["k"] in ("rename", "delete", "template")
                    cause = "across-context-only-node" if ctx_between else "other"
                else:
                    cause = "unknown-parameter"
                replay["failure"] = [idx, st, cls, str(exc)[:200]]
                ck.fail_input("C02:accepted-but-fails-on-flow:%s:%s" % (st, cause),
                              "inspection+validation accepted, required keys supplied, run fails with %s at node %d" % (cls, idx + 1), replay)
            continue
        if vi != 0:
            continue  # exactness is stated for the context that holds just the required keys
        snaps = sn.snaps + [final]
        writer = {}
        for i, n in enumerate(nodes):
            before, after = snaps[i], snaps[i + 1]
            d = rep[i]
            appear = sorted(set(after) - set(before))
            disappear = sorted(set(before) - set(after))
            want_appear = sorted((set(d["created"]) - set(before)) - set(d["suppressed"]))
            want_disappear = sorted(set(d["suppressed"]) & set(before))
            if appear != want_appear or disappear != want_disappear:
                replay2 = dict(replay, node=i + 1, appeared=appear, disappeared=disappear, reported_created=d["created"], reported_suppressed=d["suppressed"])
                kind = n["k"] + (":" + n["elem"] if "elem" in n else "")
                which = "created-key-did-not-appear" if set(want_appear) - set(appear) else (
                    "suppressed-key-did-not-disappear" if set(want_disappear) - set(disappear) else "undeclared-change")
                ck.fail_input("C02:reported-keys-differ-from-run:%s:%s" % (which, kind),
                              "node %d reports created=%s suppressed=%s; the run made %s appear and %s disappear" %
                              (i + 1, d["created"], d["suppressed"], appear, disappear), replay2)
            # origins
            params = pg_params(n)
            cfg = n.get("cfg", {})
            for name in params:
                if name in cfg:
                    actual = ("config", None)
                elif name in before:
                    actual = ("ctx", writer.get(name))
                else:
                    actual = ("default", None)
                reported = ("config", None) if name in cfg else d["origins"].get(name)
                if reported is None:
                    continue
                if tuple(reported) != tuple(actual):
                    replay3 = dict(replay, node=i + 1, parameter=name, reported=list(reported), actual=list(actual))
                    if reported[0] == "ctx" and actual[0] == "ctx":
                        why = "first-creator-not-last-writer"
                    elif reported[0] == "default" and tuple(actual) == ("ctx", None) and name in req:
                        why = "default-shadowed-by-key-a-later-node-requires"
                    else:
                        why = "channel"
                    ck.fail_input("C02:reported-origin-differs-from-run:%s" % why,
                                  "node %d parameter %s: inspection says %s, the value actually comes from %s" % (i + 1, name, reported, actual), replay3)
            wrote = set(sn.writes[i]) if i < len(sn.writes) else set()
            # a key the node is said to create is written by it (also when the key already exists: the later reader's
            # reported origin "context produced by node i" depends on it)
            not_written = sorted(k for k in d["created"] if k not in d["suppressed"] and k not in wrote)
            if not_written:
                kind = n["k"] + (":" + n["elem"] if "elem" in n else "")
                ck.fail_input("C02:reported-keys-differ-from-run:created-key-not-written:%s" % kind,
                              "node %d reports created=%s but never wrote %s (already present: %s)" %
                              (i + 1, d["created"], not_written, sorted(k for k in not_written if k in before)),
                              dict(replay, node=i + 1, reported_created=d["created"], written=sorted(wrote)))
            for k in after:
                if k in wrote or k not in before or (before[k] is not after[k] and _differs(before[k], after[k])):
                    writer[k] = i + 1
            for k in list(writer):
                if k not in after:
                    del writer[k]
        counters["exactness_runs"] += 1


def _differs(a, b):
    """value inequality that tolerates numpy arrays and other objects with non-boolean `!=`"""
    try:
        return bool(a != b)
    except Exception:  # noqa
        return repr(a) != repr(b)


def pg_params(n):
    k = n["k"]
    if k in pg.ELEM:
        return pg.ELEM[k][2]
    if k == "slice":
        return pg.ELEM[n["elem"]][2]
    if k in ("rename", "delete"):
        return [n["a"]]
    if k == "template":
        out = []
        for t, s in n["segs"]:
            if t == "hole" and s not in out:
                out.append(s)
        return out
    if k == "sweep":
        bound = {a for a, _ in n["exprs"]}
        return [s[1] for _, s in n["vars"] if s[0] == "ctx"] + [p for p in pg.ELEM[n["elem"]][2] if p not in bound]
    return []


CORPUS = [
    # a base-typed pass-through probe between mismatched nodes (scalar -> CopyDataProbe -> collection sum)
    [{"k": "src", "cfg": {"value": 1}}, {"k": "copyprobe", "ckey": "k"}, {"k": "csum"}],
    [{"k": "sweep", "elem": "src", "vars": [("t", ("seq", [1, 2]))], "exprs": [("value", ("var", "t"))], "mode": "combinatorial", "broadcast": False},
     {"k": "copyprobe", "ckey": "k"}, {"k": "mul", "cfg": {"factor": 2}}],
    # use-before-create
    [{"k": "src", "cfg": {"value": 1}}, {"k": "mul"}, {"k": "probe", "ckey": "factor"}],
    # type flow across a context-only node
    [{"k": "src", "cfg": {"value": 1}}, {"k": "probe", "ckey": "k"}, {"k": "rename", "a": "k", "b": "j"}, {"k": "csum"}],
    # key created twice, then used
    [{"k": "src", "cfg": {"value": 1}}, {"k": "template", "segs": [("lit", "A"), ("hole", "value")], "out": "path", "cfg": {"value": 1}},
     {"k": "template", "segs": [("lit", "B"), ("hole", "addend")], "out": "path", "cfg": {"addend": 2}}, {"k": "sink"}],
    # delete then require
    [{"k": "src", "cfg": {"value": 1}}, {"k": "delete", "a": "factor"}, {"k": "mul"}],
    # create-and-require in one node
    [{"k": "src", "cfg": {"value": 1}}, {"k": "rename", "a": "k", "b": "k"}],
    # a key renamed onto itself is gone afterwards: a later reader must be rejected (or the key re-created)
    [{"k": "src", "cfg": {"value": 1}}, {"k": "rename", "a": "factor", "b": "factor"}, {"k": "mul"}],
    [{"k": "src", "cfg": {"value": 1}}, {"k": "rename", "a": "m", "b": "m"}, {"k": "template", "segs": [("lit", "A"), ("hole", "m")], "out": "path"}],
    [{"k": "src", "cfg": {"value": 1}}, {"k": "probe", "ckey": "factor"}, {"k": "rename", "a": "factor", "b": "factor"}, {"k": "mul"}],
    [{"k": "src", "cfg": {"value": 1}}, {"k": "rename", "a": "factor", "b": "factor"}, {"k": "probe", "ckey": "factor"}, {"k": "mul"}],
    # a node that requires a key it also creates (the key stays required from the initial context)
    [{"k": "src", "cfg": {"value": 1}}, {"k": "template", "segs": [("hole", "k"), ("lit", "-final")], "out": "k"}, {"k": "probe", "ckey": "j"}],
    [{"k": "sweep", "elem": "src", "vars": [("t", ("ctx", "t_values"))], "exprs": [("value", ("var", "t"))], "mode": "combinatorial", "broadcast": False},
     {"k": "csum"}],
    # a defaulted parameter whose key another node requires, and whose deleted state changes AFTER / BEFORE the node
    [{"k": "src", "cfg": {"value": 1}}, {"k": "muldef"}, {"k": "mul"}, {"k": "delete", "a": "factor"}],
    [{"k": "src", "cfg": {"value": 1}}, {"k": "mul"}, {"k": "delete", "a": "factor"}, {"k": "muldef"}, {"k": "probe", "ckey": "factor"}],
    [{"k": "src", "cfg": {"value": 1}}, {"k": "muldef"}, {"k": "rename", "a": "factor", "b": "j"}],
    # a sweep variable read from a context key spelled like an unbound parameter of the swept element (one name, two roles)
    [{"k": "sweep", "elem": "src", "vars": [("v", ("ctx", "value"))], "exprs": [], "mode": "combinatorial", "broadcast": False}, {"k": "csum"}],
    [{"k": "srcdef"}, {"k": "sweep", "elem": "mul", "vars": [("f", ("ctx", "factor"))], "exprs": [], "mode": "combinatorial", "broadcast": False}],
    [{"k": "srcdef"}, {"k": "sweep", "elem": "mul", "vars": [("f", ("ctx", "factor")), ("g", ("ctx", "factor"))], "exprs": [("factor", ("var", "f"))],
      "mode": "by_position", "broadcast": False}],
    # recreate after delete
    [{"k": "src", "cfg": {"value": 1}}, {"k": "delete", "a": "k"}, {"k": "probe", "ckey": "k"}, {"k": "rename", "a": "k", "b": "factor"}, {"k": "mul"}],
]


def run(ck):
    rng = random.Random(ck.seed * 15485863 + 2)
    thorough = ck.tier == "thorough"
    gen = run_all(["pipeline", "inspect"])
    ck.build_models(["Model/PipelineLib.v", "Model/InspectCases.v", "Gen/PipelineGen.v", "Gen/InspectGen.v"])
    proved = ck.prove(gen_results=gen)
    if thorough and proved:
        ck.coqchk()
    pg.setup_impl()

    stats, cases, seen = {}, [], set()
    n_cases = 5000 if thorough else 600
    pipelines = [json.loads(json.dumps(p)) for p in CORPUS]
    def _tup(e):
        if isinstance(e, list) and e and isinstance(e[0], str) and e[0] in ("var", "const", "un", "bin", "call"):
            return tuple(_tup(x) for x in e)
        if isinstance(e, list):
            return [_tup(x) for x in e]
        return e
    for p in pipelines:  # json turns tuples into lists; restore them
        for n in p:
            if "segs" in n:
                n["segs"] = [tuple(s) for s in n["segs"]]
            if "vars" in n:
                n["vars"] = [(v, tuple(sp)) for v, sp in n["vars"]]
            if "exprs" in n:
                n["exprs"] = [(a, _tup(e)) for a, e in n["exprs"]]
    attempts = 0
    while len(pipelines) < n_cases and attempts < 3 * n_cases:
        attempts += 1
        nodes, data0, need = pg.gen_pipeline(rng, stats, maxlen=7, malformed=(0.1 if attempts % 4 == 0 else 0.0), extra=True)
        key = json.dumps(nodes, sort_keys=True, default=str)
        if key in seen:
            continue
        seen.add(key)
        pipelines.append(nodes)
    counters = {"dynamic_runs": 0, "exactness_runs": 0, "accepted": 0, "rejected_by_validation": 0, "loader_rejected": 0}
    for nodes in pipelines:
        try:
            rep, req, valid, insp = impl_report(nodes)
        except Exception as ex:  # inspection itself raised: loader-level rejection (outside the quantifier)
            counters["loader_rejected"] += 1
            continue
        cases.append((nodes, rep, req, valid))
        if valid:
            counters["accepted"] += 1
            dynamic_oracles(ck, nodes, rep, req, insp, rng, counters)
        else:
            counters["rejected_by_validation"] += 1
    one_object_oracle(ck, [c[0] for c in cases if c[3]][: (120 if ck.tier == "thorough" else 25)], rng, counters)
    counters["cli_run_space_runs"] = cli_run_space_oracle(ck)
    shard = 200
    texts = [HEADER % ";\n".join(case_text(*c) for c in cases[i:i + shard]) for i in range(0, len(cases), shard)]
    per, errs = core.mismatches("C02", texts, timeout=900)
    bad = []
    for k, ls in enumerate(per):
        if ls is not None:
            bad += [k * shard + b for b in ls[0]]
    for k, rc, out in errs:
        ck.corr_problem("correspondence shard %d did not evaluate (rc=%s)" % (k, rc), out)
    for b in bad[:6]:
        nodes, rep, req, valid = cases[b]
        ck.corr_problem("model inspection report vs build_pipeline_inspection/validate_pipeline disagree",
                        json.dumps({"nodes": [pg.node_impl_repr(n) for n in nodes], "report": rep, "required": req, "valid": valid}, default=str)[:2500],
                        case={"descriptors": nodes})
    ck.cov["evaluations"] = len(cases)
    ck.cov["traces_validated_against_impl"] = len(cases) - len(bad)
    ck.cov["distinct_nontrivial"] = sum(1 for c in cases if any(d["origins"] for d in c[1] if not d["invalid"]))
    ck.cov["rule"] = ("distinct pipelines (corpus of %d flow corner cases + seeded generator, length 1..7, 25%% of draws allow malformed nodes); the whole "
                      "inspection report is compared; non-trivial = at least one parameter resolved from context/default; every accepted pipeline is then run "
                      "with exactly the required keys and with extra keys (dynamic oracles)" % len(CORPUS))
    ck.notes["counters"] = counters
    ck.notes["generator_distribution"] = dict(sorted(stats.items()))
    ck.cov["samples"] = [{"nodes": [pg.node_impl_repr(n) for n in c[0]], "required": c[2], "valid": c[3],
                          "report": [{k: v for k, v in d.items()} for d in c[1]]} for c in cases[:3]]
    ck.log("report correspondence: %d/%d agree; %s" % (len(cases) - len(bad), len(cases), counters))
    ck.cov["trusted_base"] = TRUSTED


# configurations outside the modelled library (direct oracle only): a context processor specialised through node parameters
XS, YS = [1.0, 2.0, 3.0, 4.0], [2.0, 4.0, 6.0, 8.0]
FIT = "model:PolynomialFittingModel:degree=1"
EXTRA_CONFIGS = [
    ("model-fit-mapped-variables",
     [{"processor": "FloatValueDataSource", "parameters": {"value": 2.0}},
      {"processor": "ModelFittingContextProcessor", "parameters": {"fitting_model": FIT, "independent_var_key": "xs", "dependent_var_key": "ys", "context_key": "fit_out"}},
      {"processor": 'template:"fit={fit_out}":label'}], {"xs": XS, "ys": YS}),
    ("model-fit-output-key-only",
     [{"processor": "FloatValueDataSource", "parameters": {"value": 2.0}},
      {"processor": "ModelFittingContextProcessor", "parameters": {"fitting_model": FIT, "context_key": "fit_out"}},
      {"processor": "FloatCollectValueProbe", "context_key": "seen"}], {"x_values": XS, "y_values": YS}),
    ("model-fit-defaults",
     [{"processor": "FloatValueDataSource", "parameters": {"value": 2.0}},
      {"processor": "ModelFittingContextProcessor", "parameters": {"fitting_model": FIT}}], {"x_values": XS, "y_values": YS}),
    ("model-fit-mapped-then-delete",
     [{"processor": "FloatValueDataSource", "parameters": {"value": 2.0}},
      {"processor": "ModelFittingContextProcessor", "parameters": {"fitting_model": FIT, "independent_var_key": "xs", "dependent_var_key": "ys", "context_key": "fit_out"}},
      {"processor": "delete:fit_out"}], {"xs": XS, "ys": YS}),
]


def _inspect_then_run(cfg, values, data0=None):
    """inspect + validate `cfg`, then run THE SAME OBJECT with exactly the required keys.
    -> None (rejected / not applicable) | (problem-signature, text)"""
    import copy
    from semantiva.context_processors import ContextType
    from semantiva.inspection import build_pipeline_inspection, validate_pipeline
    from semantiva.pipeline import Payload, Pipeline
    ins = build_pipeline_inspection(cfg)
    try:
        validate_pipeline(ins)
    except Exception:  # noqa
        return None
    required = sorted(ins.required_context_keys)
    if any(k not in values for k in required):
        return None
    initial = {k: copy.deepcopy(values[k]) for k in required}
    reported = set()
    for n in ins.nodes:
        reported |= set(n.created_keys)
        reported -= set(n.suppressed_keys)
    try:
        res = Pipeline(cfg).process(Payload(pg.make_data(data0), ContextType(dict(initial))))
    except Exception as ex:  # noqa
        st, cls = pg.classify(ex)
        if st in ("SResolve", "SGate") or cls == "InvalidNodeParameterError" or (cls == "TypeError" and _MISSING_ARG.search(str(ex))):
            return ("accepted-but-fails-on-flow", "inspected and accepted, required keys %s supplied, the run of the same configuration object raises %s: %s" % (required, cls, str(ex)[:160]))
        return None
    appeared = set(res.context.to_dict()) - set(initial)
    if appeared != reported - set(initial):
        return ("reported-keys-differ-from-run", "inspection of the same configuration object reported created keys %s, the run made %s appear" % (sorted(reported), sorted(appeared)))
    return None


def cli_run_space_oracle(ck):
    """`semantiva run` over a run space of several runs: a key supplied through --context that a node deletes (or renames
    away) after using it.  Inspection accepts the configuration and every required key is supplied for EVERY run, so no run
    may fail on parameter resolution: each run starts from the supplied context, not from what the run before left."""
    import subprocess
    import tempfile
    import yaml
    n = 0
    cases = {
        "delete-after-use": [{"processor": "FloatValueDataSource"}, {"processor": "FloatMultiplyOperation"}, {"processor": "delete:factor"},
                             {"processor": "FloatCollectValueProbe", "context_key": "seen"}],
        "rename-after-use": [{"processor": "FloatValueDataSource"}, {"processor": "FloatMultiplyOperation"}, {"processor": "rename:factor:old_factor"}],
        "template-consumes": [{"processor": "FloatValueDataSource"}, {"processor": 'template:"f={factor}":label'}, {"processor": "delete:factor"},
                              {"processor": "FloatMultiplyOperationWithDefault"}],
    }
    for name, nodes in cases.items():
        d = tempfile.mkdtemp(prefix="verif_c02cli_")
        try:
            doc = {"extensions": ["semantiva-examples"], "pipeline": {"nodes": nodes},
                   "run_space": {"blocks": [{"mode": "by_position", "context": {"value": [1.0, 2.0, 3.0]}}]}}
            with open(os.path.join(d, "p.yaml"), "w") as f:
                yaml.safe_dump(doc, f, sort_keys=False)
            env = dict(os.environ)
            env.update({"PYTHONPATH": core.REPO, "PYTHONHASHSEED": "0", "PYTHONDONTWRITEBYTECODE": "1"})
            p = subprocess.run([core.PY, "-m", "semantiva.cli", "run", "p.yaml", "--context", "factor=2.0"], cwd=d, env=env,
                               stdout=subprocess.PIPE, stderr=subprocess.PIPE, text=True, timeout=120)
            n += 1
            if p.returncode != 0:
                tail = [l for l in (p.stdout + p.stderr).splitlines() if l.strip()][-2:]
                unresolved = "Unable to resolve parameter" in (p.stdout + p.stderr)
                if unresolved:
                    ck.fail_input("C02:accepted-but-fails-on-flow:cli-run-space:" + name,
                                  "`semantiva run` over 3 runs with --context factor=2.0 (the pipeline removes `factor` after using it): exit code %d, %s"
                                  % (p.returncode, " | ".join(tail)[:300]), {"kind": "cli-run-space", "case": name, "nodes": nodes})
                else:
                    ck.corr_problem("cli run-space oracle: `semantiva run` failed for another reason (%s)" % name, " | ".join(tail)[:400])
        except Exception as ex:  # noqa
            ck.corr_problem("cli run-space oracle could not run (%s)" % name, repr(ex)[:300])
        finally:
            import shutil
            shutil.rmtree(d, ignore_errors=True)
    return n


def one_object_oracle(ck, pipelines, rng, counters):
    """A program that inspects its configuration and then runs it (what `semantiva run` does) hands ONE object to both."""
    import copy
    n = 0
    for name, cfg, values in EXTRA_CONFIGS:
        try:
            fresh = _inspect_then_run_fresh(cfg, values)
            got = _inspect_then_run(copy.deepcopy(cfg), values)
        except Exception as ex:  # noqa
            ck.corr_problem("one-object oracle could not run configuration %s" % name, repr(ex))
            continue
        n += 1
        for tag, pr in (("fresh-copies", fresh), ("one-object", got)):
            if pr is not None:
                ck.fail_input("C02:%s:%s:%s" % (pr[0], tag, name), pr[1], {"kind": "one-object", "config": cfg, "values": values, "how": tag})
    for nodes in pipelines:
        t0 = first_data_type(nodes)
        data0 = None if t0 is None else (3 if t0 == "F" else [1, 2])
        values = {k: ([1, 2] if k in ("seq", "t_values") else ("p.txt" if k == "path" else 1)) for k in pg.KEYS + ["path", "divisor", "t_values"]}
        try:
            got = _inspect_then_run([pg.node_impl(x) for x in nodes], {k: pg.v_impl(v) for k, v in values.items()}, data0)
        except Exception:  # noqa
            continue
        n += 1
        if got is not None:
            ck.fail_input("C02:%s:one-object:generated" % got[0], got[1], {"kind": "one-object-generated", "descriptors": nodes, "nodes": [pg.node_impl_repr(x) for x in nodes]})
    counters["one_object_runs"] = n


def _inspect_then_run_fresh(cfg, values):
    """the same with independent deep copies for inspection and run (reference)"""
    import copy
    from semantiva.context_processors import ContextType
    from semantiva.inspection import build_pipeline_inspection, validate_pipeline
    from semantiva.pipeline import Payload, Pipeline
    ins = build_pipeline_inspection(copy.deepcopy(cfg))
    try:
        validate_pipeline(ins)
    except Exception:  # noqa
        return None
    required = sorted(ins.required_context_keys)
    if any(k not in values for k in required):
        return None
    initial = {k: copy.deepcopy(values[k]) for k in required}
    reported = set()
    for n in ins.nodes:
        reported |= set(n.created_keys)
        reported -= set(n.suppressed_keys)
    try:
        res = Pipeline(copy.deepcopy(cfg)).process(Payload(None, ContextType(dict(initial))))
    except Exception as ex:  # noqa
        st, cls = pg.classify(ex)
        if st in ("SResolve", "SGate") or cls == "InvalidNodeParameterError":
            return ("accepted-but-fails-on-flow", "inspected and accepted, required keys %s supplied, the run raises %s: %s" % (required, cls, str(ex)[:160]))
        return None
    appeared = set(res.context.to_dict()) - set(initial)
    if appeared != reported - set(initial):
        return ("reported-keys-differ-from-run", "inspection reported created keys %s, the run made %s appear" % (sorted(reported), sorted(appeared)))
    return None


def replay(obj):
    r = obj["replay"]
    pg.setup_impl()
    if r.get("kind") == "one-object":
        import copy
        pr = _inspect_then_run(copy.deepcopy(r["config"]), r["values"]) if r.get("how") == "one-object" else _inspect_then_run_fresh(r["config"], r["values"])
        print("configuration:", json.dumps(r["config"]))
        print("now:", pr)
        return 1 if pr else 0
    rep, req, valid, insp = impl_report(r["descriptors"])
    print("nodes:", json.dumps(r["nodes"]))
    print("inspection: valid=%s required=%s" % (valid, req))
    out = pg.run_impl(r["descriptors"], r.get("data0"), r["ctx0"])
    print("run with ctx0=%s data0=%s ->" % (r["ctx0"], r.get("data0")), out)
    for k in ("failure", "node", "appeared", "disappeared", "reported_created", "parameter", "reported", "actual"):
        if k in r:
            print(" ", k, "=", r[k])
    return 0


TRUSTED = [
    "Coq 8.16.1 kernel (coqc), vm_compute; no native_compute",
    "models: coq/Model/Inspect.v (transcription of build_pipeline_inspection / validator with three variant facts), Model/Pipeline.v executor",
    "translator harness/translate/inspect.py (required-key computation, type-flow loop shape, key_origin update; fail-closed)",
    "correspondence harness: whole-report comparison (harness/props/c02.py), dynamic oracles wrap _PayloadProcessor.process in the harness process",
    "soundness is relative to processors that honour their declarations (write every declared created key, produce their declared output type): "
    "stated as hypotheses of the theorem; the None-valued rename/delete corner breaks honesty and is reported by oracle O2",
]
FINISH = {"level": "proof", "assumptions": [
    "the initial payload's data type is the one the first data-carrying node accepts (the validator cannot see the payload)",
    "processors are honest about created keys and output type (checked dynamically by oracle O2 and the C01 correspondence)"]}
