"""C03 — Parameter sweeps expand to exactly the documented element sequence.

proof side : Properties/C03.v over Model/Sweep.v (product order, by_position/broadcast, one element per
             step, merge precedence, publication of <var>_values, YAML variable forms)
tie        : Gen/PipelineGen.v facts (sorted names in combinatorial mode, probe sweep publication,
             two-element-list conversion) + differential execution of sweep-centred pipelines against
             (a) the Impl variant of the model (generated facts) and (b) the Spec variant (documented behaviour)
search     : Spec disagreements are failing inputs; plus direct oracles on the implementation
             (<var>_values present and equal to the materialised sequence; [a, b] yields two steps).
"""
from __future__ import annotations

import json
import random

from harness import core
from harness.lib import pipegen as pg
from harness.props import c01
from harness.translate import run_all

HEADER = c01.HEADER


def case_text(nodes, data0, ctx0, outcome, probe_pub, two_flag):
    return "(%s, %s, %s, %s)" % (core.cq_list([pg.node_coq(n, probe_pub, two_flag) for n in nodes]), pg.data_coq(data0),
                                 pg.ctx_coq(ctx0), pg.expect_coq(outcome))


def evaluate(cases, tag, probe_pub, two_flag, shard=200):
    texts = []
    for i in range(0, len(cases), shard):
        texts.append(HEADER % ";\n".join(case_text(*c, probe_pub, two_flag) for c in cases[i:i + shard]))
    per, errs = core.mismatches(tag, texts, timeout=900)
    bad = []
    for k, ls in enumerate(per):
        if ls is not None:
            bad += [k * shard + b for b in ls[0]]
    return bad, errs


def gen_sweep_pipeline(rng, stats):
    need = {}
    nodes = []
    kind = rng.choice(["src", "src", "op", "op", "probe", "probe"])
    if kind == "src":
        nodes.append(pg.gen_sweep(rng, rng.choice(["src", "srcdef"]), stats, need))
    else:
        if rng.random() < 0.8:
            first = {"k": rng.choice(["srcdef", "csrc", "psrc"])}
        else:
            first = {"k": "src", "cfg": {"value": rng.randint(-3, 5)}}
        nodes.append(first)
        if rng.random() < 0.3:
            nodes.append({"k": "probe", "ckey": rng.choice(["k", "seq"])})
        nodes.append(pg.gen_sweep(rng, rng.choice(["mul", "muldef", "add"]) if kind == "op" else "probe", stats, need))
    # followers
    for _ in range(rng.randint(0, 2)):
        if kind == "probe":
            f = rng.choice([{"k": "square"}, {"k": "probe", "ckey": "j"}, {"k": "sink0"}])
        else:
            f = rng.choice([{"k": "slice", "elem": "square"}, {"k": "slice", "elem": "probe", "ckey": "j"}, {"k": "csum"}])
            if f["k"] == "csum":
                kind = "probe"  # float afterwards
        nodes.append(f)
    # sometimes use the raw list form of an explicit sequence (never of length 2 here: that is oracle (b))
    for n in nodes:
        if n["k"] == "sweep":
            n["vars"] = [(v, ("rawlist", s[1]) if (s[0] == "seq" and len(s[1]) != 2 and rng.random() < 0.4) else s) for v, s in n["vars"]]
    return nodes, None, need


def materialised(spec, ctx):
    if spec[0] in ("seq", "rawlist"):
        return list(spec[1])
    if spec[0] == "range":
        _, lo, hi, steps, endpoint = spec
        div = (steps - 1) if endpoint else steps
        if div == 0:
            return [lo] * steps
        if (hi - lo) % div:
            return None
        st = (hi - lo) // div
        return [lo + i * st for i in range(steps)]
    v = ctx.get(spec[1])
    return v if isinstance(v, list) and v else None


def run(ck):
    rng = random.Random(ck.seed * 7907 + 3)
    thorough = ck.tier == "thorough"
    gen = run_all(["pipeline"])
    ck.build_models(["Model/PipelineLib.v", "Gen/PipelineGen.v"])
    proved = ck.prove(gen_results=gen)
    if thorough and proved:
        ck.coqchk()
    pg.setup_impl()
    facts = open(core.COQ + "/Gen/PipelineGen.v").read()
    fact_pub = "probe_sweep_publishes : bool := true" in facts
    fact_two = "two_element_list_is_range : bool := true" in facts

    stats = {}
    n_cases = 5000 if thorough else 600
    cases, dropped, seen = [], {"rejected": 0, "unsupported": 0}, set()
    attempts = 0
    while len(cases) < n_cases and attempts < 3 * n_cases:
        attempts += 1
        nodes, data0, need = gen_sweep_pipeline(rng, stats)
        ctx0 = pg.gen_ctx(rng, p=0.1, need=need)
        key = json.dumps([nodes, ctx0], sort_keys=True, default=str)
        if key in seen:
            continue
        seen.add(key)
        out = pg.run_impl(nodes, data0, ctx0)
        if out[0] in ("rejected", "unsupported"):
            dropped[out[0]] += 1
            continue
        cases.append((nodes, data0, ctx0, out))
    kinds = {"done": 0, "failed": 0, "cfailed": 0}
    for c in cases:
        kinds[c[3][0]] += 1
    # (a) Impl variant: must agree everywhere (ties the model to the code)
    bad_impl, errs = evaluate(cases, "C03_impl", "probe_sweep_publishes", "two_element_list_is_range")
    for k, rc, out in errs:
        ck.corr_problem("correspondence shard %d did not evaluate (rc=%s)" % (k, rc), out)
    for b in bad_impl[:5]:
        nodes, data0, ctx0, out = cases[b]
        ck.corr_problem("Impl-variant model vs implementation disagree on a sweep pipeline",
                        json.dumps({"nodes": [pg.node_impl_repr(n) for n in nodes], "ctx0": ctx0, "implementation": list(out)})[:1500],
                        case={"descriptors": nodes, "ctx0": ctx0})
    # (b) Spec variant: documented behaviour; a disagreement is a failing input
    bad_spec, errs2 = evaluate(cases, "C03_spec", "true", "false")
    for k, rc, out in errs2:
        ck.corr_problem("spec shard %d did not evaluate (rc=%s)" % (k, rc), out)
    bad_impl_set = set(bad_impl)
    for b in bad_spec:
        nodes, data0, ctx0, out = cases[b]
        has_probe_sweep = any(n["k"] == "sweep" and n["elem"] == "probe" for n in nodes)
        if has_probe_sweep and not fact_pub and b not in bad_impl_set:
            sig = "C03:probe-sweep-values-not-published"
            what = "a swept probe never publishes <var>_values (the probe processor has no access to the pipeline context)"
        else:
            sig = c01.signature_of(nodes, out).replace("C01:", "C03:")
            what = "implementation outcome differs from the documented sweep semantics (Spec model)"
        ck.fail_input(sig, what, {"nodes": [pg.node_impl_repr(n) for n in nodes], "descriptors": nodes, "data0": data0,
                                  "ctx0": ctx0, "implementation": list(out)})
    ck.cov["evaluations"] = len(cases)
    ck.cov["traces_validated_against_impl"] = len(cases) - len(bad_impl)
    ck.cov["distinct_nontrivial"] = sum(1 for c in cases if any(n["k"] == "sweep" and (len(n["vars"]) > 1 or n["exprs"]) for n in c[0]))
    ck.cov["rule"] = ("distinct sweep-centred pipelines (1..3 variables: explicit/raw-list sequences, integer-step linear ranges with/without endpoint, "
                      "from_context; both modes; broadcast on/off incl. non-divisible lengths; expressions over + - * // %% unary- abs/min/max; "
                      "source/operation/probe elements; non-swept parameters in config/context/default/missing; 0..2 follower nodes); "
                      "non-trivial = more than one variable or at least one expression; dropped %s" % dropped)
    ck.notes["outcomes"] = kinds
    ck.notes["generator_distribution"] = dict(sorted(stats.items()))
    ck.notes["spec_disagreements"] = len(bad_spec)
    ck.notes["generated_facts"] = {"probe_sweep_publishes": fact_pub, "two_element_list_is_range": fact_two}
    ck.cov["samples"] = [{"nodes": [pg.node_impl_repr(n) for n in c[0]], "ctx0": c[2], "outcome": list(c[3])} for c in cases[:4]]
    ck.log("correspondence: impl-variant %d/%d agree, spec-variant %d/%d agree; outcomes %s" %
           (len(cases) - len(bad_impl), len(cases), len(cases) - len(bad_spec), len(cases), kinds))

    # direct oracle (1): <var>_values is published with the materialised sequence, for all three kinds
    n_or = 0
    for elem, pre in (("src", []), ("mul", [{"k": "srcdef"}]), ("probe", [{"k": "srcdef"}])):
        for trial in range(12 if thorough else 4):
            sw = pg.gen_sweep(rng, elem, {}, {})
            sw["vars"] = [(v, s) for v, s in sw["vars"] if s[0] != "ctx"] or [("t", ("seq", [1, 2, 3]))]
            sw["exprs"] = [(a, e) for a, e in sw["exprs"] if all(x in dict(sw["vars"]) for x in _vars_of(e))]
            sw["mode"], sw["broadcast"] = "combinatorial", False
            sw.setdefault("cfg", {})
            for pn in pg.ELEM[elem][2]:
                if pn not in dict(sw["exprs"]):
                    sw["cfg"][pn] = 1
            if elem == "probe":
                sw["ckey"] = "k"
            nodes = pre + [sw]
            out = pg.run_impl(nodes, None, {})
            n_or += 1
            if out[0] != "done":
                continue
            for v, s in sw["vars"]:
                want = materialised(s, {})
                if want is None:
                    continue
                got = out[2].get(v + "_values")
                if got != want:
                    ck.fail_input("C03:probe-sweep-values-not-published" if elem == "probe" else "C03:values-not-published:" + elem,
                                  "%s_values is %r after a %s sweep, expected the materialised sequence %r" % (v, got, elem, want),
                                  {"nodes": [pg.node_impl_repr(n) for n in nodes], "descriptors": nodes, "data0": None, "ctx0": {},
                                   "implementation": list(out)})
    # direct oracle (2): an explicit two-element numeric sequence yields two steps
    for a, b in ((1, 2), (0, 9), (-1, 1)):
        nodes = [{"k": "sweep", "elem": "src", "vars": [("t", ("rawlist", [a, b]))], "exprs": [("value", ("var", "t"))],
                  "mode": "combinatorial", "broadcast": False}]
        pg.setup_impl()
        from semantiva.context_processors import ContextType
        from semantiva.pipeline import Payload, Pipeline
        res = Pipeline([pg.node_impl(n) for n in nodes]).process(Payload(None, ContextType({})))
        n_steps = len(list(res.data))
        n_or += 1
        if n_steps != 2:
            ck.fail_input("C03:two-element-sequence-becomes-range",
                          "variables: {t: [%s.0, %s.0]} produced %d elements instead of 2" % (a, b, n_steps),
                          {"nodes": [pg.node_impl_repr(n) for n in nodes], "descriptors": nodes, "data0": None, "ctx0": {},
                           "implementation": ["steps", n_steps]})
    # direct oracle (3): the TYPE of a computed parameter.  The model's numbers are untyped integers, so that an expression
    # value reaches the wrapped processor as computed (int stays int, bool stays bool, str stays str) is checked directly:
    # reference = Python's own evaluation of the expression text over the variable values (explicit sequences only:
    # ranges are numpy arrays), in the documented step order.
    n_or += typed_parameter_oracle(ck, rng, 40 if thorough else 12)
    # direct oracle (3b): sweep variables spelled like the whitelisted functions (legal names): the expression reads the VARIABLE
    n_or += function_named_variables_oracle(ck)
    # direct oracle (3c): one sweep class shared by two processors run concurrently with different contexts
    n_or += shared_sweep_class_oracle(ck, rng, 6 if thorough else 3)
    # direct oracle (4): an element that raises on ONE step.  "One element per sweep step": whatever the exception class, the
    # node must fail (the run raises); it must never return a collection / probe list with fewer elements than steps.
    n_or += failing_step_oracle(ck, rng, 30 if thorough else 10)
    # direct oracle (5): a swept element that keeps per-instance state.  Element i is the wrapped processor applied to the
    # step's parameters: every step gets what a fresh application gives, whatever ran in the steps before.
    n_or += stateful_element_oracle(ck, rng, 8 if thorough else 3)
    # linear ranges over binary64 (Model/Linspace.v, PrimFloat): the sequence the implementation materialises, the
    # published <var>_values and the elements, bit for bit
    n_or += linspace_oracle(ck, rng, 1500 if thorough else 400)
    n_or += log_range_oracle(ck, rng, 300 if thorough else 80)
    ck.notes["direct_oracle_runs"] = n_or
    ck.cov["trusted_base"] = c01.TRUSTED


def stateful_element_oracle(ck, rng, n):
    from semantiva.context_processors import ContextType
    from semantiva.pipeline import Payload, Pipeline
    from semantiva.registry.processor_registry import ProcessorRegistry
    ProcessorRegistry.register_modules(["harness.lib.components"])
    runs = 0
    for trial in range(n):
        fs = [float(rng.randint(1, 5)) for _ in range(rng.randint(2, 5))]
        x = float(rng.randint(1, 4))
        for kind, proc in (("operation", "VerifStatefulScaleOperation"), ("probe", "VerifStatefulScaleProbe")):
            sw = {"parameters": {"factor": "f"}, "variables": {"f": {"values": list(fs)}}}
            node = {"processor": proc, "derive": {"parameter_sweep": sw}}
            if kind == "operation":
                sw["collection"] = "FloatDataCollection"
            else:
                node["context_key"] = "out"
            pipe = Pipeline([{"processor": "FloatValueDataSource", "parameters": {"value": x}}, node])
            for rep in (0, 1):        # the same Pipeline object run twice: the second run starts afresh too
                try:
                    res = pipe.process(Payload(None, ContextType({})))
                except Exception as ex:  # noqa
                    ck.corr_problem("stateful-element oracle: the sweep did not run", repr(ex)[:300])
                    return runs
                runs += 1
                if kind == "operation":
                    got, want = [e.data for e in res.data], [x * f for f in fs]
                else:
                    got, want = [list(e) for e in res.context.get_value("out")], [[x * f, 0] for f in fs]
                if got != want:
                    ck.fail_input("C03:element-depends-on-earlier-steps:" + kind,
                                  "a swept %s that keeps per-instance state: elements %s, the wrapped processor applied to each step's parameters gives %s "
                                  "(run %d of one Pipeline object)" % (kind, got, want, rep + 1),
                                  {"processor": proc, "factors": fs, "input": x, "run": rep + 1, "got": got, "want": want})
                    break
    # the published <var>_values list handed to user code: a consumer (a later node, or the caller between two runs) that
    # changes it IN PLACE must not change what the next run of the same Pipeline object sweeps over
    from harness.lib import components as HC
    for how in ("node-sorts-in-place", "caller-reverses-between-runs", "caller-pops-between-runs"):
        vals = [3.0, 1.0, 2.0]
        nodes = [{"processor": "FloatValueDataSource", "parameters": {"value": 2.0}},
                 {"processor": "FloatMultiplyOperation",
                  "derive": {"parameter_sweep": {"parameters": {"factor": "t"}, "variables": {"t": {"values": list(vals)}}, "collection": "FloatDataCollection"}}}]
        if how == "node-sorts-in-place":
            nodes.append({"processor": HC.VerifSortInPlaceContextProcessor})
        try:
            pipe = Pipeline(nodes)
            outs = []
            for rep in (0, 1, 2):
                res = pipe.process(Payload(None, ContextType({})))
                outs.append(([e.data for e in res.data], list(res.context.get_value("t_values")) if how != "node-sorts-in-place" else None))
                pub = res.context.get_value("t_values")
                if how == "caller-reverses-between-runs":
                    pub.reverse()
                elif how == "caller-pops-between-runs" and len(pub) > 1:
                    pub.pop()
                runs += 1
        except Exception as ex:  # noqa
            ck.fail_input("C03:sweep-depends-on-earlier-runs:" + how, "three runs of one Pipeline object (%s): %r" % (how, ex),
                          {"kind": "published-list-mutated", "how": how, "values": vals})
            continue
        want = [2.0 * v for v in vals]
        bad = [i for i, (el, pv) in enumerate(outs) if el != want or (pv is not None and pv != vals)]
        if bad:
            ck.fail_input("C03:sweep-depends-on-earlier-runs:" + how,
                          "explicit sequence t = %s; %s; run %d of one Pipeline object yields elements %s and t_values %s, the declared sequence gives %s"
                          % (vals, how, bad[0] + 1, outs[bad[0]][0], outs[bad[0]][1], want),
                          {"kind": "published-list-mutated", "how": how, "values": vals, "runs": [list(o[0]) for o in outs]})
    # one in-memory configuration used for several builds (inspection, then a Pipeline, then another Pipeline): every build
    # sweeps -- building must not take the sweep definition out of the caller's configuration
    from semantiva.inspection import build_pipeline_inspection
    cfg = [{"processor": "FloatValueDataSource", "parameters": {"value": 2.0}},
           {"processor": "FloatMultiplyOperation",
            "derive": {"parameter_sweep": {"parameters": {"factor": "t"}, "variables": {"t": {"values": [1.0, 2.0, 3.0]}}, "collection": "FloatDataCollection"}}}]
    got = []
    try:
        build_pipeline_inspection(cfg)
        for rep in range(3):
            res = Pipeline(cfg).process(Payload(None, ContextType({})))
            d = res.data
            got.append(([e.data for e in d] if hasattr(d, "__iter__") else d.data, res.context.get_value("t_values")))
            runs += 1
    except Exception as ex:  # noqa
        got.append(("raises", repr(ex)[:120]))
    if got != [([2.0, 4.0, 6.0], [1.0, 2.0, 3.0])] * 3:
        ck.fail_input("C03:sweep-depends-on-earlier-builds",
                      "one configuration object inspected and then built three times: the builds yield %s, each must yield ([2.0, 4.0, 6.0], t_values [1.0, 2.0, 3.0])" % (got,),
                      {"kind": "config-reused-for-several-builds", "builds": [list(g) for g in got]})
    return runs


def log_range_oracle(ck, rng, n):
    """Log-scale ranges (not in the model: libm): the materialised sequence is geometric, lo * (hi/lo) ** (i/div) with div = steps-1
    with the endpoint and steps without it, within a relative tolerance of 1e-9; one value per step; published as materialised."""
    import math
    import numpy as np
    import semantiva.data_processors.parametric_sweep_factory as psf
    runs = 0
    for trial in range(n):
        lo = rng.choice([1.0, 10.0, 0.001, 2.5, 1e-6, 300.0, rng.uniform(0.01, 50.0)])
        hi = rng.choice([1000.0, 0.1, 7.0, 1e6, lo, rng.uniform(0.01, 5000.0)])
        steps = rng.choice([1, 2, 3, 4, 5, 8])
        e = rng.random() < 0.5
        try:
            with np.errstate(all="ignore"):
                seqs, created = psf._materialize_sequences(vars={"t": psf.RangeSpec(lo, hi, steps, scale="log", endpoint=e)}, params={})
            got = [float(x) for x in seqs["t"]]
        except Exception as ex:  # noqa
            ck.fail_input("C03:log-range-rejected", "log range lo=%r hi=%r steps=%d endpoint=%s: %r" % (lo, hi, steps, e, ex), {"lo": lo, "hi": hi, "steps": steps, "endpoint": e})
            continue
        runs += 1
        div = (steps - 1) if e else steps
        want = [lo * (hi / lo) ** (i / div) if div else lo for i in range(steps)]
        ok = len(got) == steps and all(math.isclose(a, b, rel_tol=1e-9, abs_tol=0.0) for a, b in zip(got, want)) and [float(x) for x in created["t_values"]] == got
        if not ok:
            ck.fail_input("C03:log-range-values",
                          "log range lo=%r hi=%r steps=%d endpoint=%s materialises %s, the documented geometric sequence is %s" % (lo, hi, steps, e, got[:6], want[:6]),
                          {"kind": "log-range", "lo": lo, "hi": hi, "steps": steps, "endpoint": e, "got": got, "want": want})
            break
    return runs


LIN_HEADER = """From Coq Require Import List ZArith Bool PrimFloat. Import ListNotations.
From SV Require Import Model.Linspace.
Open Scope float_scope.
Definition cases : list lcase := [
%s
].
Close Scope float_scope.
Eval vm_compute in map fst (filter (fun ic => lbad (snd ic)) (combine (seq 0 (length cases)) cases)).
"""


def _flit(x):
    import math
    x = float(x)
    if math.isnan(x):
        return "nan"
    if math.isinf(x):
        return "infinity" if x > 0 else "neg_infinity"
    h = x.hex()
    return "(-%s)" % h[1:] if h.startswith("-") else h


def _rand_bound(rng):
    k = rng.random()
    if k < 0.3:
        return rng.randint(-20, 20)            # YAML integers stay integers
    if k < 0.55:
        return float(rng.randint(-20, 20))
    if k < 0.8:
        return rng.uniform(-100, 100)
    if k < 0.9:
        return rng.uniform(-1, 1) * 10 ** rng.randint(-300, 300)
    return rng.choice([0.0, -0.0, 5e-324, 1e-310, 2.2250738585072014e-308, 1e308, 0.1, 1 / 3])


def linspace_oracle(ck, rng, n):
    """Linear RangeSpec variables with arbitrary binary64 bounds (ascending, descending, equal, denormal, huge), 1..60
    steps, with and without endpoint.  Half of the cases ask the implementation's _materialize_sequences directly, the
    other half run a whole swept source (value = t) from a configuration and read the published t_values and the
    elements.  Every sequence is compared inside Coq with Model/Linspace.v; numpy.linspace called by the harness is the
    tie-breaker that tells a wrong model from a wrong implementation."""
    import numpy as np
    import semantiva.data_processors.parametric_sweep_factory as psf
    from semantiva.context_processors import ContextType
    from semantiva.pipeline import Payload, Pipeline
    pg.setup_impl()
    cases, runs = [], 0
    for trial in range(n):
        lo, hi = _rand_bound(rng), _rand_bound(rng)
        if rng.random() < 0.08:
            hi = lo
        num = rng.choice([1, 2, 3, 4, 5, 7, 10, 17]) if rng.random() < 0.85 else rng.randint(1, 60)
        e = rng.random() < 0.6
        via = "pipeline" if trial % 2 else "materialize"
        try:
            with np.errstate(all="ignore"):
                if via == "materialize":
                    seqs, created = psf._materialize_sequences(vars={"t": psf.RangeSpec(lo, hi, num, endpoint=e)}, params={})
                    got, pub, elems = list(seqs["t"]), list(created["t_values"]), None
                else:
                    node = {"processor": "FloatValueDataSource",
                            "derive": {"parameter_sweep": {"parameters": {"value": "t"}, "collection": "FloatDataCollection",
                                                           "variables": {"t": {"lo": lo, "hi": hi, "steps": num, "endpoint": e}}}}}
                    res = Pipeline([node]).process(Payload(None, ContextType({})))
                    pub = list(res.context.get_value("t_values"))
                    elems = [x.data for x in res.data]
                    got = pub
                ref = list(np.linspace(lo, hi, num, endpoint=e))
        except Exception as exc:  # noqa
            ck.fail_input("C03:linear-range-rejected", "a linear range lo=%r hi=%r steps=%d endpoint=%s was not materialised: %s: %s" %
                          (lo, hi, num, e, type(exc).__name__, str(exc)[:200]), {"lo": lo, "hi": hi, "steps": num, "endpoint": e, "via": via})
            continue
        runs += 1
        hx = lambda l: [float(x).hex() for x in l]  # noqa: E731
        if hx(pub) != hx(got) or (elems is not None and hx(elems) != hx(got)):
            ck.fail_input("C03:range-values-published-or-elements-differ",
                          "range lo=%r hi=%r steps=%d endpoint=%s: iterated %s, published t_values %s, elements %s" %
                          (lo, hi, num, e, hx(got)[:6], hx(pub)[:6], None if elems is None else hx(elems)[:6]),
                          {"lo": lo, "hi": hi, "steps": num, "endpoint": e, "via": via})
            continue
        cases.append((lo, hi, num, e, got, ref, via))
    lits = ["(%s, %s, %d%%nat, %s, [%s])" % (_flit(lo), _flit(hi), num, "true" if e else "false", "; ".join(_flit(x) for x in got))
            for lo, hi, num, e, got, ref, via in cases]
    shards = [LIN_HEADER % ";\n  ".join(lits[i:i + 400]) for i in range(0, len(lits), 400)]
    per, errs = core.mismatches("C03_linspace", shards, timeout=600)
    for k, rc, out in errs:
        ck.corr_problem("linspace shard %d did not evaluate (rc=%s)" % (k, rc), out)
    bad = []
    for k, ls in enumerate(per):
        if ls is not None:
            bad += [cases[k * 400 + b] for b in ls[0]]
    for lo, hi, num, e, got, ref, via in bad[:6]:
        same_as_numpy = [float(x).hex() for x in got] == [float(x).hex() for x in ref]
        rep = {"lo": lo, "hi": hi, "steps": num, "endpoint": e, "via": via, "implementation": [float(x).hex() for x in got],
               "numpy_linspace": [float(x).hex() for x in ref]}
        if same_as_numpy:
            ck.corr_problem("Model/Linspace.v disagrees with numpy.linspace (and with the implementation, which agrees with numpy)", json.dumps(rep)[:1200])
        else:
            ck.fail_input("C03:linear-range-values",
                          "linear range lo=%r hi=%r steps=%d endpoint=%s materialises %s..., documented lo + i*(hi-lo)/div gives %s..." %
                          (lo, hi, num, e, [float(x) for x in got][:4], [float(x) for x in ref][:4]), rep)
    ck.notes["linspace_correspondence"] = {"ranges": len(cases), "disagreements": len(bad),
                                           "descending": sum(1 for c in cases if float(c[0]) > float(c[1])),
                                           "via_pipeline": sum(1 for c in cases if c[6] == "pipeline")}
    ck.cov["evaluations"] = ck.cov.get("evaluations", 0) + len(cases)
    ck.log("linear ranges: %d/%d float ranges agree bit for bit with Model/Linspace.v (%d descending, %d through a whole pipeline)" %
           (len(cases) - len(bad), len(cases), ck.notes["linspace_correspondence"]["descending"], ck.notes["linspace_correspondence"]["via_pipeline"]))
    return runs


TYPED_EXPRS = ["t", "int(t)", "t < 2", "t * 2", "t // 2", "abs(t)", "bool(t)", "str(t)", "float(t)", "max(t, s)", "min(t, s)",
               "t and s", "t or s", "+t", "-t", "t == s", "int(t) + int(s)", "t if t > s else s", "round(t)", "t % 2", "t ** 2", "(t, s)"]
TYPED_SEQS = [[1, 2, 3], [1.0, 2.5], [0, 1], [True, False], [3], [2, 2.0], [-1, 0, 4], [1.5, -2.0, 0.0]]


def typed_parameter_oracle(ck, rng, n):
    import itertools
    from semantiva.context_processors import ContextType
    from semantiva.pipeline import Payload, Pipeline
    from harness.lib.components import VerifTypeTagProbe
    fns = {"abs": abs, "min": min, "max": max, "round": round, "float": float, "int": int, "str": str, "bool": bool}
    runs = 0
    for trial in range(n):
        tv, sv = rng.choice(TYPED_SEQS), rng.choice(TYPED_SEQS)
        ep, eq = rng.choice(TYPED_EXPRS), rng.choice(TYPED_EXPRS + [None])
        variables = {"t": list(tv), "s": list(sv)}
        params = {"p": ep}
        if eq is not None:
            params["q"] = eq
        cfg = [{"processor": "FloatValueDataSource", "parameters": {"value": 1.0}},
               {"processor": VerifTypeTagProbe, "context_key": "tags",
                "derive": {"parameter_sweep": {"parameters": dict(params), "variables": {k: list(v) for k, v in variables.items()},
                                               "mode": "combinatorial"}}}]
        want, ref_exc = [], None
        try:
            for svv, tvv in itertools.product(sv, tv):        # sorted names: s outer, t inner (rightmost fastest)
                env = dict(fns, t=tvv, s=svv)
                pv = eval(ep, {"__builtins__": {}}, env)
                qv = eval(eq, {"__builtins__": {}}, env) if eq is not None else None
                want.append("%s:%r|%s:%r" % (type(pv).__name__, pv, type(qv).__name__, qv))
        except Exception as ex:  # noqa - the expression itself fails on these values (e.g. 0 ** -1): not a typed-parameter case
            ref_exc = ex
        if ref_exc is not None:
            continue
        runs += 1
        replay = {"kind": "typed-parameters", "variables": variables, "parameters": params, "expected": want}
        try:
            res = Pipeline(cfg).process(Payload(None, ContextType({})))
            got = res.context.get_value("tags")
        except Exception as ex:  # noqa
            ck.fail_input("C03:typed-parameter:sweep-fails-where-direct-application-succeeds",
                          "sweep of a probe with p=%r q=%r over t=%r s=%r raised %s: %s" % (ep, eq, tv, sv, type(ex).__name__, str(ex)[:120]), replay)
            continue
        if list(got) != want:
            first = next((i for i, (a, b) in enumerate(zip(list(got), want)) if a != b), None)
            ck.fail_input("C03:typed-parameter:element-differs-from-direct-application",
                          "step %s: the wrapped probe received %r, the expression values are %r (p=%r q=%r)" %
                          (first, list(got)[first] if first is not None and first < len(list(got)) else list(got), want[first] if first is not None else want, ep, eq),
                          dict(replay, got=list(got)))
    return runs


def function_named_variables_oracle(ck):
    from semantiva.context_processors import ContextType
    from semantiva.pipeline import Payload, Pipeline
    from harness.lib.components import VerifTypeTagProbe
    import itertools
    fns = {"abs": abs, "min": min, "max": max, "round": round, "float": float, "int": int, "str": str, "bool": bool}
    cases = [({"max": [1.0, 5.0], "min": [0.5]}, "max - min"), ({"round": [0.0, 1.0, 0.0]}, "2.0 if round else -2.0"),
             ({"abs": [-3.0, 4.0]}, "abs * 2"), ({"int": [1.5, 2.5], "t": [1.0]}, "int + t"), ({"max": [2.0, 3.0]}, "max(max, 2.5)"),
             ({"float": [1, 2]}, "float"), ({"bool": [0, 2], "str": [7]}, "bool and str")]
    runs = 0
    for variables, expr in cases:
        names = sorted(variables)
        want = []
        try:
            for combo in itertools.product(*[variables[n] for n in names]):
                env = dict(zip(names, combo))
                pv = eval(expr, {"__builtins__": {}}, dict(fns, **env))
                want.append("%s:%r|NoneType:None" % (type(pv).__name__, pv))
        except Exception as ex:  # noqa
            want = ("raises", type(ex).__name__)
        cfg = [{"processor": "FloatValueDataSource", "parameters": {"value": 1.0}},
               {"processor": VerifTypeTagProbe, "context_key": "tags",
                "derive": {"parameter_sweep": {"parameters": {"p": expr}, "variables": {k: list(v) for k, v in variables.items()}, "mode": "combinatorial"}}}]
        runs += 1
        try:
            got = list(Pipeline(cfg).process(Payload(None, ContextType({}))).context.get_value("tags"))
        except Exception as ex:  # noqa
            got = ("raises", type(ex).__name__)
        if got != want and not (isinstance(want, tuple) and isinstance(got, tuple)):
            ck.fail_input("C03:function-named-variable:element-differs-from-the-variables-values",
                          "sweep variables %s, parameter expression %r: elements %s, the variable values give %s" % (variables, expr, str(got)[:200], str(want)[:200]),
                          {"kind": "function-named-variables", "variables": variables, "expr": expr})
    return runs


def shared_sweep_class_oracle(ck, rng, n):
    """One sweep class (ParametricSweepFactory.create) used by two processors in two Pipelines that run at the same time with
    different from_context sequences: each run publishes ITS OWN <var>_values and computes its own elements."""
    import threading
    from semantiva.context_processors import ContextType
    from semantiva.data_processors.parametric_sweep_factory import FromContext, ParametricSweepFactory
    from semantiva.examples.test_utils import FloatDataCollection, FloatDataType
    from semantiva.pipeline import Payload, Pipeline
    from harness.lib.components import VerifRendezvousOperation as RV
    runs = 0
    for kind in ("DataOperation", "DataProbe")[: max(1, n // 3 + 1)]:
        for trial in range(max(1, n // 2)):
            class Elem(RV):        # multiplies by f after meeting the other run at the barrier
                def _process_logic(self, data, f):
                    RV._process_logic(self, data)
                    return FloatDataType(data.data * f) if kind == "DataOperation" else data.data * f
            if kind == "DataProbe":
                from semantiva.examples.test_utils import FloatProbe

                class Elem(FloatProbe):  # noqa: F811
                    def _process_logic(self, data, f):
                        b = RV.barrier
                        if b is not None:
                            try:
                                b.wait(timeout=5)
                            except threading.BrokenBarrierError:
                                pass
                        return data.data * f
            try:
                cls = ParametricSweepFactory.create(element=Elem, element_kind=kind,
                                                    collection_output=FloatDataCollection if kind == "DataOperation" else None,
                                                    vars={"f": FromContext("fs")}, parametric_expressions={"f": "f"}, mode="combinatorial", broadcast=False)
            except Exception as ex:  # noqa
                ck.corr_problem("shared-sweep-class oracle could not build the sweep", repr(ex))
                return runs
            seqs = [[float(rng.randint(1, 4)) for _ in range(rng.randint(2, 4))], [float(rng.randint(5, 9)) for _ in range(rng.randint(2, 4))]]
            node = {"processor": cls, "context_key": "out"} if kind == "DataProbe" else {"processor": cls}
            pipes = [Pipeline([{"processor": "FloatValueDataSource", "parameters": {"value": 2.0}}, dict(node)]) for _ in (0, 1)]
            got = [None, None]
            RV.barrier = threading.Barrier(2)

            def work(i):
                try:
                    out = pipes[i].process(Payload(None, ContextType({"fs": list(seqs[i])})))
                    d = out.context.to_dict()
                    elems = list(d.get("out")) if kind == "DataProbe" else [x.data for x in out.data]
                    got[i] = (elems, list(d.get("f_values")))
                except Exception as ex:  # noqa
                    got[i] = ("raises", repr(ex)[:120])
            ts = [threading.Thread(target=work, args=(i,), daemon=True) for i in (0, 1)]
            for t in ts:
                t.start()
            for t in ts:
                t.join(30)
            RV.barrier = None
            runs += 2
            for i in (0, 1):
                want = ([2.0 * f for f in seqs[i]], seqs[i])
                if got[i] != want:
                    ck.fail_input("C03:shared-sweep-class:concurrent-run-sees-the-other-runs-values:%s" % kind,
                                  "two concurrent runs of one sweep class with from_context sequences %s: run %d gives (elements, f_values) = %s, its own are %s"
                                  % (seqs, i, str(got[i])[:200], want), {"kind": "shared-sweep-class", "element_kind": kind, "sequences": seqs})
                    break
    return runs


def failing_step_oracle(ck, rng, n):
    from semantiva.context_processors import ContextType
    from semantiva.pipeline import Payload, Pipeline
    from harness.lib import components as C
    runs = 0
    classes = sorted(C.RAISE_CLASSES)
    for trial in range(n):
        kind = ("source", "operation", "probe")[trial % 3]
        cls = classes[(trial // 3 + rng.randrange(len(classes))) % len(classes)] if trial >= 6 else ("StopIteration", "ValueError")[trial // 3]
        steps = rng.randint(2, 6)
        values = [float(i + 1) for i in range(steps)]
        bad = values[rng.randrange(steps)]
        sweep = {"parameters": {"t": "t", "bad": "b", "exc": "c"},
                 "variables": {"t": list(values), "b": [bad], "c": [cls]}, "mode": "combinatorial"}
        if kind != "probe":
            sweep["collection"] = "FloatDataCollection"
        if kind == "source":
            cfg = [{"processor": C.VerifRaiseAtSource, "derive": {"parameter_sweep": sweep}}]
        elif kind == "operation":
            cfg = [{"processor": "FloatValueDataSource", "parameters": {"value": 2.0}},
                   {"processor": C.VerifRaiseAtOperation, "derive": {"parameter_sweep": sweep}}]
        else:
            cfg = [{"processor": "FloatValueDataSource", "parameters": {"value": 2.0}},
                   {"processor": C.VerifRaiseAtProbe, "context_key": "out", "derive": {"parameter_sweep": sweep}}]
        replay = {"kind": "failing-step", "element": kind, "exception": cls, "values": values, "fails_at": bad}
        runs += 1
        try:
            res = Pipeline(cfg).process(Payload(None, ContextType({})))
        except BaseException as ex:  # noqa - the documented outcome: the node fails
            if type(ex).__name__ != cls and not isinstance(ex, C.RAISE_CLASSES[cls]):
                # a different exception class is tolerated only if it chains the original one
                chain, seen = ex, 0
                while chain is not None and seen < 6 and not isinstance(chain, C.RAISE_CLASSES[cls]):
                    chain, seen = chain.__cause__ or chain.__context__, seen + 1
                if chain is None or not isinstance(chain, C.RAISE_CLASSES[cls]):
                    ck.fail_input("C03:failing-step:different-exception:%s" % kind,
                                  "element raised %s at step value %r, the run raised %s: %s" % (cls, bad, type(ex).__name__, str(ex)[:120]), replay)
            continue
        got = res.context.get_value("out") if kind == "probe" else getattr(res.data, "data", res.data)
        try:
            k = len(list(got))
        except Exception:  # noqa
            k = None
        ck.fail_input("C03:failing-step:sweep-returned-normally:%s:%s" % (kind, cls),
                      "the wrapped %s raised %s on the step t=%r of %d steps; the sweep returned normally with %s elements" % (kind, cls, bad, steps, k),
                      dict(replay, returned_elements=k))
    return runs


def _vars_of(e):
    if e[0] == "var":
        return {e[1]}
    out = set()
    for x in e[1:]:
        if isinstance(x, tuple):
            out |= _vars_of(x)
        elif isinstance(x, list):
            for y in x:
                out |= _vars_of(y)
    return out


replay = c01.replay
FINISH = c01.FINISH
