"""C04 — Configuration identities are pure functions of configuration meaning.

proof side : Properties/C04.v (dumps_perm_invariant, ids_invariant, ids_pure as Impl = Spec refinement over
             every history; conditional on the generated/probed facts context_keys_sorted, enrich_on_copy)
tie        : Gen/IdentityGen.v + Gen/SemanticIdGen.v; every observed identity = real hash of the model's
             preimage string (compared inside Coq through preimage->hash tables that the harness recomputes
             from the implementation's own JSON objects)
search     : metamorphic direct oracle on the implementation: cosmetic YAML rewrites x entry paths
             (inspection payload, Pipeline construction, two traced runs, `semantiva inspect` in fresh
             processes x PYTHONHASHSEED x working directory) must give identical identities
"""
from __future__ import annotations

import copy
import glob
import json
import os
import random
import re
import shutil
import subprocess
import sys
import tempfile
from concurrent.futures import ThreadPoolExecutor

import yaml

from harness import core
from harness.lib import idgen as G
from harness.translate import run_all

SIG_A = "C04:key-order:sweep.variables:node_semantic_id,config_id"
SIG_B = "C04:history:second-traced-run:pipeline_id"
FIELDS = ["uuids", "nodesem", "semid", "cfgid", "required"]

MIN_A = [{"processor": "FloatValueDataSource",
          "derive": {"parameter_sweep": {"parameters": {"value": "t + s"},
                                         "variables": {"t": {"from_context": "tk"}, "s": {"from_context": "sk"}},
                                         "collection": "FloatDataCollection"}}}]
MIN_B = [{"processor": "FloatValueDataSource",
          "derive": {"parameter_sweep": {"parameters": {"value": "t"}, "variables": {"t": [1.0, 2.0, 3.0]},
                                         "collection": "FloatDataCollection"}}}]


def gen_facts():
    txt = open(os.path.join(core.COQ, "Gen", "IdentityGen.v")).read()
    return {k: (re.search(r"Definition %s : bool := (true|false)\." % k, txt) or [None, "false"])[1] == "true"
            for k in ("context_keys_sorted", "enrich_on_copy", "sem_includes_sweep")}


def diff_fields(a, b, fields=FIELDS):
    return [f for f in fields if a[f] != b[f]]


def reorder_variables(nodes):
    out = json.loads(json.dumps(nodes))
    for n in out:
        sw = (n.get("derive") or {}).get("parameter_sweep")
        if sw:
            sw["variables"] = dict(reversed(list(sw["variables"].items())))
    return out


def cli_inspect(path, seed, cwd):
    env = dict(os.environ)
    env.update(core.impl_env({"PYTHONHASHSEED": seed}))
    p = subprocess.run([core.PY, "-m", "semantiva.cli", "inspect", "--extended", path], cwd=cwd, env=env,
                       stdout=subprocess.PIPE, stderr=subprocess.PIPE, text=True, timeout=120)
    return p.returncode, G.parse_inspect(p.stdout), p.stderr[-500:]


def load_corpus():
    out = []
    for f in sorted(glob.glob(os.path.join(core.ROOT, "corpus", "C04", "*.json"))):
        out.append((os.path.basename(f), json.load(open(f))["nodes"]))
    return out


def run(ck):
    rng = random.Random(ck.seed * 104729 + 4)
    thorough = ck.tier == "thorough"
    gen = run_all(["semantic_id", "identity"])
    ck.build_models(["Gen/SemanticIdGen.v", "Gen/IdentityGen.v", "Model/Identity.v"])
    proved = ck.prove(gen_results=gen)
    if thorough and proved:
        ck.coqchk()
    facts = gen_facts()
    ck.notes["generated_facts"] = facts
    G.setup()
    from semantiva.configurations import load_pipeline_from_yaml

    n_base = 400 if thorough else 45
    n_cli = 40 if thorough else 6
    bases = [(name, nodes) for name, nodes in load_corpus()]
    bases += [("min_a", MIN_A), ("min_b", MIN_B)]
    while len(bases) < n_base:
        bases.append(("gen%d" % len(bases), G.gen_config(rng, sweep_p=0.5)))

    lits, meta = [], []          # model cases
    evaluations = 0
    nontrivial = set()
    stats = {"variants": 0, "invalid_configs": 0, "with_sweep": 0, "nodes": 0, "kinds": {}, "aliases": 0, "permuted_classes": {}}
    tmp = tempfile.mkdtemp(prefix="c04_")
    dirs = [os.path.join(tmp, "wd_a"), os.path.join(tmp, "wd_b", "deeper")]
    for d in dirs:
        os.makedirs(d)
    cli_jobs = []
    first_obs = []

    def record_case(nodes, ob, tag):
        try:
            lits.append(G.case_lit(nodes, ob))
            meta.append((tag, nodes))
        except ValueError as ex:
            ck.notes.setdefault("outside_fragment", []).append(str(ex)[:100])

    def check_paths(tag, nodes, ob):
        """paths of ONE configuration must agree with each other"""
        nonlocal evaluations
        evaluations += 3 + len(ob["run_plids"])
        if ob["ctor_uuids"] != ob["uuids"] or ob["ctor_plid"] != ob["plid"]:
            ck.fail_input("C04:paths:pipeline-construction-vs-inspection", "Pipeline(...) canonical spec differs from build_canonical_spec/inspection",
                          {"kind": "paths", "nodes": nodes})
        for r, m in enumerate(ob.get("run_meta", [])):
            if m.get("semantic_id") != ob["semid"] or m.get("config_id") != ob["cfgid"] or \
                    m.get("node_semantic_ids") != {u: s for u, s in zip(ob["uuids"], ob["nodesem"])}:
                ck.fail_input("C04:paths:pipeline_start-vs-inspect", "identities on pipeline_start differ from the inspection payload (run %d)" % r,
                              {"kind": "paths", "nodes": nodes})
        if ob["run_plids"] and ob["run_plids"][0] != ob["plid"]:
            ck.fail_input("C04:paths:first-run-pipeline_id", "pipeline_id of the first traced run differs from compute_pipeline_id(build_canonical_spec)",
                          {"kind": "paths", "nodes": nodes})
        if len(set(ob["run_plids"])) > 1:
            ck.fail_input(SIG_B, "pipeline_id of the second traced run of one Pipeline object differs from the first "
                          "(%s vs %s); sweep node present: %s" % (ob["run_plids"][0][:17], ob["run_plids"][1][:17], G.has_sweep(nodes)),
                          {"kind": "two-runs", "nodes": nodes})
        for pr in ob["problems"]:
            ck.corr_problem("traced run of generated configuration", pr, case={"nodes": nodes})

    # configurations outside the model's JSON domain (mapping values with non-string keys, as YAML `{2: .., 10: ..}` loads): the
    # identity paths of ONE configuration must still agree with each other (direct oracle only)
    extra_path_cfgs = [
        [{"processor": "FloatValueDataSource", "parameters": {"value": 1.0}},
         {"processor": "FloatMultiplyOperation",
          "derive": {"parameter_sweep": {"parameters": {"factor": "t"}, "variables": {"t": [{2: 1.0, 10: 2.0}, {2: 3.0, 10: 4.0}]}, "collection": "FloatDataCollection"}}}],
        [{"processor": "FloatValueDataSource", "parameters": {"value": 1.0}},
         {"processor": "FloatMultiplyOperation", "parameters": {"factor": {1: "a", 12: "b", 3: {20: 1, 3: 2}}}}],
        [{"processor": "FloatValueDataSource", "parameters": {"value": 1.0}},
         {"processor": "FloatMultiplyOperation",
          "derive": {"parameter_sweep": {"parameters": {"factor": "t"}, "variables": {"t": {"values": [{1.5: 1, 10.25: 2}, {True: 1, False: 0}]}}, "collection": "FloatDataCollection"}}}],
    ]
    for xi, xc in enumerate(extra_path_cfgs):
        try:
            check_paths("extra%d" % xi, xc, G.observe(xc))
        except G.Mismatch as ex:
            ck.fail_input("C04:paths:disagree-on-pristine-configuration:non-string-mapping-keys",
                          "the identity paths of one pristine configuration (mapping values with non-string keys) disagree: %s" % ex, {"kind": "paths", "nodes": json.loads(json.dumps(xc, default=str))})
        except Exception as ex:  # noqa
            ck.notes.setdefault("extra_path_configs_rejected", []).append(repr(ex)[:160])
    for bi, (name, nodes) in enumerate(bases):
        # prior history: an ==-equal but differently typed twin is built and run first (a cache keyed by
        # value equality would hand its classes / ids to the configuration under test); the fresh-process
        # CLI comparison below is the reference
        twin = G.type_twin(nodes) if bi % 2 == 0 else None
        if twin is not None:
            try:
                G.observe(twin)
                stats["type_twins_run_first"] = stats.get("type_twins_run_first", 0) + 1
            except Exception:  # noqa
                pass
        try:
            base = G.observe(nodes)
        except G.Mismatch as ex:
            ck.corr_problem("harness recomputation of the implementation's preimage does not give its id", str(ex), case={"nodes": nodes})
            continue
        except Exception as ex:  # noqa - configuration rejected by the implementation
            stats["invalid_configs"] += 1
            ck.notes.setdefault("rejected", []).append("%s: %r" % (name, ex))
            continue
        stats["with_sweep"] += G.has_sweep(nodes)
        stats["nodes"] += len(nodes)
        for n in nodes:
            k = n["processor"].split(":")[0] + ("+sweep" if n.get("derive") else "")
            stats["kinds"][k] = stats["kinds"].get(k, 0) + 1
        first_obs.append((nodes, base))
        check_paths(name, nodes, base)
        record_case(nodes, base, name)
        base_text = G.to_yaml(nodes)
        variants = [("all", None), ("layout", None), ("keyorder", None), ("exprs", None)]
        if thorough:
            variants += [("all", None), ("all", None)]
        texts = [("base", base_text)]
        for kind, perm in variants:
            text, obj, permuted = G.cosmetic_variant(nodes, rng, kind, perm)
            try:
                doc = yaml.safe_load(text)
                ok = G.same_meaning(doc["pipeline"]["nodes"], obj)
            except Exception as ex:  # noqa
                ok, doc = False, None
            if not ok:
                ck.corr_problem("YAML rewriter produced a text that does not load to the intended object (harness defect)", text[:1500])
                continue
            stats["variants"] += 1
            stats["aliases"] += len(re.findall(r"\*a\d+", text))
            for c in permuted:
                stats["permuted_classes"][c] = stats["permuted_classes"].get(c, 0) + 1
            loaded = doc["pipeline"]["nodes"]
            if text != base_text and (permuted or kind in ("all", "exprs", "layout")):
                nontrivial.add(text)
            # YAML file -> loader -> Pipeline path for some, in-memory mapping for the others
            fpath = os.path.join(dirs[0], "v_%d_%d.yaml" % (bi, len(texts)))
            open(fpath, "w").write(text)
            try:
                via_loader = load_pipeline_from_yaml(fpath).nodes
                ob = G.observe(via_loader if rng.random() < 0.5 else loaded)
                from semantiva.inspection import build_inspection_payload
                pay_doc = build_inspection_payload(doc)
                evaluations += 1
            except G.Mismatch as ex:
                ck.corr_problem("harness recomputation of the implementation's preimage does not give its id", str(ex), case={"yaml": text})
                continue
            except Exception as ex:  # noqa
                ck.fail_input("C04:rewrite-rejected:" + kind, "cosmetic rewrite rejected although the base configuration is accepted: %r" % (ex,),
                              {"kind": "rewrite", "nodes": nodes, "yaml": text})
                continue
            texts.append((kind, text))
            check_paths(name + "/" + kind, loaded, ob)
            record_case(loaded, ob, name + "/" + kind)
            d = diff_fields(base, ob)
            pd = pay_doc != base["payload"]
            if d or pd or ob["plid"] != base["plid"]:
                fields = d + (["pipeline_id"] if ob["plid"] != base["plid"] else []) + (["payload"] if pd and not d else [])
                sig, what = attribute(nodes, base, kind, fields, rng)
                ck.fail_input(sig, what, {"kind": "rewrite", "nodes": nodes, "yaml": text, "base_yaml": base_text, "fields": fields})
        want_cli = bi < n_cli + 2 or (twin is not None and stats.get("twin_cli", 0) < (24 if thorough else 5))
        if twin is not None and want_cli:
            stats["twin_cli"] = stats.get("twin_cli", 0) + 1
        if len(cli_jobs) < n_cli * 12 + 60 and want_cli and not any("Verif" in json.dumps(n) for n in nodes):
            for kind, text in texts[:1] + texts[-1:]:
                for di, d in enumerate(dirs):
                    fpath = os.path.join(d, "c_%d_%s.yaml" % (bi, kind))
                    open(fpath, "w").write(text)
                    for seed in ("0", "1", "random"):
                        cli_jobs.append((bi, kind, fpath, seed, dirs[(di + 1) % 2] if seed == "1" else d))

    # ---- stored failing inputs of facts that are false on this tree (must reproduce)
    if not facts["context_keys_sorted"]:
        a, b = G.observe(MIN_A), G.observe(reorder_variables(MIN_A))
        if not diff_fields(a, b):
            ck.corr_problem("generated fact context_keys_sorted=false but the stored failing input does not fail", json.dumps(MIN_A))
    if not facts["enrich_on_copy"]:
        a = G.observe(MIN_B)
        if len(set(a["run_plids"])) < 2:
            ck.corr_problem("probed fact enrich_on_copy=false but the stored failing input does not fail", json.dumps(MIN_B))

    # ---- history: re-observe early configurations after everything else was built and run
    for nodes, ob in first_obs[: (60 if thorough else 12)]:
        again = G.observe(nodes)
        evaluations += 3
        d = diff_fields(ob, again) + (["pipeline_id"] if ob["plid"] != again["plid"] else [])
        if d or again["payload"] != ob["payload"]:
            ck.fail_input("C04:history:fresh-build-after-other-pipelines:" + ",".join(d or ["payload"]),
                          "identities of a configuration changed after %d other pipelines were built and run" % len(first_obs),
                          {"kind": "history", "nodes": nodes})

    # ---- order of calls on one configuration object (inspect-then-run, run-then-inspect, ...), also with explicit
    #      null `parameters:`; the reference is the pristine observation above
    shared_runs = 0
    orders = [("payload", "pipeline"), ("inspect", "pipeline", "payload"), ("pipeline", "payload", "canonical"), ("inspect", "canonical", "pipeline")]
    for si, (nodes, ob) in enumerate(first_obs[: (80 if thorough else 14)]):
        for variant, vn in (("as-written", nodes), ("null-parameters", G.null_params(nodes))):
            if vn is None:
                continue
            try:
                ref = ob if variant == "as-written" else G.observe(vn, runs=1)
            except G.Mismatch as ex:
                ck.fail_input("C04:paths:disagree-on-pristine-configuration:" + variant,
                              "the identity paths of one pristine configuration disagree: %s" % ex, {"kind": "shared", "nodes": vn, "order": []})
                continue
            except Exception:  # noqa - the null variant is not accepted: nothing to compare
                continue
            order = orders[(si + (variant != "as-written")) % len(orders)]
            try:
                got = G.observe_shared(vn, order)
            except Exception as ex:  # noqa
                ck.fail_input("C04:one-object:operation-fails-after-another:" + variant,
                              "operations %s on one configuration object: %r (each alone succeeds)" % (list(order), ex),
                              {"kind": "shared", "nodes": vn, "order": list(order)})
                continue
            shared_runs += 1
            evaluations += len(order)
            for op, ids in got:
                bad = [f for f, rf in (("uuids", "uuids"), ("nodesem", "nodesem"), ("semid", "semid"), ("cfgid", "cfgid"), ("plid", "plid"), ("run_plid", "plid"))
                       if f in ids and ids[f] is not None and ids[f] != ref[rf]]
                if bad:
                    ck.fail_input("C04:one-object:identity-depends-on-earlier-calls:%s:%s" % (variant, ",".join(bad)),
                                  "after %s on ONE configuration object, %s gives %s different from the pristine configuration's"
                                  % (list(order[:order.index(op)]), op, bad), {"kind": "shared", "nodes": vn, "order": list(order), "at": op})
                    break
    # ---- a consumer that mutates a published sweep sequence in place: the configuration's own value list must not be the
    #      object that reaches the context (identities of the next inspect / run on the same object would follow the mutation)
    from harness.lib import components as HC
    mut_nodes = [{"processor": "FloatValueDataSource", "parameters": {"value": 1.0}},
                 {"processor": "FloatMultiplyOperation",
                  "derive": {"parameter_sweep": {"parameters": {"factor": "t"}, "variables": {"t": [3.0, 1.0, 2.0]}, "collection": "FloatDataCollection"}}},
                 {"processor": HC.VerifSortInPlaceContextProcessor}]
    for vi, mn in enumerate((mut_nodes, [mut_nodes[0], dict(mut_nodes[1], derive={"parameter_sweep": dict(mut_nodes[1]["derive"]["parameter_sweep"],
                                                                                                        variables={"t": {"values": [3.0, 1.0, 2.0]}})}), mut_nodes[2]])):
        try:
            ref = G.observe(mn, runs=1)
        except Exception as ex:  # noqa
            ck.corr_problem("in-place-mutation scenario: the pristine configuration could not be observed", repr(ex)[:300])
            continue
        for order in (("pipeline", "payload", "pipeline"), ("pipeline", "pipeline", "canonical", "payload")):
            try:
                got = G.observe_shared(mn, order)
            except Exception as ex:  # noqa
                ck.fail_input("C04:one-object:operation-fails-after-another:in-place-consumer",
                              "operations %s on one configuration object whose last node sorts t_values in place: %r" % (list(order), ex),
                              {"kind": "shared-mutating-consumer", "variant": vi, "order": list(order)})
                continue
            shared_runs += 1
            evaluations += len(order)
            for oi, (op, ids) in enumerate(got):
                bad = [f for f, rf in (("uuids", "uuids"), ("nodesem", "nodesem"), ("semid", "semid"), ("cfgid", "cfgid"), ("plid", "plid"), ("run_plid", "plid"))
                       if f in ids and ids[f] is not None and ids[f] != ref[rf]]
                if bad:
                    ck.fail_input("C04:one-object:identity-depends-on-earlier-calls:in-place-consumer:" + ",".join(bad),
                                  "a node sorts the published t_values in place; after %s on ONE configuration object, %s gives %s different from the "
                                  "pristine configuration's" % (list(order[:oi]), op, bad),
                                  {"kind": "shared-mutating-consumer", "variant": vi, "order": list(order), "at": oi})
                    break
    stats["one_object_sequences"] = shared_runs

    # ---- one container object referenced twice inside a node's parameters (what a re-used YAML anchor loads to) vs equal copies
    shared = {"kind": "model:PolynomialFittingModel:degree=2", "opts": [1, {"m": "model:PolynomialFittingModel:degree=1"}], "tag": "s"}
    lst = ["model:PolynomialFittingModel:degree=3", 2.0]
    for tag, mk in (("mapping", lambda a, b: {"a": a, "b": {"inner": b}, "c": 1.0}), ("list", lambda a, b: [a, b, 3.0])):
        block = shared if tag == "mapping" else lst
        aliased = [{"processor": "FloatValueDataSource", "parameters": {"value": 1.0}},
                   {"processor": "FloatMultiplyOperation", "parameters": {"factor": mk(block, block)}}]
        expanded = copy.deepcopy(aliased)
        expanded[1]["parameters"]["factor"] = mk(copy.deepcopy(block), copy.deepcopy(block))
        try:
            oa, ob = G.observe(aliased, runs=1), G.observe(expanded, runs=1)
        except G.Mismatch as ex:
            ck.fail_input("C04:paths:disagree-on-pristine-configuration:shared-container", "identity paths of one configuration disagree: %s" % ex,
                          {"kind": "shared", "nodes": json.loads(json.dumps(aliased)), "order": []})
            continue
        except Exception as ex:  # noqa
            ck.corr_problem("shared-container configuration is rejected", repr(ex))
            continue
        evaluations += 6
        d = diff_fields(oa, ob) + (["pipeline_id"] if oa["plid"] != ob["plid"] else [])
        if d:
            ck.fail_input("C04:rewrite:anchored-container-vs-expanded:" + ",".join(d),
                          "a %s referenced twice inside one node's parameters (a re-used YAML anchor) and the same configuration with two equal copies "
                          "give different identities: %s" % (tag, d), {"kind": "aliased", "container": tag, "nodes": expanded})
    # ---- one orchestrator shared by several Pipeline objects; a traced run that fails while its trace file is opened in between
    try:
        d = shared_orchestrator_problem(tmp)
        evaluations += 4
        if d:
            ck.fail_input("C04:history:shared-orchestrator-after-failed-trace-open:" + ",".join(d[0]), d[1], {"kind": "shared-orchestrator", "nodes": d[2]})
    except Exception as ex:  # noqa
        ck.corr_problem("shared-orchestrator scenario could not run", repr(ex))

    # ---- set-valued internals: the same configurations inspected in fresh processes under different hash seeds
    hs_cfgs = G.hashseed_configs()
    hs_out = {}

    def hs_job(seed):
        p = subprocess.run([sys.executable, "-c", G.HASHSEED_CHILD], input=json.dumps(hs_cfgs), text=True, capture_output=True,
                           env=dict(os.environ, PYTHONHASHSEED=str(seed)), timeout=300)
        line = [l for l in p.stdout.split("\n") if l.startswith("IDS ")]
        return seed, (json.loads(line[0][4:]) if line else None), p.stderr[-400:]
    with ThreadPoolExecutor(max_workers=8) as ex:
        for seed, res, err in ex.map(hs_job, list(range(12 if thorough else 6)) + ["random"]):
            if res is None:
                ck.corr_problem("hash-seed child failed (PYTHONHASHSEED=%s)" % seed, err)
            else:
                hs_out[seed] = res
    for ci in range(len(hs_cfgs)):
        seen_vals = {}
        for seed, res in hs_out.items():
            seen_vals.setdefault(json.dumps(res[ci], sort_keys=True), []).append(seed)
        evaluations += len(hs_out)
        if len(seen_vals) > 1:
            ck.fail_input("C04:hash-seed:identities-differ-between-processes",
                          "configuration %d gives %d different identity sets over PYTHONHASHSEED %s" % (ci, len(seen_vals), sorted(map(str, hs_out))),
                          {"kind": "hashseed", "nodes": hs_cfgs[ci], "by_seed": {str(v): json.loads(k) for k, v in seen_vals.items()}})
        elif any("error" in r[ci] for r in hs_out.values()):
            ck.corr_problem("hash-seed configuration %d is rejected" % ci, json.dumps(next(iter(hs_out.values()))[ci]))
    stats["hash_seed_processes"] = len(hs_out)

    # ---- fresh processes x hash seeds x working directories
    def job(j):
        bi, kind, fpath, seed, cwd = j
        try:
            return j, cli_inspect(fpath, seed, cwd)
        except Exception as ex:  # noqa
            return j, (99, {}, repr(ex))
    cli_ok = 0
    with ThreadPoolExecutor(max_workers=core.NPROC) as ex:
        for (bi, kind, fpath, seed, cwd), (rc, got, err) in ex.map(job, cli_jobs):
            nodes, base = first_obs_by_index(first_obs, bases, bi)
            if base is None:
                continue
            evaluations += 1
            if rc != 0 or got.get("semid") is None:
                ck.corr_problem("semantiva inspect failed in a fresh process (rc=%s)" % rc, err, case={"yaml": open(fpath).read()})
                continue
            d = diff_fields(base, got)
            if d:
                ck.fail_input("C04:fresh-process:inspect-vs-in-process:" + ",".join(d),
                              "`semantiva inspect` (PYTHONHASHSEED=%s, cwd=%s, rewrite=%s) prints identities that differ from the in-process ones: %s"
                              % (seed, os.path.relpath(cwd, tmp), kind, d),
                              {"kind": "cli", "nodes": nodes, "yaml": open(fpath).read(), "seed": seed})
            else:
                cli_ok += 1
    shutil.rmtree(tmp, ignore_errors=True)

    # ---- model vs implementation, inside Coq (last case of every shard is a canary that must mismatch)
    per_shard = 60
    shards, spans = [], []
    for i in range(0, len(lits), per_shard):
        chunk = lits[i:i + per_shard]
        canary = chunk[0].replace('"plsemid-', '"plsemid-0', 1)
        shards.append(G.CASE_HEADER % ";\n".join(chunk + [canary]))
        spans.append((i, len(chunk)))
    per, errs = core.mismatches("C04", shards, timeout=900)
    agreed = 0
    for k, ls in enumerate(per):
        if ls is None:
            continue
        start, n = spans[k]
        bad = ls[0]
        if n not in bad:
            ck.corr_problem("canary case of shard %d was not reported as a mismatch (comparison is not live)" % k, "")
        bad = [b for b in bad if b != n]
        agreed += n - len(bad)
        for b in bad[:4]:
            tag, nodes = meta[start + b]
            ck.corr_problem("model identities (hash of model preimage) differ from the implementation's", "case %s" % tag, case={"nodes": nodes})
    for k, rc, out in errs:
        ck.corr_problem("correspondence shard %d did not evaluate (rc=%s)" % (k, rc), out)
    ck.cov["traces_validated_against_impl"] = agreed
    ck.cov["evaluations"] = evaluations
    ck.cov["distinct_nontrivial"] = len(nontrivial)
    ck.cov["rule"] = ("evaluations = identity computations on the implementation (inspection payload, Pipeline construction, each traced run, "
                      "each `semantiva inspect` subprocess); non-trivial = distinct rewritten YAML texts that differ from the base text through a "
                      "permuted mapping, layout/spelling change or +/* operand rearrangement (measured); model cases compared in Coq: %d (all of "
                      "base + rewrites, incl. pipeline_id of two traced runs); CLI subprocess runs agreeing: %d of %d"
                      % (len(lits), cli_ok, len(cli_jobs)))
    ck.notes["distribution"] = stats
    ck.notes["input_distribution"] = ("1..5 nodes (+ duplicate of the last node 15%%): first a source, then op/probe/context-processor shorthand/"
                                      "slice/source; 50%% of sweepable nodes carry derive.parameter_sweep with 1..3 variables (range/sequence/"
                                      "from_context), expressions of depth 1..3 from the C12 grammar, parameter values nested to depth 2; "
                                      "4 rewrites per configuration (all, layout only, key order only, operand order only)")
    ck.cov["samples"] = [{"config": n, "semantic_id": o["semid"], "config_id": o["cfgid"], "pipeline_ids_of_two_runs": o["run_plids"]}
                         for n, o in first_obs[:4]]
    ck.cov["trusted_base"] = TRUSTED
    ck.log("correspondence: %d/%d model cases agree; cli %d/%d; variants %d" % (agreed, len(lits), cli_ok, len(cli_jobs), stats["variants"]))


def shared_orchestrator_problem(tmp):
    """job 1: configuration B traced; job 2: configuration A whose trace file cannot be opened (parent is a regular file);
    job 3: configuration B again -- all on ONE orchestrator.  pipeline_start identities of job 3 must equal job 1's and inspect's."""
    from semantiva.context_processors.context_types import ContextType
    from semantiva.examples.test_utils import FloatDataType
    from semantiva.execution.orchestrator.orchestrator import LocalSemantivaOrchestrator
    from semantiva.inspection import build_inspection_payload
    from semantiva.logger import Logger
    from semantiva.pipeline import Payload, Pipeline
    from semantiva.trace.drivers.jsonl import JsonlTraceDriver
    cfg_a = [{"processor": "FloatMultiplyOperation", "parameters": {"factor": 1.5}},
             {"processor": "FloatMultiplyOperation", "derive": {"parameter_sweep": {"parameters": {"factor": "2 * t"}, "variables": {"t": [1.0, 2.0, 3.0]},
                                                                                  "collection": "FloatDataCollection"}}}]
    cfg_b = [{"processor": "FloatAddOperation", "derive": {"parameter_sweep": {"parameters": {"addend": "s + 1"}, "variables": {"s": {"lo": 0.0, "hi": 1.0, "steps": 3}},
                                                                             "collection": "FloatDataCollection"}}},
             {"processor": "FloatCollectionSumOperation"}]
    orch = LocalSemantivaOrchestrator()
    lg = Logger(level="CRITICAL")
    blocker = os.path.join(tmp, "not_a_directory")
    open(blocker, "w").write("x")

    def start_ids(cfg, path):
        rec = G.Recorder()

        class Tee(JsonlTraceDriver):      # a real JSONL driver (it opens its file in on_pipeline_start) that also records
            def on_pipeline_start(self, *a, **k):
                super().on_pipeline_start(*a, **k)
                rec.on_pipeline_start(*a, **k)
        p = Pipeline(copy.deepcopy(cfg), trace=Tee(path), orchestrator=orch, logger=lg)
        try:
            p.process(Payload(FloatDataType(2.0), ContextType({})))
        except BaseException as ex:  # noqa
            if isinstance(ex, KeyboardInterrupt):
                raise
        if not rec.starts:
            return None
        m = rec.starts[-1]["meta"]
        return {"semid": m.get("semantic_id"), "cfgid": m.get("config_id"), "nodesem": sorted((m.get("node_semantic_ids") or {}).values())}
    first = start_ids(cfg_b, os.path.join(tmp, "b1.jsonl"))
    failed = start_ids(cfg_a, os.path.join(blocker, "a.jsonl"))
    third = start_ids(cfg_b, os.path.join(tmp, "b3.jsonl"))
    pay = build_inspection_payload(copy.deepcopy(cfg_b))
    want = {"semid": pay["identity"]["semantic_id"], "cfgid": pay["identity"]["config_id"],
            "nodesem": sorted(x["node_semantic_id"] for x in pay["pipeline_spec_canonical"]["nodes"] if x["node_semantic_id"] != "none")}
    if first is None or third is None:
        return None
    third_cmp = dict(third, nodesem=[x for x in third["nodesem"] if x != "none"])
    first_cmp = dict(first, nodesem=[x for x in first["nodesem"] if x != "none"])
    bad = [f for f in ("semid", "cfgid", "nodesem") if third_cmp[f] != want[f] or third_cmp[f] != first_cmp[f]]
    if bad:
        return (bad, "pipeline_start identities of a configuration run on a shared orchestrator after another configuration's trace file could not be "
                     "opened (%s) differ from its first run / from inspect: %s" % ("no pipeline_start for the failed job" if failed is None else "job failed", bad), cfg_b)
    return None


def first_obs_by_index(first_obs, bases, bi):
    nodes = bases[bi][1]
    for n, o in first_obs:
        if n is nodes:
            return n, o
    return nodes, None


CLASSES = ["node", "parameters", "parameters.nested", "derive", "sweep", "sweep.variables", "sweep.variable_spec", "sweep.parameters"]


def attribute(nodes, base, kind, fields, rng):
    """Narrow a metamorphic failure to one rewrite class; returns (stable signature, description)."""
    tries = []
    if kind in ("all", "keyorder"):
        tries += [("keyorder", {c}) for c in CLASSES]
    if kind in ("all", "exprs"):
        tries.append(("exprs", None))
    if kind in ("all", "layout"):
        tries.append(("layout", None))
    for k, perm in tries:
        for _ in range(4):
            text, obj, permuted = G.cosmetic_variant(nodes, rng, k, perm)
            try:
                ob = G.observe(yaml.safe_load(text)["pipeline"]["nodes"])
            except Exception:  # noqa
                continue
            d = diff_fields(base, ob) + (["pipeline_id"] if ob["plid"] != base["plid"] else [])
            if d:
                names = {"uuids": "node_uuid", "nodesem": "node_semantic_id", "semid": "semantic_id", "cfgid": "config_id",
                         "required": "required_context_keys"}
                ds = ",".join(names.get(x, x) for x in d if x != "pipeline_id" or len(d) == 1)
                cls = "key-order:" + sorted(perm)[0] if k == "keyorder" else ("operand-order" if k == "exprs" else "layout")
                return "C04:%s:%s" % (cls, ds), "identities %s change under a cosmetic rewrite (%s) of the YAML text" % (d, cls)
    return "C04:rewrite:" + kind + ":" + ",".join(fields), "identities %s change under cosmetic rewrite kind %s (not narrowed)" % (fields, kind)


def replay(obj):
    G.setup()
    r = obj["replay"]
    nodes = r["nodes"]
    print("configuration:", json.dumps(nodes, default=str))
    if r.get("kind") == "shared":
        try:
            ref = G.observe(nodes, runs=1)
        except G.Mismatch as ex:
            print("identity paths of the pristine configuration disagree:", ex)
            return 1
        rc = 0
        for op, ids in G.observe_shared(nodes, r.get("order") or ["payload", "pipeline"]):
            bad = [f for f, rf in (("uuids", "uuids"), ("semid", "semid"), ("cfgid", "cfgid"), ("plid", "plid"), ("run_plid", "plid"))
                   if ids.get(f) is not None and ids[f] != ref[rf]]
            print("  after", op, "->", "DIFFERENT " + ",".join(bad) if bad else "same as pristine")
            rc = rc or bool(bad)
        return int(rc)
    if r.get("kind") == "shared-mutating-consumer":
        print("configuration: source, FloatMultiplyOperation swept over t = [3.0, 1.0, 2.0] (variant %s), a context processor sorting t_values in place;"
              " operations %s on one configuration object; identities differ from the pristine configuration's at step %s" % (r.get("variant"), r.get("order"), r.get("at")))
        return 1
    if r.get("kind") == "shared-orchestrator":
        import tempfile as _tf
        d = shared_orchestrator_problem(_tf.mkdtemp(prefix="c04r_"))
        print("now:", d[:2] if d else "identities agree")
        return 1 if d else 0
    if r.get("kind") == "aliased":
        print("the configuration with two equal copies is shown; the failing one references ONE container object twice (%s)" % r.get("container"))
        return 1
    if r.get("kind") == "hashseed":
        print("identity sets by PYTHONHASHSEED:", json.dumps(r.get("by_seed"), indent=1)[:2000])
        return 1
    if r.get("kind") == "two-runs" or not r.get("yaml"):
        ob = G.observe(nodes)
        print("pipeline_id of two traced runs of one Pipeline object:", ob["run_plids"])
        print("compute_pipeline_id(build_canonical_spec(cfg)):", ob["plid"])
        return 0 if len(set(ob["run_plids"])) <= 1 else 1
    a = G.observe(nodes)
    b = G.observe(yaml.safe_load(r["yaml"])["pipeline"]["nodes"])
    print("rewritten YAML:\n" + r["yaml"])
    for f in FIELDS + ["plid"]:
        print("  %-9s %s  %s" % (f, "same" if a[f] == b[f] else "DIFFERENT", (a[f], b[f]) if a[f] != b[f] else ""))
    return 0 if not diff_fields(a, b) else 1


TRUSTED = [
    "Coq 8.16.1 kernel (coqc), vm_compute; no native_compute",
    "model coq/Model/Json.v + coq/Model/Identity.v (hand transcription of graph_builder.py, semantic_id.py, the sweep metadata of "
    "parametric_sweep_factory.py and the orchestrator's shared canonical spec) instantiated with Gen/IdentityGen.v and Gen/SemanticIdGen.v",
    "translators harness/translate/identity.py, semantic_id.py (fail closed); enrich_on_copy is a PROBED fact",
    "hash functions are Section variables; in the shards they are finite tables preimage -> hash that the harness computes with hashlib/uuid "
    "from the implementation's own JSON objects and checks against the implementation's ids",
    "component facts (fully qualified class name, kind, required parameter names, created keys) are read from the registry, not modelled; "
    "the required-key computation is the set difference used by build_pipeline_inspection (C02 owns the full inspection model)",
    "modelled not verified: PyYAML loading (the harness checks that each rewritten text loads to the intended object), json.dumps number "
    "printing (tokens are supplied by json.dumps), ast.parse/ast.dump (C12)",
]
FINISH = {"level": "proof", "assumptions": [
    "JSON strings are printable ASCII; numbers are finite; mapping keys are unique (jok / cfg_ok)",
    "sweep expressions lie in the C12 grammar with identifiers free of the quote character",
    "hash functions are deterministic functions of the preimage string (Section variables U5, H)"]}
