"""C05 — Identities discriminate: a change of meaning changes semantic and config ID.

proof side : Properties/C05.v (injectivity of the sorted-key JSON text at token and character level, distinct
             node-uuid preimages within a pipeline, collision-explicit discrimination of semantic id / node
             semantic id / config id, one lemma per mutation operator, C05_refuted_when / C05_partial)
tie        : same generated tables and the same preimage-exact correspondence as C04, on base AND mutated
             configurations
search     : direct oracle on the implementation: every single-point semantic mutation at every applicable
             position must change semantic id and config id and the affected node's uuid or node semantic id;
             node uuids within one pipeline are pairwise distinct
"""
from __future__ import annotations

import glob
import json
import os
import random

from harness import core
from harness.lib import idgen as G
from harness.props.c04 import gen_facts
from harness.translate import run_all

SIG_A = "C05:semantic-id-ignores-sweep-definition"
SIG_B = "C05:sweep-member-named-expr-dropped-from-all-ids"


def sweep_cfg(expr, proc="FloatValueDataSource", var="t", vals=(1.0, 2.0, 3.0)):
    return [{"processor": proc, "derive": {"parameter_sweep": {"parameters": {"value": expr}, "variables": {var: list(vals)},
                                                             "collection": "FloatDataCollection"}}}]


MIN_A = [sweep_cfg("2*t"), sweep_cfg("3*t"), sweep_cfg("2*t", "FloatValueDataSourceWithDefault")]
MIN_B = [sweep_cfg("expr*2", var="expr"), sweep_cfg("expr*2", var="expr", vals=(1.0, 2.0, 4.0))]
MIN_B2 = [sweep_cfg("preprocessor_view*2", var="preprocessor_view"), sweep_cfg("preprocessor_view*2", var="preprocessor_view", vals=(1.0, 2.0, 4.0))]


def load_corpus():
    return [(os.path.basename(f), json.load(open(f))["nodes"]) for f in sorted(glob.glob(os.path.join(core.ROOT, "corpus", "C05", "*.json")))]


def judge(ck, op, pos, nodes, mut, a, b, reserved=False):
    """Direct oracle for one mutation; returns True when the implementation discriminates."""
    same_sem, same_cfg = a["semid"] == b["semid"], a["cfgid"] == b["cfgid"]
    same_node = a["uuids"] == b["uuids"] and a["nodesem"] == b["nodesem"]
    rep = {"kind": "mutation", "operator": op, "position": pos, "nodes": nodes, "mutated": mut}
    ok = True
    if same_cfg or (same_node and not op.startswith("nodes.")):
        ok = False
        if reserved:
            ck.fail_input(SIG_B, "changing the domain of a sweep variable named 'expr' changes no identity at all "
                          "(compute_node_semantic_id drops every key called 'expr', also inside `variables`)", rep)
        else:
            ck.fail_input("C05:%s:config_id-or-node-identity-unchanged" % op,
                          "mutation %s at %s leaves config id (%s) / node uuid+node semantic id (%s) unchanged" % (op, pos, same_cfg, same_node), rep)
    if same_sem:
        ok = False
        if op.startswith("sweep.") and not same_cfg:
            ck.fail_input(SIG_A, "mutation %s leaves the pipeline semantic id unchanged (config id and node semantic id do change): "
                          "the semantic id hashes name/node_uuid/payload_from only and the uuid of a sweep node does not depend on the sweep" % op, rep)
        elif reserved:
            ck.fail_input(SIG_B, "changing the domain of a sweep variable named like a sanitised metadata field leaves the semantic id unchanged", rep)
        else:
            ck.fail_input("C05:%s:semantic_id-unchanged" % op, "mutation %s at %s leaves the semantic id unchanged" % (op, pos), rep)
    return ok


def run(ck):
    rng = random.Random(ck.seed * 15485863 + 5)
    thorough = ck.tier == "thorough"
    gen = run_all(["semantic_id", "identity"])
    ck.build_models(["Gen/SemanticIdGen.v", "Gen/IdentityGen.v", "Model/Identity.v"])
    proved = ck.prove(gen_results=gen)
    if thorough and proved:
        ck.coqchk()
    facts = gen_facts()
    ck.notes["generated_facts"] = facts
    G.setup()

    n_base = 160 if thorough else 16
    bases = load_corpus() + [("min_a%d" % i, c) for i, c in enumerate(MIN_A[:1])]
    while len(bases) < n_base:
        bases.append(("gen%d" % len(bases), G.gen_config(rng, max_nodes=4, sweep_p=0.55)))
    lits, meta = [], []
    per_op, rejected, dup = {}, 0, 0
    evaluations = 0
    nontrivial = set()

    def add_case(tag, nodes, ob):
        if tag.startswith("direct_"):
            return       # corpus entries outside the identity model's fragment (processors specialised through parameters): direct oracle only
        try:
            lits.append(G.case_lit(nodes, ob))
            meta.append((tag, nodes))
        except ValueError as ex:
            ck.notes.setdefault("outside_fragment", []).append(str(ex)[:100])

    def ids_only(nodes):
        """the identities as the implementation reports them, without the harness' own recomputation of the preimages
        (so that the discrimination oracle keeps judging when the preimage layout is no longer the known one)"""
        import copy as _copy
        from semantiva.inspection import build_inspection_payload
        return G._payload_ids(build_inspection_payload(_copy.deepcopy(nodes)))

    for name, nodes in bases:
        try:
            base = G.observe(nodes, runs=0)
        except G.Mismatch as ex:
            ck.corr_problem("harness recomputation of the implementation's preimage does not give its id", str(ex), case={"nodes": nodes})
            try:
                b0 = ids_only(nodes)
            except Exception:  # noqa
                continue
            for op, pos, mut in G.mutations(nodes):
                try:
                    judge(ck, op, pos, nodes, mut, b0, ids_only(mut))
                    evaluations += 1
                except Exception:  # noqa - mutated configuration rejected
                    pass
            continue
        except Exception as ex:  # noqa
            ck.notes.setdefault("rejected_bases", []).append("%s: %r" % (name, ex))
            continue
        evaluations += 1
        add_case(name, nodes, base)
        if len(set(base["uuids"])) != len(base["uuids"]):
            dup += 1
            ck.fail_input("C05:duplicate-node-uuid", "two nodes of one pipeline share a uuid", {"kind": "dup", "nodes": nodes})
        for op, pos, mut in G.mutations(nodes):
            try:
                ob = G.observe(mut, runs=0)
            except G.Mismatch as ex:
                ck.corr_problem("harness recomputation of the implementation's preimage does not give its id", str(ex), case={"nodes": mut})
                try:
                    judge(ck, op, pos, nodes, mut, base, ids_only(mut))
                    evaluations += 1
                except Exception:  # noqa
                    pass
                continue
            except Exception:  # noqa - mutated configuration rejected by the implementation
                rejected += 1
                continue
            evaluations += 1
            st = per_op.setdefault(op, [0, 0])
            st[0] += 1
            nontrivial.add(json.dumps(mut, sort_keys=True))
            if judge(ck, op, pos, nodes, mut, base, ob):
                st[1] += 1
            if len(lits) < (3000 if thorough else 330):
                add_case("%s/%s@%s" % (name, op, pos), mut, ob)
            if len(set(ob["uuids"])) != len(ob["uuids"]):
                ck.fail_input("C05:duplicate-node-uuid", "two nodes of one pipeline share a uuid", {"kind": "dup", "nodes": mut})

    # stored failing input of the finding selected by the generated fact
    def obs(c):
        try:
            return G.observe(c, runs=0)
        except G.Mismatch as ex:
            ck.corr_problem("harness recomputation of the implementation's preimage does not give its id", str(ex), case={"nodes": c})
            d = ids_only(c)
            d["fallback"] = True
            return d

    _add_case = add_case

    def add_case(tag, nodes, ob):  # noqa: F811 - model cases need the recomputed tables
        if not ob.get("fallback"):
            _add_case(tag, nodes, ob)

    a = [obs(c) for c in MIN_A]
    evaluations += 3
    if not facts["sem_includes_sweep"]:
        if not (a[0]["semid"] == a[1]["semid"] == a[2]["semid"]):
            ck.corr_problem("generated fact sem_includes_sweep=false but the stored failing input does not fail", json.dumps(MIN_A))
        else:
            judge(ck, "sweep.expression", "node 0 value", MIN_A[0], MIN_A[1], a[0], a[1])
            judge(ck, "sweep.wrapped_processor", "node 0", MIN_A[0], MIN_A[2], a[0], a[2])
            if not (a[0]["uuids"] == a[1]["uuids"] == a[2]["uuids"]):
                ck.corr_problem("stored failing input: node uuids were expected to coincide", json.dumps(MIN_A))
    # reserved member names (keys that the id functions strip at any depth)
    b = [obs(c) for c in MIN_B]
    evaluations += 2
    add_case("reserved/expr", MIN_B[0], b[0])
    add_case("reserved/expr'", MIN_B[1], b[1])
    judge(ck, "sweep.variable_domain", "variable named expr", MIN_B[0], MIN_B[1], b[0], b[1], reserved=True)
    b2 = [obs(c) for c in MIN_B2]
    evaluations += 2
    add_case("reserved/preprocessor_view", MIN_B2[0], b2[0])
    add_case("reserved/preprocessor_view'", MIN_B2[1], b2[1])
    judge(ck, "sweep.variable_domain", "variable named preprocessor_view", MIN_B2[0], MIN_B2[1], b2[0], b2[1], reserved=True)

    # sequences of values that are not JSON (unquoted YAML dates ...): outside the model's JSON domain, so the direct
    # oracle alone -- every single-element change of the domain changes all three identities
    evaluations += nonjson_sequence_oracle(ck)

    per_shard = 60
    shards, spans = [], []
    for i in range(0, len(lits), per_shard):
        chunk = lits[i:i + per_shard]
        shards.append(G.CASE_HEADER % ";\n".join(chunk + [chunk[0].replace('"plsemid-', '"plsemid-0', 1)]))
        spans.append((i, len(chunk)))
    per, errs = core.mismatches("C05", shards, timeout=900)
    agreed = 0
    for k, ls in enumerate(per):
        if ls is None:
            continue
        start, n = spans[k]
        if n not in ls[0]:
            ck.corr_problem("canary case of shard %d was not reported as a mismatch (comparison is not live)" % k, "")
        bad = [x for x in ls[0] if x != n]
        agreed += n - len(bad)
        for x in bad[:4]:
            ck.corr_problem("model identities (hash of model preimage) differ from the implementation's", "case " + meta[start + x][0],
                            case={"nodes": meta[start + x][1]})
    for k, rc, out in errs:
        ck.corr_problem("correspondence shard %d did not evaluate (rc=%s)" % (k, rc), out)
    ck.cov["traces_validated_against_impl"] = agreed
    ck.cov["evaluations"] = evaluations
    ck.cov["distinct_nontrivial"] = len(nontrivial)
    ck.cov["rule"] = ("evaluations = configurations whose identities were computed on the implementation (bases + every applicable single-point "
                      "mutation: processor, parameter value at every leaf, node delete/insert/duplicate/swap at every position, every expression leaf, "
                      "every variable-domain field incl. each sequence element, mode, broadcast, collection); non-trivial = distinct mutated "
                      "configurations accepted by the implementation (measured; %d mutations were rejected as invalid); per operator "
                      "[applied, discriminated by all ids]: %s; model cases compared in Coq: %d" % (rejected, json.dumps(per_op, sort_keys=True), len(lits)))
    ck.notes["per_operator"] = per_op
    ck.notes["input_distribution"] = "bases: 1..4 nodes as in C04 with 55% sweeps; all mutation operators at all positions"
    ck.cov["samples"] = [{"config": n, "semantic_id": None} for _, n in bases[:3]]
    ck.cov["trusted_base"] = TRUSTED
    ck.log("mutations: %s; model cases %d/%d agree" % (json.dumps(per_op), agreed, len(lits)))


def _ids(nodes):
    from semantiva.inspection import build_inspection_payload
    import copy
    p = build_inspection_payload(copy.deepcopy(nodes))
    return (p["identity"]["semantic_id"], p["identity"]["config_id"],
            tuple(n.get("node_semantic_id") for n in p["pipeline_spec_canonical"]["nodes"]))


def nonjson_sequence_oracle(ck):
    import datetime
    n = 0
    families = {
        "date": ([datetime.date(2024, 1, d) for d in range(1, 10)], datetime.date(2023, 12, 31)),
        "complex": ([complex(i, 1) for i in range(9)], complex(0, -7)),
        "bytes": ([bytes([65 + i]) for i in range(9)], b"zz"),
        "mixed-with-date": ([1.0, 2.0, 3.0, datetime.date(2024, 5, 5), 4.0, 5.0, 6.0, 7.0], -1.0),
        # non-finite floats (YAML .inf / .nan): legal values of an explicit list
        "with-inf": ([1.0, 2.0, float("inf"), 3.0, 4.0, 5.0, 6.0, 7.0], -1.0),
        "with-nan": ([float("nan"), 1.0, 2.0], 9.0),
        "with-negative-inf": ([1.0, float("-inf"), 2.0], float("inf")),
        # numbers that differ far below the printed precision of a rounded signature
        "close-floats": ([0.1, 0.2, 0.30000000000000004, 1e-15, 2.0], 0.3),
    }
    for fam, (vals, other) in families.items():
        for length in (len(vals), 3):
            base_vals = vals[:length]
            base = [{"processor": "FloatValueDataSource",
                     "derive": {"parameter_sweep": {"parameters": {"value": "t"}, "variables": {"t": list(base_vals)},
                                                    "collection": "FloatDataCollection"}}}]
            try:
                a = _ids(base)
            except Exception:  # noqa - this family of values is not accepted at inspection
                continue
            n += 1
            for i in range(length):
                mv = list(base_vals)
                mv[i] = other
                mut = [{"processor": "FloatValueDataSource",
                        "derive": {"parameter_sweep": {"parameters": {"value": "t"}, "variables": {"t": mv}, "collection": "FloatDataCollection"}}}]
                try:
                    b = _ids(mut)
                except Exception:  # noqa
                    continue
                n += 1
                same = [nm for nm, x, y in zip(("semantic_id", "config_id", "node_semantic_id"), a, b) if x == y]
                if same:
                    ck.fail_input("C05:sweep.variable_domain:non-json-sequence-element-change-keeps-ids",
                                  "changing element %d of a %d-element sequence of %s values leaves %s unchanged" % (i, length, fam, ", ".join(same)),
                                  {"kind": "nonjson-sequence", "family": fam, "values": [repr(v) for v in base_vals], "position": i,
                                   "replacement": repr(other), "unchanged": same})
    return n


def replay(obj):
    G.setup()
    r = obj["replay"]
    if r.get("kind") == "nonjson-sequence":
        print(json.dumps(r, indent=1))
        print("re-run: ./check C05 quick (the non-JSON sequence oracle is deterministic)")
        return 1
    a, b = G.observe(r["nodes"], runs=0), G.observe(r.get("mutated", r["nodes"]), runs=0)
    print("base   :", json.dumps(r["nodes"]))
    print("mutated:", json.dumps(r.get("mutated")), "| operator:", r.get("operator"), r.get("position"))
    for f in ("uuids", "nodesem", "semid", "cfgid"):
        print("  %-8s %s" % (f, "UNCHANGED" if a[f] == b[f] else "changed"), a[f] if a[f] == b[f] else "")
    return 1 if a["semid"] == b["semid"] or a["cfgid"] == b["cfgid"] else 0


TRUSTED = [
    "Coq 8.16.1 kernel (coqc), vm_compute; no native_compute",
    "model coq/Model/Json.v + coq/Model/Identity.v instantiated with Gen/IdentityGen.v and Gen/SemanticIdGen.v (see C04)",
    "injectivity of the JSON text is proved down to characters on the fragment jok (printable ASCII without quote/backslash in strings, "
    "numbers as printed tokens, unique keys); outside it only at token level",
    "hash functions are Section variables; discrimination theorems carry an explicit Collision disjunct",
    "mutation generator harness/lib/idgen.py: that each mutation really changes the meaning is by construction (not proved)",
]
FINISH = {"level": "proof", "assumptions": [
    "hash outputs are printable ASCII without quote/backslash (hash_ok; true of hex digests and uuid text)",
    "JSON fragment jok; expressions in the C12 grammar",
    "SHA-256 / UUIDv5 collisions are not excluded: every theorem has the disjunct Collision"]}
