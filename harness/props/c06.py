"""C06 -- Every run leaves a well-formed, schema-valid trace, whatever node fails.

proof side : Properties/C06.v over Model/Trace.v (traced executor = Model/Pipeline.v's executor threaded with a
             driver handle state; protected-region structure from Gen/OrchestratorGen.v)
tie        : Gen/OrchestratorGen.v (AST facts of orchestrator.execute / jsonl.py, schema tables) + differential
             execution: generated pipeline x failure index x failure kind x detail x {file, directory};
             emitted lines -> record skeleton compared inside Coq with execute_traced's records, driver state
             (closed? lines on disk at return) and outcome
search     : direct oracles on the emitted JSONL computed from the harness's own execution log: bracket grammar,
             SER order / upstream / statuses / shared ids, end status, jsonschema validation against the shipped
             schemas (registry map), exception unchanged w.r.t. the untraced run, handle closed and file flushed
             at the moment the call returns or raises.
"""
from __future__ import annotations

import collections
import json
import random

from harness.lib import pipegen as pg
from harness.lib import tracelib as tl

SIG_A = "C06:node-construction-error:only-pipeline_start-unflushed-handle-open"
SIG_B = "C06:base-exception-abort:no-error-ser-no-pipeline_end"
SIG_C = "C06:non-json-sweep-metadata:no-schema-valid-pipeline_start-and-no-ser"
EXPECTED = {  # defect class -> problems that belong to it
    SIG_A: {"no-pipeline_end", "handle-open", "unflushed"},
    SIG_B: {"ser-count", "no-pipeline_end"},
    SIG_C: {"ser-count", "schema:pipeline_start:required::pipeline_spec_canonical", "exception-changed",
            "no-single-pipeline_start", "no-pipeline_end"},   # (the traced call may also raise before pipeline_start)
}


def problems_of(r, plain_outcome, plain_exc):
    probs = [p for p, _ in tl.bracket_problems(r)]
    for rec in r.records:
        for e in tl.schema_errors(rec):
            probs.append("schema:" + e)
    same = (r.outcome == plain_outcome) and ((r.exc is None) == (plain_exc is None)) and \
        (r.exc is None or (type(r.exc) is type(plain_exc) and str(r.exc) == str(plain_exc)))
    if not same:
        probs.append("exception-changed")
    return sorted(set(probs))


def defect_class(r):
    if r.case.get("direct_only"):
        return None
    if r.outcome[0] == "cfailed":
        return SIG_A
    if r.outcome[0] == "failed" and r.outcome[3] in tl.BASE_ONLY:
        return SIG_B
    if r.outcome[0] == "tfailed" or any(tl.node_meta(n) == "MOpaque" for n in r.case["nodes"]):
        return SIG_C
    return None


def defect_class_case(c):
    return SIG_C if any(tl.node_meta(n) == "MOpaque" for n in c["nodes"]) else None


def signatures(r, probs):
    """-> set of signatures for the problems of one run"""
    cls = defect_class(r)
    out = set()
    for p in probs:
        if cls and p in EXPECTED[cls]:
            out.add(cls)
        else:
            out.add("C06:%s:%s" % (r.outcome[0] + ("/" + r.case["kind"] if r.case.get("kind") else ""), p))
    return out


def run(ck):
    facts = tl.setup_check(ck)
    thorough = ck.tier == "thorough"
    rng = random.Random(ck.seed * 7919 + 6)
    stats = {}
    corpus = tl.load_corpus("C06")
    cases = list(corpus) + tl.failure_cases(rng, 40 if thorough else 24, stats, maxlen=6 if thorough else 5)
    cases += tl.unusual_string_cases(rng, 32 if thorough else 16)
    combos = [(d, m) for d in tl.DETAILS for m in tl.MODES]
    texts, kept = [], []
    counts = collections.Counter()
    reported = {}
    runs = 0
    for i, c in enumerate(cases):
        plain_out, plain_exc, _ = tl.run_plain(c["nodes"], c["data0"], c["ctx0"])
        todo = combos if (thorough or i < len(corpus)) else [combos[i % len(combos)]]
        for (detail, mode) in todo:
            r = tl.run_traced(c["nodes"], c["data0"], c["ctx0"], detail=detail, mode=mode)
            r.case = c
            runs += 1
            counts["outcome:" + r.outcome[0]] += 1
            counts["kind:" + str(c.get("kind"))] += 1
            counts["detail:" + detail] += 1
            counts["mode:" + mode] += 1
            if r.outcome[0] == "unsupported" and not c.get("direct_only"):
                continue     # (a direct-only case holds values the model cannot name: the direct oracles still judge its trace)
            probs = problems_of(r, plain_out, plain_exc)
            for s in signatures(r, probs):
                counts["finding:" + s] += 1
                if s not in reported or len(c["nodes"]) < len(reported[s][0]["nodes"]):
                    reported[s] = (c, r, probs)
            try:
                if c.get("direct_only"):
                    raise pg.Unsupported("direct oracle only: " + str(c.get("kind")).split(":")[0])
                texts.append(tl.case_coq(c["nodes"], c["data0"], c["ctx0"], r))
                kept.append((c, r))
            except pg.Unsupported as u:
                counts["not-in-model:" + str(u)[:40]] += 1
            except Exception as ex:  # noqa - a record the model's literal language cannot name (an unknown enum value, ...):
                # the direct oracles above have judged the run; the model comparison of this case is reported as not made
                ck.corr_problem("a traced run could not be written as a model case (%s)" % type(ex).__name__, repr(ex)[:300])
    # launch-style sequences: one driver + one Pipeline object, several runs carrying a launch's TraceContext
    launch_seq = 0
    picks = [c for c in cases if not c.get("direct_only")]
    picks = picks[:: max(1, len(picks) // (24 if thorough else 8))]
    for i, c in enumerate(picks):
        detail, mode = tl.DETAILS[i % len(tl.DETAILS)], tl.MODES[(i // 2) % 2]
        try:
            rs, lp = tl.launch_style_runs(c["nodes"], c["data0"], c["ctx0"], detail, mode)
        except pg.Unsupported:
            continue
        launch_seq += 1
        runs += len(rs)
        if lp and not (defect_class_case(c) and all(any(e in p for e in EXPECTED[defect_class_case(c)]) for p in lp)):
            s = "C06:launch-style-runs:%s:%s" % (mode, sorted(set(p.split(": ", 1)[-1].split(" ")[0] if p.startswith("run ") else "file-mix" for p in lp))[0])
            if s not in reported:
                counts["finding:" + s] += 1
                ck.fail_input(s, "runs of one launch (one driver, one Pipeline, TraceContext in the run metadata): %s" % "; ".join(lp[:6]),
                              dict(tl.replay_obj(c, rs[0]), kind="launch-style", mode=mode, detail=detail, problems=lp[:10]))
                reported[s] = None
    counts["launch_style_sequences"] = launch_seq
    # a transport that fails on the publish after node k (every k), file and directory output
    tf_nodes = [{"k": "src", "cfg": {"value": 2}}, {"k": "mul", "cfg": {"factor": 3}}, {"k": "probe", "ckey": "k"}, {"k": "add", "cfg": {"addend": 1}}]
    for k in range(len(tf_nodes)):
        for mode in tl.MODES:
            detail = tl.DETAILS[(k + len(mode)) % 4]
            tp = tl.transport_failure_problems(tf_nodes, k, detail, mode)
            runs += 1
            if tp:
                s = "C06:transport-failure-after-node:%s" % tp[0].split(" ")[0].rstrip(":")
                if s not in reported:
                    counts["finding:" + s] += 1
                    ck.fail_input(s, "the transport's publish after node %d raises (detail=%s, %s output): %s" % (k, detail, mode, "; ".join(tp)),
                                  {"kind": "transport-failure", "nodes": [tl.node_repr(n) for n in tf_nodes], "descriptors": tf_nodes, "data0": None, "ctx0": {},
                                   "fail_at": k, "detail": detail, "mode": mode, "problems": tp})
                    reported[s] = None
    bad, errs = tl.evaluate("C06", texts)
    for k, rc, out in errs:
        ck.corr_problem("correspondence shard %d did not evaluate (rc=%s)" % (k, rc), out)
    for b in bad[:10]:
        c, r = kept[b]
        ck.corr_problem("traced executor model and implementation disagree (%s, outcome %s)" % (c.get("kind"), r.outcome[0]),
                        json.dumps(tl.replay_obj(c, r), default=str)[:1500], case=tl.replay_obj(c, r))
    for s, (c, r, probs) in sorted((k, v) for k, v in reported.items() if v is not None):
        ck.fail_input(s, "traced run violates the trace contract: %s" % ", ".join(probs), tl.replay_obj(c, r, problems=probs))
    # generated facts that are false must be witnessed on the real code by the stored input
    need = {SIG_A: not facts.get("instantiate_inside_try", False),
            SIG_B: not (facts.get("node_handler_catches_base", False) and facts.get("outer_handler_catches_base", False)),
            SIG_C: not facts.get("metadata_json_safe", False)}
    for s, wanted in need.items():
        if wanted and s not in reported:
            ck.corr_problem("generated fact says the defect %s is present but the stored failing input does not reproduce it" % s, "")
        if not wanted and s in reported:
            ck.corr_problem("generated fact says the defect %s is repaired but a run still shows it" % s, "")
    nontrivial = len(set(json.dumps([c["nodes"], c["data0"], c["ctx0"]], sort_keys=True, default=str)
                         for c, r in kept if r.outcome[0] != "done" or len(c["nodes"]) >= 2))
    ck.cov["evaluations"] = runs
    ck.cov["traces_validated_against_impl"] = len(texts) - len(bad)
    ck.cov["distinct_nontrivial"] = nontrivial
    ck.cov["rule"] = ("traced runs of: corpus + generated pipelines (len 1..%d, pipegen) each unmodified and with every failure kind "
                      "inserted at every reachable node index; quick tier rotates (detail, mode) over the 8 combinations per case, "
                      "thorough runs all 8; non-trivial = distinct inputs that fail or have >= 2 nodes" % (6 if thorough else 5))
    ck.cov["samples"] = [tl.replay_obj(c, r) for c, r in kept[:4]]
    ck.notes["distribution"] = dict(sorted(counts.items()))
    ck.notes["generator_distribution"] = dict(sorted(stats.items()))
    ck.cov["trusted_base"] = TRUSTED
    ck.log("runs %d, compared in Coq %d (disagreements %d), findings %s" % (runs, len(texts), len(bad), sorted(reported)))


def replay(obj):
    r = obj["replay"]
    c = {"nodes": r["descriptors"], "data0": r["data0"], "ctx0": r["ctx0"], "kind": r.get("kind")}
    if r.get("kind") == "transport-failure":
        tp = tl.transport_failure_problems(c["nodes"], r["fail_at"], r.get("detail", "hash"), r.get("mode", "file"))
        print("problems now:", tp, "| recorded:", r.get("problems"))
        return 1 if tp else 0
    if r.get("kind") == "launch-style":
        rs, lp = tl.launch_style_runs(c["nodes"], c["data0"], c["ctx0"], r.get("detail", "hash"), r.get("mode", "directory"))
        print("nodes:", json.dumps(r["nodes"]))
        print("problems now:", lp, "| recorded:", r.get("problems"))
        return 1 if lp else 0
    po, pe, _ = tl.run_plain(c["nodes"], c["data0"], c["ctx0"])
    t = tl.run_traced(c["nodes"], c["data0"], c["ctx0"], detail=r.get("detail", "hash"), mode=r.get("mode", "file"))
    t.case = c
    print("nodes:", json.dumps(r["nodes"]))
    print("untraced:", po, "| traced:", t.outcome)
    print("records:", [x.get("record_type") for x in t.records], "| handle open:", t.handle_open,
          "| on disk at return: %d of %d" % (len(t.lines_at_return), len(t.lines)))
    print("problems now:", problems_of(t, po, pe), "| recorded:", r.get("problems"))
    return 0


TRUSTED = [
    "Coq 8.16.1 kernel (coqc), vm_compute; no native_compute",
    "model: coq/Model/Trace.v on top of Model/Pipeline.v + PipelineLib.v (driver = 2-state handle with a buffer; nothing reaches the "
    "disk before flush/close; linear canonical edges)",
    "translator harness/translate/orchestrator.py (AST facts of orchestrator.execute and jsonl.py, schema tables; three probed facts)",
    "correspondence harness: harness/lib/tracelib.py, pipegen.py; jsonschema + referencing for the shipped schemas",
    "modelled not verified: OS-level durability of the flushed file, Python file buffering below 8 KiB",
]
FINISH = {"level": "proof", "assumptions": [
    "started nodes are observed by wrapping _PayloadProcessor.process in the harness process",
    "a trace line reaches the disk only through flush/close (file-handle model)"]}
