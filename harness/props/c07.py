"""C07 -- What a Semantic Execution Record says about its node is true.

proof side : Properties/C07.v over Model/Trace.v (ser_of: delta as diff of the snapshots, parameters / sources as
             _resolve_params_with_sources computes them next to the channel `resolve` really uses, checks as
             boolean functions, digests H(serialize v), stamps from a clock oracle and the generated UTC facts)
tie        : Gen/OrchestratorGen.v (iso_now_utc / driver_now_utc from the AST, default_params_reported probed) +
             differential execution: every SER of every generated run compared inside Coq with ser_of
search     : each SER against the harness's OWN execution log of the same run (context snapshots around every
             node, parameter values and channels actually used, class that ran, data before / after), digests
             grouped by content, and the time bracket [t0, t1] taken by the harness in UTC -- under
             TZ in {UTC, Asia/Tokyo, America/Los_Angeles, Asia/Kathmandu} in subprocesses.
"""
from __future__ import annotations

import collections
import json
import os
import random
import shutil
import subprocess

from harness import core
from harness.lib import pipegen as pg
from harness.lib import tracelib as tl

SIG_TZ = "C07:timestamp:local-wall-time-labelled-Z"
SIG_DEF = "C07:ser:parameters:defaulted-parameter-not-reported"
ZONES = ["UTC", "Asia/Tokyo", "America/Los_Angeles", "Asia/Kathmandu"]


def _same(a, b):
    if a is b:
        return True            # (a NaN left in place is unchanged although NaN != NaN)
    if isinstance(a, float) and isinstance(b, float):
        return float(a).hex() == float(b).hex()      # content: nan == nan, 0.0 != -0.0; a numpy float64 IS its float value
    try:
        import numpy as np
        if isinstance(a, np.ndarray) or isinstance(b, np.ndarray):
            return bool(np.array_equal(a, b))
        r = (a == b)
        return bool(r) if not hasattr(r, "all") else bool(r.all())
    except Exception:
        return a is b


def _raw_data_key(v):
    """content of a payload, exact (repr of the floats: 0.0 and -0.0 are different contents)"""
    tn = type(v).__name__
    if tn == "FloatDataType":
        return "F:" + repr(float(v.data))
    if tn == "FloatDataCollection":
        return "C:" + repr([float(x.data) for x in v])
    return tn


def _raw_ctx_key(c):
    def enc(o):
        try:
            import numpy as np
            if isinstance(o, np.ndarray):
                return ["ndarray"] + o.tolist()
            if isinstance(o, np.generic):
                return o.item()
        except Exception:
            pass
        return repr(o)
    return json.dumps(c, sort_keys=True, default=enc)


def _has_default(node_proc_cls, name):
    from semantiva.data_processors.data_processors import _NO_DEFAULT
    from semantiva.pipeline._param_resolution import _default_for
    try:
        return _default_for(node_proc_cls, name) is not _NO_DEFAULT
    except Exception:
        return False


def ser_problems(r):
    """-> list of (signature, text) for one traced run: each SER against the harness's log entry of its node"""
    out = []
    sers = [x for x in r.records if x.get("record_type") == "ser"]
    objs = list(getattr(r.pipe.orchestrator, "last_nodes", []) or [])
    hash_on = r.driver.get_options().get("hash")
    by_content = {}
    for i, s in enumerate(sers):
        if i >= len(r.log.entries):
            break
        e = r.log.entries[i]
        kind = r.case["nodes"][i]["k"] if i < len(r.case["nodes"]) else "?"
        pre, post = e["ctx_pre"], e["ctx_post"]
        created = sorted(set(post) - set(pre))
        updated = sorted(k for k in set(post) & set(pre) if not _same(pre[k], post[k]))
        cd = s.get("context_delta", {})
        if cd.get("created_keys") != created:
            out.append(("C07:ser:context_delta:created_keys-differ-from-actual-diff", "%s: SER %s, actual %s" % (kind, cd.get("created_keys"), created)))
        if cd.get("updated_keys") != updated:
            out.append(("C07:ser:context_delta:updated_keys-differ-from-actual-diff", "%s: SER %s, actual %s" % (kind, cd.get("updated_keys"), updated)))
        proc = s.get("processor", {})
        if proc.get("ref") != e["proc_ref"]:
            out.append(("C07:ser:processor.ref:not-the-class-that-ran", "%s: SER %s, ran %s" % (kind, proc.get("ref"), e["proc_ref"])))
        params, srcs = proc.get("parameters", {}), proc.get("parameter_sources", {})
        pcls = type(objs[i].processor) if i < len(objs) else None
        for name, ch, val in e["params"]:
            if ch == "unresolved":
                continue
            defaulted = pcls is not None and _has_default(pcls, name)
            if name not in params or name not in srcs:
                if defaulted and ch in ("context", "default"):
                    out.append((SIG_DEF, "%s: parameter %r resolved from %s (value %r) is reported neither in parameters nor in "
                                "parameter_sources" % (kind, name, ch, val)))
                else:
                    out.append(("C07:ser:parameters:%s-parameter-not-reported" % ch, "%s: %r" % (kind, name)))
                continue
            if srcs[name] != ch:
                out.append(("C07:ser:parameter_sources:wrong-channel", "%s: %r reported %s, came from %s" % (kind, name, srcs[name], ch)))
            want, jsonable = val, True
            try:
                json.dumps(want)
            except Exception:
                want, jsonable = None, False
            if jsonable and not _same(params[name], want):
                out.append(("C07:ser:parameters:wrong-value", "%s: %r reported %r, passed %r" % (kind, name, params[name], val)))
            if not jsonable and not isinstance(params[name], str) and not _scalar_equal(params[name], val):
                # a value JSON cannot carry may be reported by its repr text, never as a different value (a one-element array
                # is not the number it holds)
                out.append(("C07:ser:parameters:wrong-value", "%s: %r reported %r (a %s), passed %r (a %s)"
                            % (kind, name, params[name], type(params[name]).__name__, val, type(val).__name__)))
        resolved = {name for name, _, _ in e["params"]}
        # (only for a node that ran: one rejected at its input gate reports what it would have been given)
        for name in sorted(set(params) | set(srcs)) if e["exc"] is None else []:
            if name not in resolved:
                out.append(("C07:ser:parameters:reported-but-never-resolved-by-the-node",
                            "%s: SER reports parameter %r (value %r, source %r) which the node never resolved or passed"
                            % (kind, name, params.get(name), srcs.get(name))))
        # checks
        asr = s.get("assertions", {})
        pre_c = {c.get("code"): c for c in asr.get("preconditions", [])}
        post_c = {c.get("code"): c for c in asr.get("postconditions", [])}
        rk = pre_c.get("required_keys_present")
        st, cls = pg.classify(e["exc"]) if e["exc"] is not None else (None, None)
        if rk is not None:
            exp = (rk.get("details") or {}).get("expected_keys", [])
            cond = all(k in pre for k in exp)
            if (rk.get("result") == "PASS") != cond:
                out.append(("C07:ser:check:required_keys_present-wrong", "%s: %s with expected %s, context %s" % (kind, rk.get("result"), exp, sorted(pre))))
            if st == "SResolve" and rk.get("result") == "PASS":
                out.append(("C07:ser:check:required_keys_present-PASS-but-parameter-unresolvable", kind))
        it = pre_c.get("input_type_ok")
        if it is not None and i < len(objs):
            try:
                cond = isinstance(e["data_pre"], objs[i].processor.input_data_type())
            except Exception:
                cond = None
            if cond is not None and (it.get("result") == "PASS") != cond:
                out.append(("C07:ser:check:input_type_ok-wrong", "%s: %s for %s" % (kind, it.get("result"), type(e["data_pre"]).__name__)))
            if st == "SGate" and it.get("result") == "PASS":
                out.append(("C07:ser:check:input_type_ok-PASS-but-node-rejected-input", kind))
        ot = post_c.get("output_type_ok")
        if ot is not None and i < len(objs):
            try:
                t = objs[i].processor.output_data_type()
                cond = True if t is None else isinstance(e["data_post"], t)
            except Exception:
                cond = None
            if cond is not None and (ot.get("result") == "PASS") != cond:
                out.append(("C07:ser:check:output_type_ok-wrong", "%s: %s for %s" % (kind, ot.get("result"), type(e["data_post"]).__name__)))
        cw = post_c.get("context_writes_realized")
        if cw is not None:
            cond = all(k in post for k in created + updated)
            if (cw.get("result") == "PASS") != cond:
                out.append(("C07:ser:check:context_writes_realized-wrong", kind))
        if (s.get("status") == "succeeded") != (e["exc"] is None):
            out.append(("C07:ser:status:differs-from-what-happened", kind))
        if e["exc"] is not None and (s.get("error") or {}).get("type") != type(e["exc"]).__name__:
            out.append(("C07:ser:error.type:not-the-exception-raised", kind))
        # timing
        tm = s.get("timing", {})
        for f in ("wall_ms", "cpu_ms"):
            if f in tm and not (isinstance(tm[f], int) and tm[f] >= 0):
                out.append(("C07:ser:timing:%s-negative-or-not-integer" % f, "%r" % tm[f]))
        # digests
        if hash_on:
            sm = s.get("summaries") or {}
            try:
                din, dout = sm["input_data"]["sha256"], sm["output_data"]["sha256"]
                cpre, cpost = sm["pre_context"]["sha256"], sm["post_context"]["sha256"]
            except KeyError:
                # a context holding a value no digest is defined for (a lock, a generator, a 5000-digit integer): a SER that
                # leaves the digest out says nothing false; what it does say is still checked
                if not str(r.case.get("kind", "")).startswith("unusual-value"):
                    out.append(("C07:ser:summaries:digest-missing-with-hash-detail", kind))
                continue
            if i + 1 < len(sers) and s.get("status") == "succeeded":
                nx = sers[i + 1].get("summaries") or {}
                if nx.get("input_data", {}).get("sha256") != dout:
                    out.append(("C07:ser:digest:output-of-node-k-differs-from-input-of-node-k+1", kind))
                if nx.get("pre_context", {}).get("sha256") != cpost:
                    out.append(("C07:ser:digest:post_context-of-node-k-differs-from-pre_context-of-node-k+1", kind))
            for tag, dig, key in (("d", din, e.get("data_pre_key") or _raw_data_key(e["data_pre"])), ("d", dout, e.get("data_post_key") or _raw_data_key(e["data_post"]))):
                by_content.setdefault((tag, key), set()).add(dig)       # (content keys taken when the node started / returned)
            for tag, dig, val in (("c", cpre, pre), ("c", cpost, post)):
                try:
                    key = _raw_ctx_key(val)
                except Exception:  # noqa - a context the harness cannot render either (tuple keys, huge integers): no content key
                    continue
                by_content.setdefault((tag, key), set()).add(dig)
    for key, digs in by_content.items():
        if len(digs) > 1:
            out.append(("C07:ser:digest:equal-content-different-digest", "%s" % (key,)))
    inv = collections.defaultdict(set)
    for key, digs in by_content.items():
        for d in digs:
            inv[(key[0], d)].add(key[1])
    for (tag, d), contents in inv.items():
        if len(contents) > 1:
            out.append(("C07:ser:digest:different-content-same-digest", "%s" % sorted(contents)[:2]))
    # in-process time bracket (whatever zone this process runs in is recorded in the notes; the TZ sweep is separate)
    return out


def tz_sweep(ck, zones):
    """-> {zone: report}; each zone in its own interpreter"""
    res = {}
    for z in zones:
        env = dict(os.environ)
        env.update(core.impl_env({"TZ": z}))
        try:
            p = subprocess.run([core.PY, "-m", "harness.lib.tracelib", "tzprobe"], env=env, cwd=core.ROOT,
                               stdout=subprocess.PIPE, stderr=subprocess.PIPE, text=True, timeout=120)
        except subprocess.TimeoutExpired:
            ck.corr_problem("TZ probe timed out", z)
            continue
        if p.returncode != 0:
            ck.corr_problem("TZ probe failed under TZ=%s" % z, p.stderr[-1500:])
            continue
        res[z] = json.loads(p.stdout[p.stdout.index("{"):])
    return res


def tz_problems(rep):
    """-> (list of (source, field, denoted-minus-true seconds), monotone?)"""
    bad = []
    eps = 0.0015
    den = []
    for src, field, s in rep["stamps"]:
        t = tl.rfc3339_to_epoch(s)
        if t is None:
            bad.append((src, field, "not RFC 3339 with Z: %r" % (s,)))
            continue
        den.append(t)
        if not (rep["t0"] - eps <= t <= rep["t1"] + eps):
            bad.append((src, field, round(t - (rep["t0"] + rep["t1"]) / 2, 1)))
    for src, field, s in rep["direct"]:
        t = tl.rfc3339_to_epoch(s)
        if t is None or not (rep["a0"] - eps <= t <= rep["a1"] + eps):
            bad.append((src, field, None if t is None else round(t - (rep["a0"] + rep["a1"]) / 2, 1)))
    mono = all(a <= b for a, b in zip(den, den[1:]))
    return bad, mono


def _scalar_equal(reported, val):
    """reported (a JSON value) denotes the same scalar as val (0-dimensional: a number type JSON does not know)"""
    try:
        import numpy as np
        return np.ndim(val) == 0 and not hasattr(val, "__len__") and isinstance(reported, (bool, int, float)) and bool(reported == val)
    except Exception:
        return False


def run(ck):
    facts = tl.setup_check(ck)
    thorough = ck.tier == "thorough"
    rng = random.Random(ck.seed * 6151 + 7)
    stats = {}
    corpus = tl.load_corpus("C07")
    cases = list(corpus)
    n_base = 260 if thorough else 45
    for _ in range(n_base):
        nodes, data0, ctx0 = tl.gen_base(rng, stats, maxlen=8 if thorough else 6)
        cases.append({"nodes": nodes, "data0": data0, "ctx0": ctx0, "kind": "none", "index": None})
    # contexts holding float corner values (NaN, infinities, negative zero) under keys no node touches: outside the model's
    # integer values (case_coq raises Unsupported), so the direct oracle alone judges these runs
    specials = {"zz_nan": float("nan"), "zz_inf": float("inf"), "zz_negzero": -0.0}
    for c in list(cases[len(corpus):])[:(40 if thorough else 8)]:
        k = rng.choice(sorted(specials))
        cases.append({"nodes": c["nodes"], "data0": c["data0"], "ctx0": dict(c["ctx0"], **{k: specials[k]}), "kind": "none", "index": None})
    # failing runs too (error SERs must be truthful as well)
    cases += tl.failure_cases(rng, 12 if thorough else 4, stats, maxlen=5)
    # unusual but legal context values (a lock, a generator, a 0-d array, ...): what the SERs say about the nodes around them
    # must stay true (direct oracle; the harness' own log snapshots by reference and never copies values)
    cases += tl.unusual_value_cases(14 if thorough else 9)
    combos = [(d, m) for d in tl.DETAILS for m in tl.MODES]
    texts, kept, reported = [], [], {}
    counts = collections.Counter()
    runs = sers_checked = 0
    placements = collections.Counter()
    for i, c in enumerate(cases):
        todo = tl.DETAILS if (thorough or i < len(corpus) or c.get("all_details")) else [tl.DETAILS[i % 4]]
        for detail in todo:
            mode = tl.MODES[(i + len(detail)) % 2]
            r = tl.run_traced(c["nodes"], c["data0"], c["ctx0"], detail=detail, mode=mode)
            r.case = c
            runs += 1
            counts["outcome:" + r.outcome[0]] += 1
            counts["detail:" + detail] += 1
            if r.outcome[0] == "unsupported" and not c.get("direct_only"):
                continue     # (a direct-only case holds values the model cannot name: the direct oracles still judge its trace)
            n_sers = sum(1 for x in r.records if x.get("record_type") == "ser")
            sers_checked += n_sers
            for e in r.log.entries:
                for name, ch, _ in e["params"]:
                    placements[ch] += 1
            for sig, text in ser_problems(r):
                counts["finding:" + sig] += 1
                if sig not in reported or len(c["nodes"]) < len(reported[sig][0]["nodes"]):
                    reported[sig] = (c, r, text)
            try:
                texts.append(tl.case_coq(c["nodes"], c["data0"], c["ctx0"], r))
                kept.append((c, r))
            except pg.Unsupported as u:
                counts["not-in-model:" + str(u)[:40]] += 1
            except Exception as ex:  # noqa - a record the model's literal language cannot name (an unknown enum value, ...):
                # the direct oracles above have judged the run; the model comparison of this case is reported as not made
                ck.corr_problem("a traced run could not be written as a model case (%s)" % type(ex).__name__, repr(ex)[:300])
    runs += unusual_value_oracle(ck)
    runs += scripted_clock_oracle(ck)
    runs += clock_step_back_oracle(ck)
    bad, errs = tl.evaluate("C07", texts)
    for k, rc, out in errs:
        ck.corr_problem("correspondence shard %d did not evaluate (rc=%s)" % (k, rc), out)
    for b in bad[:10]:
        c, r = kept[b]
        ck.corr_problem("SER content of the model (ser_of) and of the implementation disagree (%s)" % r.outcome[0],
                        json.dumps(tl.replay_obj(c, r), default=str)[:1500], case=tl.replay_obj(c, r))
    for sig, (c, r, text) in sorted(reported.items()):
        ck.fail_input(sig, text, tl.replay_obj(c, r, problem=text))
    # time zones
    zones = tz_sweep(ck, ZONES)
    tzbad = {}
    for z, rep in zones.items():
        b, mono = tz_problems(rep)
        if b:
            tzbad[z] = b
        if not mono:
            ck.fail_input("C07:timestamp:not-monotone-along-the-stream", "TZ=%s" % z, {"tz": z, "report": rep})
        if any((w is not None and (not isinstance(w, int) or w < 0)) for w in rep.get("wall_ms", [])):
            ck.fail_input("C07:ser:timing:wall_ms-negative-or-not-integer", "TZ=%s" % z, {"tz": z, "report": rep})
    ck.notes["tz_sweep"] = {z: {"tzname": rep["tzname"], "offending": tzbad.get(z, [])} for z, rep in zones.items()}
    if tzbad:
        z = sorted(tzbad, key=lambda k: (k != "Asia/Tokyo", k))[0]
        srcs = sorted(set("%s.%s" % (s, f) for s, f, _ in tzbad[z]))
        ck.fail_input(SIG_TZ, "under TZ=%s the emitted timestamps (%s) denote instants %s s away from the true UTC time of the run "
                      "(local wall time with a literal Z); zones affected: %s" % (z, ", ".join(srcs), tzbad[z][0][2], sorted(tzbad)),
                      {"tz": z, "zones_affected": sorted(tzbad), "offending": tzbad[z], "report": zones[z],
                       "nodes": "src(value=3) -> square -> probe(k)"})
    utc = facts.get("timestamps_use_utc", False)
    if utc and tzbad:
        ck.corr_problem("generated fact timestamps_use_utc = true but a zone shows shifted timestamps", json.dumps(tzbad)[:800])
    if not utc and not tzbad:
        ck.corr_problem("generated fact timestamps_use_utc = false but no zone shows shifted timestamps", "")
    dfl = facts.get("default_params_reported", False)
    if dfl and SIG_DEF in reported:
        ck.corr_problem("probed fact default_params_reported = true but a run omits a defaulted parameter", reported[SIG_DEF][2])
    if not dfl and SIG_DEF not in reported:
        ck.corr_problem("probed fact default_params_reported = false but the stored failing input does not reproduce", "")
    ck.cov["evaluations"] = sers_checked
    ck.cov["traces_validated_against_impl"] = len(texts) - len(bad)
    ck.cov["distinct_nontrivial"] = len(set(json.dumps([c["nodes"], c["data0"], c["ctx0"]], sort_keys=True, default=str)
                                            for c, r in kept if any(e["params"] for e in r.log.entries) or
                                            any(set(e["ctx_post"] or {}) != set(e["ctx_pre"]) for e in r.log.entries)))
    ck.cov["rule"] = ("evaluations = SERs compared with the harness's execution log; cases = corpus + generated pipelines/contexts "
                      "(every parameter placement incl. defaults overridden by context) + failing runs, detail level rotated (quick) "
                      "or all four (thorough); non-trivial = distinct inputs in which a node resolves a parameter or changes the "
                      "context; TZ sweep %s in subprocesses" % ZONES)
    ck.cov["samples"] = [tl.replay_obj(c, r) for c, r in kept[:4]]
    ck.notes["distribution"] = dict(sorted(counts.items()))
    ck.notes["parameter_channels_observed"] = dict(placements)
    ck.notes["generator_distribution"] = dict(sorted(stats.items()))
    ck.cov["trusted_base"] = TRUSTED
    ck.log("runs %d, SERs %d, compared in Coq %d (disagreements %d), findings %s" % (runs, sers_checked, len(texts), len(bad), sorted(reported)))


def clock_step_back_oracle(ck):
    """Direct oracle: the host's wall clock is set back five seconds while a node runs (an NTP step).  Durations are measured
    times, not differences of wall-clock readings: every SER still reports wall_ms >= 0 and cpu_ms >= 0."""
    import tempfile, time as _t
    from semantiva.context_processors import ContextType
    from semantiva.pipeline import Payload, Pipeline
    from semantiva.trace.drivers.jsonl import JsonlTraceDriver
    from harness.lib import components as C
    pg.setup_impl()
    d = tempfile.mkdtemp(prefix="verif_c07clock_")
    real = _t.time
    C.VerifClockStepBackOperation.real_time = real
    try:
        path = os.path.join(d, "t.ser.jsonl")
        cfg = [{"processor": "FloatValueDataSource", "parameters": {"value": 2.0}}, {"processor": C.VerifClockStepBackOperation},
               {"processor": "FloatMultiplyOperation", "parameters": {"factor": 3.0}}]
        try:
            Pipeline(cfg, trace=JsonlTraceDriver(path, detail="hash")).process(Payload(None, ContextType({})))
        finally:
            _t.time = real
        sers = [json.loads(l) for l in open(path) if l.strip()]
        sers = [r for r in sers if r.get("record_type") == "ser"]
        neg = [(i, r["timing"]) for i, r in enumerate(sers) if r.get("timing", {}).get("wall_ms", 0) < 0 or r.get("timing", {}).get("cpu_ms", 0) < 0]
        if neg:
            ck.fail_input("C07:ser:timing:negative-duration-when-the-wall-clock-steps-back",
                          "the wall clock is set back 5 s while node 1 runs: SER %d reports timing %s" % neg[0],
                          {"kind": "clock-step-back", "config": ["FloatValueDataSource(value=2.0)", "VerifClockStepBackOperation", "FloatMultiplyOperation(factor=3.0)"]})
        return len(sers)
    except Exception as ex:  # noqa
        ck.corr_problem("clock-step-back oracle could not run", repr(ex)[:300])
        return 0
    finally:
        _t.time = real
        shutil.rmtree(d, ignore_errors=True)


def scripted_clock_oracle(ck):
    """The two timestamp functions under a scripted wall clock: instants at both ends of a millisecond and of a second
    (microsecond 0, 1, 499, 500, 999, 499500, 999499, 999500, 999999).  Every timestamp is well-formed RFC 3339 (three
    fractional digits, literal Z), denotes an instant within one millisecond of the clock, and the sequence is monotone.
    Every module of the package that holds the name `datetime` (class or module) sees the scripted clock."""
    import datetime as real_dt
    import re
    import sys as _sys
    import tempfile
    from semantiva.execution.orchestrator.orchestrator import LocalSemantivaOrchestrator
    from semantiva.trace.drivers.jsonl import JsonlTraceDriver
    now = [0.0]

    class ScriptedDT(real_dt.datetime):
        @classmethod
        def now(cls, tz=None):
            return real_dt.datetime.fromtimestamp(now[0], tz) if tz is not None else real_dt.datetime.fromtimestamp(now[0])

        @classmethod
        def utcnow(cls):
            return real_dt.datetime.fromtimestamp(now[0], real_dt.timezone.utc).replace(tzinfo=None)

    class ShimModule:
        datetime, timezone, timedelta, date, time = ScriptedDT, real_dt.timezone, real_dt.timedelta, real_dt.date, real_dt.time

        def __getattr__(self, name):
            return getattr(real_dt, name)

    patched = []
    for mname, mod in list(_sys.modules.items()):
        if not mname.startswith("semantiva") or mod is None:
            continue
        d = getattr(mod, "__dict__", {})
        if d.get("datetime") is real_dt.datetime:
            patched.append((mod, "datetime", d["datetime"]))
            setattr(mod, "datetime", ScriptedDT)
        elif d.get("datetime") is real_dt:
            patched.append((mod, "datetime", d["datetime"]))
            setattr(mod, "datetime", ShimModule())
    n = 0
    bad = []
    try:
        orch = LocalSemantivaOrchestrator()
        drv = JsonlTraceDriver(os.path.join(tempfile.gettempdir(), "verif_unused_clock.jsonl"))
        fns = [("orchestrator._iso_now", orch._iso_now), ("driver._now_timestamp", drv._now_timestamp)]
        base = 1700000033
        instants = [base + k + us / 1e6 for k in range(3) for us in (0, 1, 499, 500, 999, 499500, 999499, 999500, 999999)]
        for fname, fn in fns:
            prev = None
            for t in instants:
                now[0] = t
                s_ = fn()
                n += 1
                den = tl.rfc3339_to_epoch(s_) if isinstance(s_, str) and re.fullmatch(r"\d{4}-\d\d-\d\dT\d\d:\d\d:\d\d\.\d{3}Z", s_) else None
                if den is None:
                    bad.append((fname, t, s_, "not RFC 3339 with three fractional digits and Z"))
                elif abs(den - t) > 0.0011:
                    bad.append((fname, t, s_, "denotes an instant %.4f s away from the clock" % (den - t)))
                elif prev is not None and den < prev:
                    bad.append((fname, t, s_, "earlier than the previous timestamp"))
                prev = den if den is not None else prev
    except Exception as ex:  # noqa
        ck.corr_problem("scripted-clock oracle could not run", repr(ex)[:300])
    finally:
        for mod, name, old in patched:
            setattr(mod, name, old)
    if not patched:
        ck.corr_problem("scripted-clock oracle: no module of the package holds the name `datetime` any more (the timestamp functions could not be put on a scripted clock)", "")
    for fname, t, s_, why in bad[:2]:
        ck.fail_input("C07:timestamp:wrong-under-scripted-clock:" + fname,
                      "%s at clock %.6f (microsecond %d) returns %r: %s" % (fname, t, int(round((t % 1) * 1e6)), s_, why),
                      {"kind": "scripted-clock", "function": fname, "clock": t, "timestamp": s_})
    return n


def unusual_value_oracle(ck):
    """Direct oracle on SERs for values outside the model: numpy arrays rewritten with the same bytes in another shape / dtype
    (the key was updated: it must be listed), an equal copy (not an update of content, but a rewrite: either answer is accepted),
    and a processor returning a collection where it declared a scalar (output_type_ok must not say PASS)."""
    import os, shutil, tempfile
    import numpy as np
    from semantiva.context_processors import ContextType
    from semantiva.pipeline import Payload, Pipeline
    from semantiva.trace.drivers.jsonl import JsonlTraceDriver
    from harness.lib import components as C
    pg.setup_impl()
    n = 0
    arrays = {"grid": np.arange(6, dtype=np.float64).reshape(2, 3), "mask": np.array([1.0, 2.0, 3.0, 4.0], dtype=np.float32).reshape(2, 2)}
    for key, how, must_update in (("grid", "ravel", True), ("grid", "reshape", True), ("mask", "view", True), ("grid", "plus", True), ("grid", "copy", None)):
        for detail in ("hash", "all"):
            d = tempfile.mkdtemp(prefix="verif_c07_")
            try:
                path = os.path.join(d, "t.ser.jsonl")
                cfg = [{"processor": "FloatValueDataSource", "parameters": {"value": 2.0}}, {"processor": C.make_array_rewriter(key, how)}]
                Pipeline(cfg, trace=JsonlTraceDriver(path, detail=detail)).process(Payload(None, ContextType({key: arrays[key].copy(), "other": 1.0})))
                sers = [r for r in (json.loads(l) for l in open(path)) if r.get("record_type") == "ser"]
            except Exception as ex:  # noqa
                ck.corr_problem("unusual-value oracle could not run (%s %s)" % (key, how), repr(ex))
                continue
            finally:
                shutil.rmtree(d, ignore_errors=True)
            n += 1
            delta = (sers[-1].get("context_delta") or {}) if sers else {}
            upd, cre = delta.get("updated_keys") or [], delta.get("created_keys") or []
            if must_update is True and key not in upd:
                ck.fail_input("C07:ser:context_delta:updated-key-not-listed:numpy-%s" % how,
                              "a node rewrote context key %r (numpy array, %s: the value changed) but the SER lists updated=%s created=%s" % (key, how, upd, cre),
                              {"kind": "unusual-value", "key": key, "how": how, "detail": detail})
            if key in cre or "other" in upd or "other" in cre:
                ck.fail_input("C07:ser:context_delta:wrong-keys:numpy-%s" % how, "delta lists created=%s updated=%s" % (cre, upd),
                              {"kind": "unusual-value", "key": key, "how": how, "detail": detail})
    # a processor that returns a collection where it declared a scalar
    d = tempfile.mkdtemp(prefix="verif_c07_")
    try:
        path = os.path.join(d, "t.ser.jsonl")
        cfg = [{"processor": "FloatValueDataSource", "parameters": {"value": 2.0}}, {"processor": C.VerifCollectionReturningOperation}]
        try:
            Pipeline(cfg, trace=JsonlTraceDriver(path, detail="hash")).process(Payload(None, ContextType({})))
        except Exception:  # noqa
            pass
        sers = [r for r in (json.loads(l) for l in open(path)) if r.get("record_type") == "ser"]
        n += 1
        if len(sers) >= 2:
            post = {c.get("code"): c for c in ((sers[1].get("assertions") or {}).get("postconditions") or [])}
            ot = post.get("output_type_ok")
            if ot is not None and ot.get("result") == "PASS":
                ck.fail_input("C07:ser:check:output_type_ok-PASS-for-a-collection-where-a-scalar-is-declared",
                              "an operation declared FloatDataType -> FloatDataType returned a FloatDataCollection; its SER says output_type_ok PASS",
                              {"kind": "unusual-value", "how": "collection-returned"})
    except Exception as ex:  # noqa
        ck.corr_problem("unusual-value oracle (collection-returning operation) could not run", repr(ex))
    finally:
        shutil.rmtree(d, ignore_errors=True)
    return n


def replay(obj):
    r = obj["replay"]
    if "tz" in r:
        env = dict(os.environ)
        env.update(core.impl_env({"TZ": r["tz"]}))
        p = subprocess.run([core.PY, "-m", "harness.lib.tracelib", "tzprobe"], env=env, cwd=core.ROOT, stdout=subprocess.PIPE, text=True, timeout=120)
        rep = json.loads(p.stdout[p.stdout.index("{"):])
        print("TZ=%s tzname=%s" % (r["tz"], rep["tzname"]))
        print("harness UTC bracket: [%.3f, %.3f]" % (rep["t0"], rep["t1"]))
        for src, f, s in rep["stamps"] + rep["direct"]:
            print("  %-12s %-16s %s  -> denotes %s" % (src, f, s, tl.rfc3339_to_epoch(s)))
        print("offending now:", tz_problems(rep)[0])
        return 0
    c = {"nodes": r["descriptors"], "data0": r["data0"], "ctx0": r["ctx0"], "kind": r.get("kind")}
    t = tl.run_traced(c["nodes"], c["data0"], c["ctx0"], detail=r.get("detail", "hash"), mode=r.get("mode", "file"))
    t.case = c
    print("nodes:", json.dumps(r["nodes"]), "ctx0:", r["ctx0"])
    for i, s in enumerate(x for x in t.records if x.get("record_type") == "ser"):
        e = t.log.entries[i]
        print(" node %d SER parameters=%s sources=%s | actually used: %s" % (i, s["processor"]["parameters"], s["processor"]["parameter_sources"],
                                                                            [(n, ch, v) for n, ch, v in e["params"]]))
    print("problems now:", ser_problems(t), "| recorded:", r.get("problem"))
    return 0


TRUSTED = [
    "Coq 8.16.1 kernel (coqc), vm_compute; no native_compute",
    "model: coq/Model/Trace.v (ser_of) on Model/Pipeline.v + PipelineLib.v; contexts are association lists of immutable values "
    "(in-place mutation of a value shared with the snapshot is outside the model); clock = oracle nat -> Z",
    "translator harness/translate/orchestrator.py (UTC facts from the AST; default_params_reported probed)",
    "harness execution log: wrappers around _PayloadProcessor.process and nodes.resolve_runtime_value (harness side)",
    "modelled not verified: wall-clock behaviour (a clock stepping backwards is outside stamps_monotone), sha256, json",
]
FINISH = {"level": "proof", "assumptions": [
    "monotone clock oracle (named `mono`) for stamps_monotone / durations_nonneg",
    "values are replaced, not mutated in place (delta_exact)",
    "digest theorems hold for every hash function H; collision-freeness of sha256 is not claimed"]}
