"""C08 — Run-space expansion yields exactly the documented ordered list of runs.

proof side : Properties/C08.v over Model/RunSpace.v, instantiated with the variant read from the source
             (Gen/RunSpaceGen.v: mode names, sorted-key iteration, cap test before/after building runs,
             cap consulted in the no-blocks branch)
tie        : expand_run_space vs model `expand impl` on generated specifications (0..4 blocks, both modes at
             block / source / combine level, empty lists, csv/json/yaml/ndjson sources with select/rename,
             max_runs from 0 to beyond the product), compared inside Coq as ordered lists of ordered
             (key, value) lists or an error enum
search     : direct oracles on the implementation: (1) a formula-based reference of the documented rules
             (mixed-radix digits, not itertools), (2) giants in a subprocess under RLIMIT_AS + 5 s where the
             only acceptable outcome is the max-runs error, (3) the no-blocks cap, (4) loader cross-check
             against an independent parse of the written files, (5) metadata counts
"""
from __future__ import annotations

import collections
import glob
import json
import os
import random
import re
import shutil
import subprocess
import sys
import tempfile

from harness import core
from harness.core import cq_list, cq_opt, cq_pair, cq_str, cq_Z

BP, CB = "by_position", "combinatorial"
KEYS = ["a", "b", "c", "d", "e", "f", "g", "h", "A", "B", "_k", "k1", "k10", "k2", "ab", "aB", "Z", "m"] + ["p%d" % i for i in range(12)] + ["T%s" % c for c in "uvwxyz"]
STRS = ["x", "yy", "lo", "hi", "Q", "v_1"]
FORMATS = ["csv", "json", "yaml", "ndjson"]
ERRS = ["ELen", "EBlockSize", "EDupBlock", "EDupAcross", "ERename", "ESelect", "ECombineSize", "EMaxRuns"]
PATTERNS = [("by_position block requires identical list lengths", "ELen"),
            ("by_position block requires equal run counts", "EBlockSize"),
            ("within block (context vs source)", "EDupBlock"),
            ("across blocks", "EDupAcross"),
            ("rename collision", "ERename"),
            ("select missing columns", "ESelect"),
            ("combine=by_position requires equal block sizes", "ECombineSize")]

SIG_GIANT = "C08:max_runs:giant-not-rejected-before-materialisation"
SIG_EMPTY = "C08:max_runs:no-blocks-cap-ignored"
GIANT_AS = 1 << 30
GIANT_SECONDS = 5


# ----- documented semantics, formula-based (independent of itertools and of the model) ------------
class Rej(Exception):
    pass


def digits(radices, i):
    out = []
    for r in reversed(radices):
        out.append(i % r)
        i //= r
    return list(reversed(out))


def prod(xs):
    p = 1
    for x in xs:
        p *= x
    return p


def doc_entries(cols, mode):
    o = sorted(cols, key=lambda c: c[0])
    if mode == BP:
        if len({len(v) for _, v in o}) > 1:
            raise Rej("ELen")
        return [[(k, v[i]) for k, v in o] for i in range(len(o[0][1]))]
    rad = [len(v) for _, v in o]
    return [[(k, v[d]) for (k, v), d in zip(o, digits(rad, i))] for i in range(prod(rad))]


def doc_source(s):
    cols = [(k, list(v)) for k, v in s["cols"]]
    if s["select"] is not None:
        names = [k for k, _ in cols]
        if any(k not in names for k in s["select"]):
            raise Rej("ESelect")
        sel = []
        for k in s["select"]:
            if k not in [x for x, _ in sel]:
                sel.append((k, dict(cols)[k]))
        cols = sel
    if s["rename"]:
        ren = dict(map(tuple, s["rename"]))
        out = []
        for k, v in cols:
            t = ren.get(k, k)
            if t in [x for x, _ in out]:
                raise Rej("ERename")
            out.append((t, v))
        cols = out
    return cols


def doc_expand(spec, empty_consults_cap=True):
    """Documented outcome: ("ok", runs) or ("err", kind).  Rejections in declaration order."""
    try:
        blocks, seen = [], set()
        for b in spec["blocks"]:
            ctx = [(k, list(v)) for k, v in b["context"]]
            src = []
            if b["source"] is not None:
                src = doc_source(b["source"])
                if {k for k, _ in ctx} & {k for k, _ in src}:
                    raise Rej("EDupBlock")
            sm = b["source"]["mode"] if b["source"] is not None else b["mode"]
            if b["mode"] == BP:
                parts = []
                if ctx:
                    parts.append(doc_entries(ctx, BP))
                if src:
                    parts.append(doc_entries(src, sm))
                if len({len(p) for p in parts}) > 1:
                    raise Rej("EBlockSize")
                n = len(parts[0]) if parts else 0
                runs = [sum((p[i] for p in parts), []) for i in range(n)]
            else:
                cr = doc_entries(ctx, CB) if ctx else [[]]
                sr = doc_entries(src, sm) if src else [[]]
                runs = [cr[i // len(sr)] + sr[i % len(sr)] for i in range(len(cr) * len(sr))]
            cur = {k for k, _ in ctx} | {k for k, _ in src}
            if seen & cur:
                raise Rej("EDupAcross")
            seen |= cur
            blocks.append(runs)
        if not blocks:
            total = 1
        elif spec["combine"] == CB:
            total = prod(len(r) for r in blocks)
        else:
            if len({len(r) for r in blocks}) != 1:
                raise Rej("ECombineSize")
            total = len(blocks[0])
        if total > spec["max_runs"] and (blocks or empty_consults_cap):
            raise Rej("EMaxRuns")
        if not blocks:
            return ("ok", [[]])
        if spec["combine"] == CB:
            rad = [len(r) for r in blocks]
            return ("ok", [sum((r[d] for r, d in zip(blocks, digits(rad, i))), []) for i in range(total)])
        return ("ok", [sum((r[i] for r in blocks), []) for i in range(total)])
    except Rej as ex:
        return ("err", str(ex))


# ----- files ------------------------------------------------------------------------------------------
def write_source(s, directory):
    """Write s['cols'] in s['format'] / s['shape']; returns the path."""
    import yaml
    cols = s["cols"]
    path = os.path.join(directory, s["path"])
    fmt, shape = s["format"], s["shape"]
    n = len(cols[0][1]) if cols else 0
    rows = [{k: v[i] for k, v in cols if i < len(v)} for i in range(max([len(v) for _, v in cols] or [0]))]
    if fmt == "csv":
        lines = [",".join(((" " + k + " ") if s.get("pad_header") else k) for k, _ in cols)]
        for i in range(n):
            lines.append(",".join(str(v[i]) for _, v in cols))
        text = "\r\n".join(lines) + "\r\n"
    elif fmt == "ndjson":
        text = "\n".join(json.dumps(r) for r in rows) + ("\n\n" if rows else "")
    else:
        if shape == "rows":
            payload = rows
        else:
            payload = {k: (v[0] if (len(v) == 1 and s.get("scalars")) else v) for k, v in cols}
        text = json.dumps(payload) if fmt == "json" else yaml.safe_dump(payload, sort_keys=False)
    with open(path, "w", encoding="utf-8", newline="") as f:
        f.write(text)
    return path


def own_parse(path, fmt):
    """Independent parse of a written source file into ordered columns."""
    import yaml
    text = open(path, encoding="utf-8", newline="").read()

    def from_rows(rows):
        cols = []
        for r in rows:
            for k, v in r.items():
                hit = [c for c in cols if c[0] == k]
                if hit:
                    hit[0][1].append(v)
                else:
                    cols.append((k, [v]))
        return cols

    if fmt == "csv":
        lines = [l for l in text.split("\r\n") if l != ""]
        head = [h.strip() for h in lines[0].split(",")]
        cols = [(h, []) for h in head]
        for l in lines[1:]:
            for c, cell in zip(cols, l.split(",")):
                c[1].append(int(cell) if re.fullmatch(r"-?[0-9]+", cell) else cell)
        return cols
    if fmt == "ndjson":
        return from_rows([json.loads(l) for l in text.split("\n") if l.strip()])
    payload = json.loads(text) if fmt == "json" else yaml.safe_load(text)
    if isinstance(payload, list):
        return from_rows(payload)
    return [(k, v if isinstance(v, list) else [v]) for k, v in payload.items()]


# ----- implementation -----------------------------------------------------------------------------------
def build_cfg(spec):
    from semantiva.configurations.schema import RunBlock, RunSource, RunSpaceV1Config
    blocks = []
    for b in spec["blocks"]:
        s = b["source"]
        src = None
        if s is not None:
            src = RunSource(format=s["format"], path=s["path"], select=(list(s["select"]) if s["select"] is not None else None),
                            rename=dict(map(tuple, s["rename"])), mode=s["mode"])
        blocks.append(RunBlock(mode=b["mode"], context={k: list(v) for k, v in b["context"]}, source=src))
    return RunSpaceV1Config(combine=spec["combine"], max_runs=spec["max_runs"], blocks=blocks)


def spec_mapping(spec):
    """The run_space block a user would write in YAML for this specification."""
    blocks = []
    for b in spec["blocks"]:
        e = {"mode": b["mode"], "context": {k: list(v) for k, v in b["context"]}}
        s = b["source"]
        if s is not None:
            src = {"format": s["format"], "path": s["path"], "mode": s["mode"]}
            if s["select"] is not None:
                src["select"] = list(s["select"])
            if s["rename"]:
                src["rename"] = dict(map(tuple, s["rename"]))
            e["source"] = src
        blocks.append(e)
    return {"combine": spec["combine"], "max_runs": spec["max_runs"], "blocks": blocks}


def yaml_glue_problem(spec):
    """Glue around the modelled core: the specification written as YAML text and parsed by the loader
    (_parse_run_space_block) must be the configuration object the expansion is defined on.  Returns a
    description of the difference, or None.  A parser-level rejection of duplicate context keys is not a
    difference (the expansion rejects those too)."""
    import yaml
    from semantiva.configurations.load_pipeline_from_yaml import _parse_run_space_block
    want = build_cfg(spec)
    for spelling, mapping in (("every field written", spec_mapping(spec)), ("documented defaults left out", minimal_mapping(spec))):
        text = yaml.safe_dump({"run_space": mapping}, sort_keys=False)
        block = yaml.safe_load(text)["run_space"]
        try:
            parsed = _parse_run_space_block(block)
        except ValueError as ex:
            if "Duplicate context key(s) across run_space blocks" in str(ex):
                return None
            return "loader rejected the block (%s): %s" % (spelling, str(ex)[:200])
        if parsed != want:
            diffs = [f for f in ("combine", "max_runs", "dry_run", "blocks") if getattr(parsed, f, None) != getattr(want, f, None)]
            return "parsed configuration (%s) differs from the written one in %s: parsed %s=%r, written %r" % (
                spelling, diffs, diffs[0] if diffs else "?", getattr(parsed, diffs[0], None) if diffs else None,
                getattr(want, diffs[0], None) if diffs else None)
    return None


def minimal_mapping(spec):
    """The same specification with every field that has a documented default left out when it holds that default
    (combine: combinatorial, max_runs: 1000, source.mode: by_position, an empty context)."""
    m = spec_mapping(spec)
    if m["combine"] == "combinatorial":
        del m["combine"]
    if m["max_runs"] == 1000:
        del m["max_runs"]
    for e in m["blocks"]:
        if not e["context"]:
            del e["context"]
        if "source" in e and e["source"].get("mode") == "by_position":
            del e["source"]["mode"]
    return m


def classify(ex):
    name = type(ex).__name__
    if name == "RunSpaceMaxRunsExceededError":
        return "EMaxRuns"
    if name == "PipelineConfigurationError":
        for pat, kind in PATTERNS:
            if pat in str(ex):
                return kind
    return "other:%s:%s" % (name, str(ex)[:80])


_no_cwd = [0]


def impl_expand(spec, directory):
    from semantiva.execution.run_space import expand_run_space
    for b in spec["blocks"]:
        if b["source"] is not None:
            write_source(b["source"], directory)
    try:
        if _no_cwd[0] % 3 == 0 and any(b["source"] is not None for b in spec["blocks"]):
            # the documented default: relative source paths resolve against the CURRENT working directory of the call
            here = os.getcwd()
            os.chdir(directory)
            try:
                runs, meta = expand_run_space(build_cfg(spec))
            finally:
                os.chdir(here)
        else:
            runs, meta = expand_run_space(build_cfg(spec), cwd=directory)
    except Exception as ex:  # noqa
        return ("err", classify(ex)), None
    finally:
        _no_cwd[0] += 1
    return ("ok", [[(k, v) for k, v in r.items()] for r in runs]), meta


GIANT_CHILD = r"""
import json, resource, signal, sys, time, os
g = json.load(sys.stdin)
resource.setrlimit(resource.RLIMIT_AS, (g["as_bytes"], g["as_bytes"]))
from semantiva.configurations.schema import RunBlock, RunSource, RunSpaceV1Config
from semantiva.execution.run_space import expand_run_space
blocks = []
for b in g["blocks"]:
    ctx = {"%s%d" % (b["prefix"], j): list(range(b["values"])) for j in range(b["keys"])}
    src = None
    if b.get("source"):
        s = b["source"]
        with open(os.path.join(g["dir"], s["path"]), "w") as f:
            json.dump({"%s%d" % (s["prefix"], j): list(range(s["values"])) for j in range(s["keys"])}, f)
        src = RunSource(format="json", path=s["path"], mode=s["mode"])
    blocks.append(RunBlock(mode=b["mode"], context=ctx, source=src))
cfg = RunSpaceV1Config(combine=g["combine"], max_runs=g["max_runs"], blocks=blocks)
def on_alarm(*a):
    raise TimeoutError()
signal.signal(signal.SIGALRM, on_alarm)
signal.alarm(g["seconds"])
t = time.time()
try:
    runs, meta = expand_run_space(cfg, cwd=g["dir"])
    out = "ok:%d" % len(runs)
except MemoryError:
    out = "memory"
except TimeoutError:
    out = "timeout"
except BaseException as ex:
    out = "maxruns" if type(ex).__name__ == "RunSpaceMaxRunsExceededError" else "other:" + type(ex).__name__
signal.alarm(0)
print(json.dumps({"outcome": out, "seconds": round(time.time() - t, 3)}))
"""


def giant_total(g):
    sizes = []
    for b in g["blocks"]:
        n = b["values"] ** b["keys"] if b["mode"] == CB else (b["values"] if b["keys"] else 0)
        s = b.get("source")
        if s:
            sn = s["values"] ** s["keys"] if s["mode"] == CB else s["values"]
            n = n * sn if b["mode"] == CB else n
        sizes.append(n)
    return prod(sizes) if g["combine"] == CB else sizes[0]


def fmt_total(n):
    try:
        return "%.3g" % n
    except OverflowError:
        return "1e%d" % int(n.bit_length() * 0.30103)


def run_giants(giants, directory):
    """Never in-process: one child per giant, RLIMIT_AS + alarm; returns outcomes in order."""
    procs = []
    for i, g in enumerate(giants):
        d = os.path.join(directory, "giant%d" % i)
        os.makedirs(d, exist_ok=True)
        payload = dict(g, dir=d, as_bytes=GIANT_AS, seconds=GIANT_SECONDS)
        env = dict(os.environ)
        env.update(core.impl_env())
        p = subprocess.Popen([core.PY, "-c", GIANT_CHILD], stdin=subprocess.PIPE, stdout=subprocess.PIPE,
                             stderr=subprocess.PIPE, text=True, env=env)
        p.stdin.write(json.dumps(payload))
        p.stdin.close()
        procs.append(p)
    outs = []
    for p in procs:
        try:
            p.wait(timeout=GIANT_SECONDS + 25)
            txt = p.stdout.read()
            outs.append(json.loads(txt.strip().split("\n")[-1]))
        except subprocess.TimeoutExpired:
            p.kill()
            outs.append({"outcome": "timeout", "seconds": GIANT_SECONDS + 25})
        except Exception:  # the child died without a verdict (e.g. memory exhausted while reporting)
            outs.append({"outcome": "memory", "seconds": None, "stderr": (p.stderr.read() or "")[-300:]})
    return outs


def giants_for(tier):
    one = {"mode": CB, "prefix": "k", "keys": 8, "values": 8}
    gs = [
        {"name": "one combinatorial block 8 keys x 8 values", "combine": CB, "max_runs": 10, "blocks": [one]},
        {"name": "4 blocks of 64 runs, combinatorial combine (16.7M)", "combine": CB, "max_runs": 1000,
         "blocks": [{"mode": CB, "prefix": p, "keys": 2, "values": 8} for p in "pqrs"]},
        {"name": "context 1 key x 8 with combinatorial source 7 keys x 8", "combine": CB, "max_runs": 10,
         "blocks": [{"mode": CB, "prefix": "c", "keys": 1, "values": 8,
                     "source": {"path": "g.json", "prefix": "s", "keys": 7, "values": 8, "mode": CB}}]},
        {"name": "one combinatorial block 30 keys x 10 values (1e30)", "combine": CB, "max_runs": 1000,
         "blocks": [{"mode": CB, "prefix": "k", "keys": 30, "values": 10}]},
        {"name": "one combinatorial block 3400 keys x 20 values (1e4423: longer than int-to-str conversion allows)", "combine": CB, "max_runs": 1000,
         "blocks": [{"mode": CB, "prefix": "k", "keys": 3400, "values": 20}]},
        {"name": "two equal giant blocks combined by_position", "combine": BP, "max_runs": 100,
         "blocks": [dict(one, prefix="u"), dict(one, prefix="w")]},
        {"name": "6 blocks of 1000 aligned runs, combinatorial combine (1e18)", "combine": CB, "max_runs": 1000,
         "blocks": [{"mode": BP, "prefix": p, "keys": 2, "values": 1000} for p in "pqrstu"]},
    ]
    if tier == "thorough":
        gs += [
            {"name": "one combinatorial block 7 keys x 12 values (35.8M)", "combine": CB, "max_runs": 10,
             "blocks": [{"mode": CB, "prefix": "k", "keys": 7, "values": 12}]},
            {"name": "small block x giant block, combinatorial combine", "combine": CB, "max_runs": 50,
             "blocks": [{"mode": BP, "prefix": "a", "keys": 2, "values": 3}, dict(one, prefix="z")]},
            {"name": "one combinatorial block 100 keys x 2 values (1.3e30)", "combine": CB, "max_runs": 0,
             "blocks": [{"mode": CB, "prefix": "k", "keys": 100, "values": 2}]},
        ]
    return gs


# ----- generation ------------------------------------------------------------------------------------------
def gen_val(rng):
    return rng.choice(STRS) if rng.random() < 0.25 else rng.randint(-9, 99)


def gen_cols(rng, keys, mode, length=None, ragged=False):
    cols = []
    for k in keys:
        n = length if (length is not None and not ragged) else rng.randint(0, 3)
        cols.append([k, [gen_val(rng) for _ in range(n)]])
    return cols


def gen_source(rng, idx, free_keys, mode, length, want):
    fmt = rng.choice(FORMATS)
    shape = "rows" if fmt in ("csv", "ndjson") else rng.choice(["rows", "columns"])
    nk = rng.randint(1, min(3, len(free_keys)))
    keys = [free_keys.pop() for _ in range(nk)]
    if want == "ELenSource":
        fmt, shape, mode = rng.choice(["json", "yaml"]), "columns", BP
    if length == 0 and mode == BP and shape == "rows" and fmt != "csv":
        fmt, shape = rng.choice(["json", "yaml"]), "columns"   # a row file cannot hold an empty column
    ragged = mode == CB or want == "ELenSource"
    cols = gen_cols(rng, keys, mode, length=length, ragged=ragged)
    if want == "ELenSource" and len(cols) >= 1:
        if len(cols) == 1:
            cols.append([free_keys.pop(), []])
        cols[0][1] = [gen_val(rng) for _ in range(len(cols[1][1]) + 1)]
    if shape == "rows" and fmt != "csv":
        # rows without a key in later lines give shorter columns; a column needs one value to exist at all
        for c in cols:
            if not c[1]:
                c[1].append(gen_val(rng))
        if mode == BP:
            n = max(len(c[1]) for c in cols)
            for c in cols:
                while len(c[1]) < n:
                    c[1].append(gen_val(rng))
    if fmt == "csv":
        n = len(cols[0][1])
        for c in cols:
            c[1] = (c[1] + [gen_val(rng) for _ in range(n)])[:n]
    s = {"format": fmt, "shape": shape, "path": "src%d.%s" % (idx, fmt), "cols": cols, "select": None, "rename": [],
         "mode": mode, "scalars": rng.random() < 0.3, "pad_header": fmt == "csv" and rng.random() < 0.3}
    names = [c[0] for c in cols]
    if rng.random() < 0.45 or want == "ESelect":
        sel = rng.sample(names, rng.randint(1, len(names)))
        if rng.random() < 0.15:
            sel.append(sel[0])
        if want == "ESelect":
            sel.insert(rng.randint(0, len(sel)), "nope")
        s["select"] = sel
    if rng.random() < 0.45 or want == "ERename":
        live = s["select"] if s["select"] is not None else names
        live = [k for k in dict.fromkeys(live) if k in names]
        ren = []
        for k in rng.sample(live, rng.randint(1, len(live))) if live else []:
            ren.append([k, free_keys.pop() if free_keys else k + "r"])
        if rng.random() < 0.2:
            ren.append(["absent", "zz"])
        if want == "ERename" and len(live) >= 2:
            a, b = live[0], live[1]
            ren = [[a, b]] if rng.random() < 0.5 else [[a, "same"], [b, "same"]]
        elif want == "ERename":
            s["cols"].append([free_keys.pop(), [gen_val(rng) for _ in s["cols"][0][1]]])
            if s["select"] is not None:
                s["select"] = None
            ren = [[s["cols"][0][0], s["cols"][-1][0]]]
        s["rename"] = ren
    return s


def gen_spec(rng, want=None):
    """Mostly valid specification; `want` plants one failure class."""
    free = KEYS[:]
    rng.shuffle(free)
    nb = rng.choice([0, 1, 1, 2, 2, 3, 4])
    if want in ("EDupAcross", "ECombineSize") and nb < 2:
        nb = 2
    if want and nb == 0:
        nb = 1
    combine = rng.choice([BP, CB])
    if want == "ECombineSize":
        combine = BP
    common = rng.randint(0, 3)
    blocks = []
    for i in range(nb):
        mode = rng.choice([BP, CB])
        length = common if combine == BP and mode == BP else rng.randint(0, 3)
        nk = rng.choice([0, 1, 1, 2, 2, 3])
        if combine == BP:
            nk = max(nk, 1)
        if combine == BP and mode == CB:
            nk = 1
            length = common
        ctx = gen_cols(rng, [free.pop() for _ in range(nk)], mode, length=length, ragged=(mode == CB and combine == CB))
        src = None
        wsrc = want in ("ELenSource", "ESelect", "ERename", "EDupBlock", "EBlockSize") and i == nb - 1
        if wsrc or (rng.random() < 0.4 and not (combine == BP and mode == CB and nk)):
            smode = rng.choice([BP, CB]) if not (combine == BP or mode == BP) else BP
            if mode == BP and rng.random() < 0.08:
                smode = CB
            src = gen_source(rng, i, free, smode, length, want if wsrc else None)
            if smode == CB and mode == BP and ctx:
                pass  # sizes may differ: a legitimate EBlockSize case of the valid stream
        blocks.append({"mode": mode, "context": ctx, "source": src})
    # planted failures on the context side
    if want == "ELen":
        b = blocks[-1]
        b["mode"] = BP
        while len(b["context"]) < 2:
            b["context"].append([free.pop(), []])
        b["context"][0][1] = [gen_val(rng) for _ in range(len(b["context"][1][1]) + 1)]
    if want == "EDupBlock":
        b = blocks[-1]
        s = b["source"]
        live = doc_keys_of_source(s)
        if live:
            b["context"].append([rng.choice(live), [gen_val(rng) for _ in range(rng.randint(0, 2))]])
    if want == "EBlockSize":
        b = blocks[-1]
        b["mode"] = BP
        if not b["context"]:
            b["context"].append([free.pop(), []])
        for c in b["context"]:
            c[1] = [gen_val(rng) for _ in range(5)]
    if want == "EDupAcross":
        donors = [k for b in blocks[:-1] for k in [c[0] for c in b["context"]] + (doc_keys_of_source(b["source"]) if b["source"] else [])]
        if not donors:
            blocks[0]["context"].append([free.pop(), [gen_val(rng)]])
            donors = [blocks[0]["context"][-1][0]]
        tgt = blocks[-1]
        have = [c[0] for c in tgt["context"]]
        k = rng.choice(donors)
        if k not in have:
            n = len(tgt["context"][0][1]) if tgt["context"] else rng.randint(0, 2)
            tgt["context"].append([k, [gen_val(rng) for _ in range(n)]])
    if want == "ECombineSize":
        b = blocks[-1]
        if not b["context"]:
            b["context"].append([free.pop(), []])
        b["source"] = None
        n = 4 + rng.randint(0, 2)
        b["mode"] = BP
        for c in b["context"]:
            c[1] = [gen_val(rng) for _ in range(n)]
    spec = {"combine": combine, "max_runs": 1000, "blocks": blocks}
    kind, val = doc_expand(dict(spec, max_runs=10 ** 9))
    total = len(val) if kind == "ok" else None
    if want == "EMaxRuns" and total:
        spec["max_runs"] = rng.choice([0, total - 1, max(0, total // 2)])
    elif total is not None:
        spec["max_runs"] = rng.choice([0, 1, 2, max(0, total - 1), total, total + 1, 1000, 1000, 1000])
    else:
        spec["max_runs"] = rng.choice([0, 1, 5, 1000])
    return spec


def doc_keys_of_source(s):
    try:
        return [k for k, _ in doc_source(s)]
    except Rej:
        return []


def spec_weight(spec):
    """Upper bound on dictionaries the eager evaluation builds (keeps Coq evaluation small)."""
    w = 0
    for b in spec["blocks"]:
        c = prod(max(1, len(v)) for _, v in b["context"])
        s = prod(max(1, len(v)) for _, v in b["source"]["cols"]) if b["source"] else 1
        w = max(w, 1) * c * s if spec["combine"] == CB else w + c * s
    return w


# ----- Coq literals ----------------------------------------------------------------------------------------
def cq_val(v):
    if isinstance(v, bool) or not isinstance(v, (int, str)):
        raise TypeError("value outside the model's value type: %r" % (v,))
    return "(S_ %s)" % cq_str(v) if isinstance(v, str) else "(I_ %s)" % cq_Z(v)


def cq_mode(m):
    return {BP: "ByPosition", CB: "Combinatorial"}[m]


def cq_cols(cols):
    return cq_list([cq_pair(cq_str(k), cq_list(v, cq_val)) for k, v in cols])


def cq_source(s):
    return "(mkSource %s %s %s %s)" % (cq_cols(s["cols"]), cq_opt(s["select"], lambda l: cq_list(l, cq_str)),
                                       cq_list([cq_pair(cq_str(a), cq_str(b)) for a, b in s["rename"]]), cq_mode(s["mode"]))


def cq_spec(spec):
    bl = ["(mkBlock %s %s %s)" % (cq_mode(b["mode"]), cq_cols(b["context"]), cq_opt(b["source"], cq_source)) for b in spec["blocks"]]
    return "(mkSpec %s %s %s)" % (cq_mode(spec["combine"]), cq_Z(spec["max_runs"]), cq_list(bl))


def cq_outcome(o):
    if o[0] == "ok":
        return "(Ok %s)" % cq_list([cq_list([cq_pair(cq_str(k), cq_val(v)) for k, v in r]) for r in o[1]])
    return "(Err %s)" % o[1]


HEADER = """From Coq Require Import List String ZArith.
From SV Require Import Model.RunSpace Gen.RunSpaceGen.
Import ListNotations. Open Scope string_scope.
Definition I_ := VInt. Definition S_ := VStr.
Definition cases : list (spec * res (list run)) := [
%s
].
Eval vm_compute in mismatches impl cases.
"""


def read_facts():
    txt = open(os.path.join(core.COQ, "Gen", "RunSpaceGen.v")).read()
    m = re.search(r"Definition impl : variant := mkVariant (true|false) (true|false) (true|false)\.", txt)
    if not m:
        return None
    return {"v_sorted": m.group(1) == "true", "v_empty_cap": m.group(2) == "true", "v_cap_first": m.group(3) == "true"}


def load_corpus():
    out = []
    for p in sorted(glob.glob(os.path.join(core.ROOT, "corpus", "C08", "*.json"))):
        out.append((os.path.basename(p), json.load(open(p))))
    return out


def canon(o):
    return json.dumps(o, sort_keys=True)


def unicode_source_oracle(ck, tmp):
    from semantiva.configurations.schema import RunBlock, RunSource, RunSpaceV1Config
    from semantiva.execution.run_space import expand_run_space
    import yaml
    words = ["na\u00efve", "a\u2028b", "c\u2029d", "e\u0085f", "tab\there", "\u00fcber \u20ac", "plain"]
    d = os.path.join(tmp, "unicode")
    os.makedirs(d, exist_ok=True)
    n = 0
    for fmt in ("ndjson", "json", "yaml", "csv"):
        vals = [w for w in words if not (fmt == "csv" and any(ch in w for ch in "\u2028\u2029\u0085\t"))] if fmt == "csv" else list(words)
        rows = [{"label": w, "idx": i} for i, w in enumerate(vals)]
        path = os.path.join(d, "src." + fmt)
        if fmt == "ndjson":
            text = "\n".join(json.dumps(r, ensure_ascii=False) for r in rows) + "\n"
        elif fmt == "json":
            text = json.dumps(rows, ensure_ascii=False)
        elif fmt == "yaml":
            text = yaml.safe_dump(rows, allow_unicode=True, sort_keys=False)
        else:
            text = "label,idx\r\n" + "".join("%s,%d\r\n" % (r["label"], r["idx"]) for r in rows)
        with open(path, "w", encoding="utf-8", newline="") as f:
            f.write(text)
        try:
            runs, meta = expand_run_space(RunSpaceV1Config(blocks=[RunBlock(mode="by_position", context={}, source=RunSource(format=fmt, path="src." + fmt))]), cwd=d)
            got = [(r.get("label"), r.get("idx")) for r in runs]
        except Exception as ex:  # noqa
            got = "raises %s: %s" % (type(ex).__name__, str(ex)[:120])
        n += 1
        want = [(r["label"], r["idx"]) for r in rows]
        if fmt == "yaml":      # what the TEXT declares under YAML's own rules (a raw NEL inside a plain scalar is a folded line break)
            want = [(r["label"], r["idx"]) for r in yaml.safe_load(text)]
        if got != want:
            ck.fail_input("C08:source-loading:non-ascii-strings:" + fmt,
                          "a %s source whose rows hold the strings %s: expansion gives %s, the file declares %d rows %s"
                          % (fmt, [w.encode("unicode_escape").decode() for w in vals], got if isinstance(got, str) else [(str(a).encode("unicode_escape").decode(), b) for a, b in got][:8],
                             len(want), [(a.encode("unicode_escape").decode(), b) for a, b in want][:8]),
                          {"kind": "unicode-source", "format": fmt, "text": text})
    return n


def ragged_rows_oracle(ck, tmp):
    """Direct oracle (file reading is outside the model, which takes the loaded columns as input): a rows-as-runs source whose rows
    do not all hold the same keys, in a by_position block.  Run i is made of row i: either the launch is rejected, or there is one
    run per row and no run pairs values of two different rows (a key a row lacks is absent or None in its run)."""
    from semantiva.configurations.schema import RunBlock, RunSource, RunSpaceV1Config
    from semantiva.execution.run_space import expand_run_space
    import yaml
    d = os.path.join(tmp, "ragged")
    os.makedirs(d, exist_ok=True)
    n = 0
    for rows in ([{"a": 1, "b": 1}, {"a": 2}, {"b": 3}], [{"a": 1, "b": 10}, {"b": 20}, {"a": 3, "b": 30}], [{"a": 1}, {"a": 2, "b": 20}, {"a": 3, "b": 30}, {"a": 4}]):
        for fmt in ("json", "ndjson", "yaml"):
            text = (json.dumps(rows) if fmt == "json" else "".join(json.dumps(r) + "\n" for r in rows) if fmt == "ndjson" else yaml.safe_dump(rows, sort_keys=False))
            with open(os.path.join(d, "src." + fmt), "w") as f:
                f.write(text)
            try:
                runs, _ = expand_run_space(RunSpaceV1Config(blocks=[RunBlock(mode="by_position", context={}, source=RunSource(format=fmt, path="src." + fmt))]), cwd=d)
            except Exception as ex:  # noqa
                n += 1
                if type(ex).__name__ not in ("PipelineConfigurationError", "ConfigurationError"):
                    ck.fail_input("C08:source-loading:ragged-rows:raw-error:" + fmt, "rows %s as a %s source: %s: %s" % (rows, fmt, type(ex).__name__, str(ex)[:120]),
                                  {"kind": "ragged-rows", "format": fmt, "rows": rows})
                continue
            n += 1
            ok = len(runs) == len(rows) and all(all(run.get(k) == row.get(k) for k in ("a", "b")) for run, row in zip(runs, rows))
            if not ok:
                ck.fail_input("C08:source-loading:ragged-rows-misaligned:" + fmt,
                              "a %s source with the rows %s in a by_position block expands to %s: not one run per row made of that row's values"
                              % (fmt, rows, runs), {"kind": "ragged-rows", "format": fmt, "rows": rows, "text": text})
    # duplicate keys inside one source: two CSV columns of one name (exactly, or after the header's blanks are stripped), two keys of a
    # YAML mapping that are one string (1 and "1").  A duplicate key within a block is rejected.
    for name, fmt, text in (("csv-header-twice", "csv", "a,a\n1,2\n3,4\n"), ("csv-header-twice-after-stripping", "csv", "a, a\n1,2\n3,4\n"),
                            ("yaml-mapping-keys-1-and-'1'", "yaml", "1: [10, 20]\n'1': [30, 40]\n"),
                            ("yaml-rows-keys-1-and-'1'", "yaml", "- {1: 10, '1': 30}\n- {1: 20, '1': 40}\n")):
        with open(os.path.join(d, "dup." + fmt), "w", newline="") as f:
            f.write(text)
        n += 1
        try:
            runs, _ = expand_run_space(RunSpaceV1Config(blocks=[RunBlock(mode="by_position", context={}, source=RunSource(format=fmt, path="dup." + fmt))]), cwd=d)
        except Exception as ex:  # noqa
            if type(ex).__name__ not in ("PipelineConfigurationError", "ConfigurationError"):
                ck.fail_input("C08:source-loading:duplicate-key:raw-error:" + name, "%r: %s: %s" % (text, type(ex).__name__, str(ex)[:120]),
                              {"kind": "duplicate-source-key", "format": fmt, "text": text})
            continue
        ck.fail_input("C08:source-loading:duplicate-key-accepted:" + name,
                      "a %s source with the text %r names one key twice and is expanded to %s instead of being rejected" % (fmt, text, runs),
                      {"kind": "duplicate-source-key", "format": fmt, "text": text})
    return n


ROWS_HEADER = """From Coq Require Import List String ZArith Bool.
From SV Require Import Model.RunSpace Model.Rows Gen.RowsGen.
Import ListNotations. Open Scope string_scope.
Definition I_ := VInt. Definition S_ := VStr.
Definition cs : list rcase := [
%s
].
Eval vm_compute in rbad RowsGen.rows_checked cs 0.
"""


def rows_correspondence(ck, rng, tmp, n):
    """Model/Rows.v against _load_source_file on rows-as-runs files (json / yaml list of mappings, ndjson): rectangular rows, columns
    that end early, keys that come back after a gap, random key subsets; the model answers with the columns or a rejection, the
    implementation with the columns or the configuration error.  The last case is a canary that must mismatch."""
    from pathlib import Path
    import yaml
    from semantiva.execution.run_space import _load_source_file
    d = os.path.join(tmp, "rowscorr")
    os.makedirs(d, exist_ok=True)

    def val():
        return rng.randint(-5, 99) if rng.random() < 0.7 else rng.choice(["x", "lo", "v_1", "yy"])

    def lit(v):
        return "I_ (%d)%%Z" % v if isinstance(v, int) else "S_ %s" % cq_str(v)
    lits, kept = [], []
    shapes = collections.Counter()
    for t in range(n):
        keys = rng.sample(["a", "b", "c", "k1", "Z"], rng.randint(1, 3))
        nrows = rng.choice([0, 1, 2, 3, 3, 4, 5])
        shape = rng.choice(["rect", "rect", "tail", "gap", "subset"])
        rows = []
        stop = {k: (rng.randint(1, nrows) if shape == "tail" and rng.random() < 0.6 and nrows else nrows) for k in keys}
        for i in range(nrows):
            if shape == "subset":
                ks = [k for k in keys if rng.random() < 0.75]
            elif shape == "gap":
                ks = [k for k in keys if not (k == keys[-1] and i == nrows // 2)]
            else:
                ks = [k for k in keys if i < stop[k]]
            if rng.random() < 0.3:
                ks = ks[::-1]
            rows.append({k: val() for k in ks})
        fmt = rng.choice(["json", "ndjson", "yaml"])
        text = json.dumps(rows) if fmt == "json" else "".join(json.dumps(r) + "\n" for r in rows) if fmt == "ndjson" else yaml.safe_dump(rows, sort_keys=False)
        path = os.path.join(d, "r%d.%s" % (t, fmt))
        with open(path, "w") as f:
            f.write(text)
        try:
            cols = _load_source_file(Path(path), fmt)
            got = "Some [%s]" % "; ".join("(%s, [%s])" % (cq_str(k), "; ".join(lit(v) for v in vs)) for k, vs in cols.items())
        except Exception as ex:  # noqa
            if type(ex).__name__ not in ("PipelineConfigurationError", "ConfigurationError"):
                ck.fail_input("C08:source-loading:rows:raw-error:" + fmt, "rows %s as a %s source: %s: %s" % (rows, fmt, type(ex).__name__, str(ex)[:120]),
                              {"kind": "rows", "format": fmt, "rows": rows})
                continue
            got = "None"
        shapes[shape + ("/rejected" if got == "None" else "")] += 1
        lits.append("([%s], %s)" % ("; ".join("[%s]" % "; ".join("(%s, %s)" % (cq_str(k), lit(v)) for k, v in r.items()) for r in rows), got))
        kept.append((rows, fmt, got))
    lits.append('([[("a", I_ 1%Z)]], Some [("a", [I_ 2%Z])])')      # canary
    per, errs = core.mismatches("C08_rows", [ROWS_HEADER % ";\n".join(lits)], timeout=300)
    for k, rc, out in errs:
        ck.corr_problem("rows correspondence did not evaluate (rc=%s)" % rc, out)
    if per and per[0] is not None:
        bad = per[0][0]
        if len(kept) not in bad:
            ck.corr_problem("canary case of the rows correspondence was not reported as a mismatch (comparison is not live)", "")
        real_bad = [b for b in bad if b != len(kept)]
        for b in real_bad[:4]:
            rows, fmt, got = kept[b]
            ck.corr_problem("Model/Rows.v and _load_source_file disagree on the columns of a rows-as-runs source",
                            "rows %s (%s): implementation gives %s" % (rows, fmt, got), case={"rows": rows, "format": fmt})
        ck.notes["rows_correspondence"] = {"cases": len(kept), "disagreements": len(real_bad), "shapes": dict(shapes)}


LOADER_HEADER = """From Coq Require Import List String ZArith Bool.
From SV Require Import Model.RunSpace Model.Loader Gen.LoaderGen.
Import ListNotations. Open Scope string_scope.
Definition I_ := VInt. Definition S_ := VStr.
Definition cs : list lcase := [
%s
].
Eval vm_compute in lbad impl cs 0.
"""


def loader_correspondence(ck, rng, specs, n):
    """Model/Loader.v against _parse_run_space_block: run_space blocks written with a random subset of the optional members
    (combine, max_runs, dry_run in many spellings, context, source.mode) left out -- whatever their value -- are parsed by
    the implementation; the model reads the same raw block with the defaults the translator read from the source."""
    from semantiva.configurations.load_pipeline_from_yaml import _parse_run_space_block
    dry_spellings = [None, True, False, 1, 0, 2, "", "yes", "no", "null"]      # "null" stands for an explicit YAML null
    lits, kept = [], []
    pool = [sp for sp in specs if len(sp["blocks"]) <= 4]
    for t in range(n):
        sp = rng.choice(pool)
        raw = {"blocks": []}
        r_combine = None if rng.random() < 0.5 else sp["combine"]
        r_max = None if rng.random() < 0.5 else sp["max_runs"]
        dsp = rng.choice(dry_spellings)
        if r_combine is not None:
            raw["combine"] = r_combine
        if r_max is not None:
            raw["max_runs"] = r_max
        if dsp is not None:
            raw["dry_run"] = None if dsp == "null" else dsp
        rblocks = []
        for b in sp["blocks"]:
            e = {"mode": b["mode"]}
            ctx = None if (not b["context"] and rng.random() < 0.7) or rng.random() < 0.15 else b["context"]
            if ctx is not None:
                e["context"] = {k: list(v) for k, v in ctx}
            src = None
            if b["source"] is not None:
                s = b["source"]
                smode = None if rng.random() < 0.5 else s["mode"]
                d = {"format": s["format"], "path": s["path"]}
                if s["select"] is not None:
                    d["select"] = list(s["select"])
                if s["rename"]:
                    d["rename"] = dict(map(tuple, s["rename"]))
                if smode is not None:
                    d["mode"] = smode
                e["source"] = d
                src = (s, smode)
            raw["blocks"].append(e)
            rblocks.append((b["mode"], ctx, src))
        try:
            cfg = _parse_run_space_block(raw)
        except ValueError as ex:
            if "Duplicate context key(s) across run_space blocks" in str(ex):
                continue
            ck.fail_input("C08:yaml-parse:rejected", "the loader rejects a well-formed run_space block: %s" % str(ex)[:200], {"kind": "raw-block", "block": raw})
            continue
        # literals: raw block, and what the implementation made of it (file contents are not read by the parser: [] on both sides)
        def cq_rsrc(x):
            s, smode = x
            return "(mkRawSource [] %s %s %s)" % (cq_opt(s["select"], lambda l: cq_list(l, cq_str)),
                                                  cq_list([cq_pair(cq_str(a), cq_str(b)) for a, b in s["rename"]]), cq_opt(smode, cq_mode))
        ydry = {None: "None", True: "(Some (YBool true))", False: "(Some (YBool false))", "null": "(Some YNull)"}.get(dsp) if not isinstance(dsp, (int, str)) or isinstance(dsp, bool) or dsp == "null" \
            else ("(Some (YInt %s))" % cq_Z(dsp) if isinstance(dsp, int) else "(Some (YStr %s))" % cq_str(dsp))
        rawlit = "(mkRawSpec %s %s %s %s)" % (cq_opt(r_combine, cq_mode), cq_opt(r_max, cq_Z), ydry,
                                              cq_list(["(mkRawBlock %s %s %s)" % (cq_mode(m), cq_opt(c, cq_cols), cq_opt(x, cq_rsrc)) for m, c, x in rblocks]))
        try:
            got_blocks = []
            for bl in cfg.blocks:
                srcl = "None"
                if bl.source is not None:
                    srcl = "(Some (mkSource [] %s %s %s))" % (cq_opt(bl.source.select, lambda l: cq_list(l, cq_str)),
                                                             cq_list([cq_pair(cq_str(a), cq_str(b)) for a, b in bl.source.rename.items()]), cq_mode(bl.source.mode))
                got_blocks.append("(mkBlock %s %s %s)" % (cq_mode(bl.mode), cq_cols(list(bl.context.items())), srcl))
            gotlit = "(mkSpec %s %s %s, %s)" % (cq_mode(cfg.combine), cq_Z(cfg.max_runs), cq_list(got_blocks), "true" if cfg.dry_run is True else
                                                ("false" if cfg.dry_run is False else "true (* non-bool dry_run %r *)" % (cfg.dry_run,)))
        except (TypeError, KeyError) as ex:
            ck.corr_problem("loader correspondence: the parsed configuration cannot be written as a model literal", repr(ex)[:300])
            continue
        lits.append("(%s, %s)" % (rawlit, gotlit))
        kept.append(raw)
    shards = [LOADER_HEADER % ";\n".join(lits[i:i + 150]) for i in range(0, len(lits), 150)]
    per, errs = core.mismatches("C08_loader", shards, timeout=600)
    for k, rc, out in errs:
        ck.corr_problem("loader shard %d did not evaluate (rc=%s)" % (k, rc), out)
    bad = []
    for k, ls in enumerate(per):
        if ls is not None:
            bad += [kept[k * 150 + b] for b in ls[0]]
    for raw in bad[:4]:
        ck.corr_problem("Model/Loader.v (with the defaults read from the source) and _parse_run_space_block disagree on a run_space block",
                        json.dumps(raw)[:1000], case={"block": raw})
    ck.notes["loader_correspondence"] = {"blocks": len(kept), "disagreements": len(bad)}
    ck.cov["evaluations"] = ck.cov.get("evaluations", 0) + len(kept)
    ck.log("loader: %d/%d written run_space blocks read alike by Model/Loader.v and _parse_run_space_block" % (len(kept) - len(bad), len(kept)))


# ----- the check ---------------------------------------------------------------------------------------------
def run(ck):
    import logging
    logging.disable(logging.CRITICAL)
    from harness.translate import run_all
    rng = random.Random(ck.seed * 104729 + 8)
    thorough = ck.tier == "thorough"
    gen = run_all(["run_space", "loader", "rows"])
    ck.build_models(["Model/RunSpace.v", "Gen/RunSpaceGen.v", "Model/Loader.v", "Gen/LoaderGen.v", "Model/Rows.v", "Gen/RowsGen.v"])
    proved = ck.prove(gen_results=gen)
    if thorough and proved:
        ck.coqchk()
    facts = read_facts()
    if facts is None:
        ck.problems.append({"kind": "translation", "what": "Gen/RunSpaceGen.v carries no variant", "detail": ""})
        facts = {"v_sorted": True, "v_empty_cap": True, "v_cap_first": True}
    ck.notes["generated_facts"] = facts

    tmp = tempfile.mkdtemp(prefix="c08_", dir="/tmp")
    try:
        _run(ck, rng, thorough, facts, tmp)
    finally:
        shutil.rmtree(tmp, ignore_errors=True)
    ck.cov["trusted_base"] = TRUSTED


def _run(ck, rng, thorough, facts, tmp):
    from semantiva.execution import run_space as RS
    # ---------- cases: corpus first, then valid stream, then one malformed stream per failure class
    specs, origin = [], []
    giants_corpus = []
    for name, obj in load_corpus():
        if obj.get("kind") == "giant":
            giants_corpus.append(obj["giant"])
        else:
            specs.append(obj["spec"])
            origin.append("corpus:" + name)
    n_valid = 12000 if thorough else 2500
    n_bad = 800 if thorough else 120
    dropped = 0
    for _ in range(n_valid):
        s = gen_spec(rng)
        if spec_weight(s) > 3000:
            dropped += 1
            continue
        specs.append(s)
        origin.append("valid")
    for want in ["ELen", "ELenSource", "EBlockSize", "EDupBlock", "EDupAcross", "ERename", "ESelect", "ECombineSize", "EMaxRuns"]:
        for _ in range(n_bad):
            s = gen_spec(rng, want)
            if spec_weight(s) > 3000:
                dropped += 1
                continue
            specs.append(s)
            origin.append("malformed:" + want)

    outcomes, dist, by_origin = [], {}, {}
    distinct, nontrivial = set(), set()
    loader_checked = 0
    for i, spec in enumerate(specs):
        d = os.path.join(tmp, "case")
        shutil.rmtree(d, ignore_errors=True)
        os.makedirs(d)
        out, meta = impl_expand(spec, d)
        outcomes.append(out)
        replay_obj = {"kind": "spec", "spec": spec}
        # (6) YAML glue: the block as written in YAML parses to the configuration the expansion is defined on
        gp = yaml_glue_problem(spec)
        if gp:
            field = gp.split("differs from the written one in ['")[1].split("'")[0] if "differs from the written one in ['" in gp else "rejected"
            ck.fail_input("C08:yaml-parse:%s" % field, gp, replay_obj)
        # (4) loader cross-check against an independent parse of the same file
        for b in spec["blocks"]:
            s = b["source"]
            if s is None:
                continue
            path = os.path.join(d, s["path"])
            mine = own_parse(path, s["format"])
            if [(k, list(v)) for k, v in mine] != [(k, list(v)) for k, v in s["cols"]]:
                raise RuntimeError("harness bug: own parse of %s differs from the generated columns: %r vs %r" % (path, mine, s["cols"]))
            theirs = RS._load_source_file(__import__("pathlib").Path(path), s["format"])
            loader_checked += 1
            if list(theirs.items()) != [(k, list(v)) for k, v in mine]:
                ck.fail_input("C08:loader:%s:columns-differ-from-file" % s["format"],
                              "_load_source_file returned %r for a file holding %r" % (dict(theirs), mine), replay_obj)
        if out[0] == "err" and out[1].startswith("other:"):
            ck.fail_input("C08:unexpected-exception:" + out[1].split(":")[1], "expand_run_space raised " + out[1], replay_obj)
        # (1) documented semantics, formula-based
        doc = doc_expand(spec)
        if spec["blocks"] == [] and spec["max_runs"] < 1:
            # (3) the no-blocks cap
            if out != ("err", "EMaxRuns"):
                ck.fail_input(SIG_EMPTY, "blocks: [] with max_runs=%d returned %r instead of the max-runs error" % (spec["max_runs"], out[1] if out[0] == "ok" else out), replay_obj)
        elif doc != out:
            if doc[0] != out[0] or doc[0] == "err":
                sig = "C08:outcome:%s-instead-of-%s" % (out[1] if out[0] == "err" else "runs", doc[1] if doc[0] == "err" else "runs")
            elif len(doc[1]) != len(out[1]):
                sig = "C08:expansion:number-of-runs-differs"
            elif sorted(map(sorted, map(canon_run, doc[1]))) != sorted(map(sorted, map(canon_run, out[1]))):
                sig = "C08:expansion:set-of-runs-differs"
            elif [sorted(canon_run(r)) for r in doc[1]] != [sorted(canon_run(r)) for r in out[1]]:
                sig = "C08:expansion:order-of-runs-differs-from-documented"
            else:
                sig = "C08:expansion:key-order-inside-runs-differs"
            ck.fail_input(sig, "documented %s, implementation %s" % (str(doc)[:300], str(out)[:300]), replay_obj)
        # (5) metadata counts
        if meta is not None:
            if meta.get("expanded_runs") != len(out[1]):
                ck.fail_input("C08:meta:expanded_runs-differs-from-runs", "meta.expanded_runs=%r, %d runs" % (meta.get("expanded_runs"), len(out[1])), replay_obj)
            if [bm.get("mode") for bm in meta.get("blocks", [])] != [b["mode"] for b in spec["blocks"]]:
                ck.fail_input("C08:meta:blocks-out-of-declaration-order", "meta.blocks modes %r" % [bm.get("mode") for bm in meta.get("blocks", [])], replay_obj)
            # the planned (arithmetic) block sizes are the sizes of the documented per-block expansions
            want_sizes = []
            for b in spec["blocks"]:
                one = doc_expand({"combine": CB, "max_runs": 10 ** 12, "blocks": [b]})
                want_sizes.append(len(one[1]) if one[0] == "ok" else None)
            got_sizes = [bm.get("size") for bm in meta.get("blocks", [])]
            if got_sizes != want_sizes:
                ck.fail_input("C08:meta:block-size-differs-from-block-expansion", "meta block sizes %r, documented per-block expansions have %r runs" % (got_sizes, want_sizes), replay_obj)
        key = out[1] if out[0] == "err" else "ok"
        dist[key] = dist.get(key, 0) + 1
        oo = by_origin.setdefault(origin[i].split(":")[0] + (":" + origin[i].split(":")[1] if origin[i].startswith("malformed") else ""), {})
        oo[key] = oo.get(key, 0) + 1
        c = canon(spec)
        distinct.add(c)
        keys_total = sum(len(b["context"]) + (len(b["source"]["cols"]) if b["source"] else 0) for b in spec["blocks"])
        if len(spec["blocks"]) >= 2 or keys_total >= 2 or out[0] == "err" or any(b["source"] for b in spec["blocks"]):
            nontrivial.add(c)
    shutil.rmtree(os.path.join(tmp, "case"), ignore_errors=True)

    ck.cov["evaluations"] = len(specs)
    ck.cov["distinct_nontrivial"] = len(nontrivial)
    nsrc = sum(1 for s in specs for b in s["blocks"] if b["source"])
    ck.cov["rule"] = ("%d specifications (%d distinct); non-trivial = >=2 blocks, or >=2 keys, or a source, or a rejection; "
                      "valid stream %d + 9 malformed streams x %d + corpus %d; %d dropped for size; outcome distribution %s; "
                      "%d source files written (formats %s, row and column shapes, select/rename), all cross-checked against the loader"
                      % (len(specs), len(distinct), n_valid, n_bad, sum(1 for o in origin if o.startswith("corpus")), dropped,
                         json.dumps(dist, sort_keys=True), nsrc, "/".join(FORMATS)))
    ck.notes["distribution"] = {
        "blocks": {str(n): sum(1 for s in specs if len(s["blocks"]) == n) for n in range(5)},
        "combine": {m: sum(1 for s in specs if s["combine"] == m) for m in (BP, CB)},
        "block_modes": {m: sum(1 for s in specs for b in s["blocks"] if b["mode"] == m) for m in (BP, CB)},
        "source_modes": {m: sum(1 for s in specs for b in s["blocks"] if b["source"] and b["source"]["mode"] == m) for m in (BP, CB)},
        "source_formats": {f: sum(1 for s in specs for b in s["blocks"] if b["source"] and b["source"]["format"] == f) for f in FORMATS},
        "with_empty_list": sum(1 for s in specs if any(len(v) == 0 for b in s["blocks"] for _, v in b["context"])),
        "max_runs_zero": sum(1 for s in specs if s["max_runs"] == 0),
        "outcomes": dist, "loader_cross_checks": loader_checked,
        "outcomes_by_origin": by_origin,
    }
    idx = [0, 1, len(specs) // 3, len(specs) // 2, len(specs) - 1]
    ck.cov["samples"] = [{"origin": origin[i], "spec": specs[i], "implementation": outcomes[i]} for i in idx if i < len(specs)]

    # ---------- correspondence inside Coq
    shard = 250
    texts = []
    usable = [i for i, o in enumerate(outcomes) if not (o[0] == "err" and o[1].startswith("other:"))]
    for k in range(0, len(usable), shard):
        body = ";\n".join("(%s, %s)" % (cq_spec(specs[i]), cq_outcome(outcomes[i])) for i in usable[k:k + shard])
        texts.append(HEADER % body)
    per, errs = core.mismatches("C08", texts, timeout=900)
    agreed = 0
    for k, ls in enumerate(per):
        if ls is None:
            continue
        n = min(shard, len(usable) - k * shard)
        agreed += n - len(ls[0])
        for b in ls[0][:6]:
            i = usable[k * shard + b]
            prob = {"kind": "correspondence", "what": "model `expand impl` vs expand_run_space disagree (or input not well-formed)",
                    "detail": "origin=%s spec=%s implementation=%s" % (origin[i], json.dumps(specs[i]), str(outcomes[i])[:400]),
                    "case": {"kind": "spec", "spec": specs[i]}}
            ck.problems.append(prob)
    for k, rc, out in errs:
        ck.corr_problem("correspondence shard %d did not evaluate (rc=%s)" % (k, rc), out)
    ck.cov["traces_validated_against_impl"] = agreed
    ck.log("correspondence: %d/%d agree; outcomes %s" % (agreed, len(usable), json.dumps(dist, sort_keys=True)))

    # ---------- (8) source files holding strings outside ASCII (direct oracle: the model's strings are printable ASCII):
    #            accented letters, the Unicode line / paragraph separators and NEL (legal raw inside JSON strings), a tab
    n_uni = unicode_source_oracle(ck, tmp)
    ck.notes["ragged_rows_runs"] = ragged_rows_oracle(ck, tmp)
    rows_correspondence(ck, rng, tmp, 900 if thorough else 300)
    ck.cov["evaluations"] += n_uni

    # ---------- (7) the loader model against the loader
    loader_correspondence(ck, rng, [sp for sp in specs if isinstance(sp, dict) and "blocks" in sp], 900 if thorough else 300)

    # ---------- (2) giants: subprocess, RLIMIT_AS, wall limit; only the max-runs error is acceptable
    giants = giants_corpus + giants_for(ck.tier)
    seen_names, gl = set(), []
    for g in giants:
        if g["name"] not in seen_names:
            seen_names.add(g["name"])
            gl.append(g)
    outs = run_giants(gl, tmp)
    gsum = []
    failed_giant = False
    for g, o in zip(gl, outs):
        gsum.append({"giant": g["name"], "total": fmt_total(giant_total(g)), "max_runs": g["max_runs"], "outcome": o["outcome"], "seconds": o.get("seconds")})
        if o["outcome"] != "maxruns":
            failed_giant = True
            ck.fail_input(SIG_GIANT, "%s (%s runs, max_runs=%d): %s after %s s under RLIMIT_AS=%d MiB / %d s instead of the max-runs error"
                          % (g["name"], fmt_total(giant_total(g)), g["max_runs"], o["outcome"], o.get("seconds"), GIANT_AS >> 20, GIANT_SECONDS),
                          {"kind": "giant", "giant": g})
    ck.notes["giants"] = gsum
    ck.cov["evaluations"] += len(gl)
    ck.log("giants: " + ", ".join("%s=%s" % (x["total"], x["outcome"]) for x in gsum))

    # ---------- generated facts vs observed behaviour
    empty_bad = any(f["signature"] == SIG_EMPTY for f in ck.failing)
    tried_empty = any(s["blocks"] == [] and s["max_runs"] < 1 for s in specs)
    if not tried_empty:
        ck.corr_problem("no specification with blocks=[] and max_runs<1 was generated", "corpus/C08/no_blocks_cap0.json missing?")
    if facts["v_empty_cap"] and empty_bad:
        ck.corr_problem("generated fact v_empty_cap=true but the implementation ignores the cap without blocks", "")
    if not facts["v_empty_cap"] and not empty_bad:
        ck.corr_problem("generated fact v_empty_cap=false but the stored failing input (blocks=[], max_runs=0) is rejected properly", "")
    if facts["v_cap_first"] and failed_giant:
        ck.corr_problem("generated fact v_cap_first=true but a giant specification is not rejected before materialisation", json.dumps(gsum))
    if not facts["v_cap_first"] and not failed_giant:
        ck.corr_problem("generated fact v_cap_first=false but every giant specification was rejected promptly", json.dumps(gsum))


def canon_run(r):
    return [json.dumps([k, v]) for k, v in r]


def replay(obj):
    import logging
    logging.disable(logging.CRITICAL)
    r = obj["replay"]
    tmp = tempfile.mkdtemp(prefix="c08_replay_", dir="/tmp")
    try:
        if r.get("kind") == "giant":
            g = r["giant"]
            o = run_giants([g], tmp)[0]
            print("giant:", g["name"], "| total %s runs, max_runs=%d" % (fmt_total(giant_total(g)), g["max_runs"]))
            print("outcome under RLIMIT_AS=%d MiB, %d s:" % (GIANT_AS >> 20, GIANT_SECONDS), o, "| acceptable: maxruns")
            return 0 if o["outcome"] == "maxruns" else 1
        if r.get("kind") in ("unicode-source", "raw-block"):
            class _Ck:
                cov, notes, failing = {"evaluations": 0}, {}, []
                def fail_input(self, sig, what, rep): self.failing.append(sig); print("STILL FAILS:", sig, "-", what[:400])
                def corr_problem(self, *a): print("problem:", a[0])
            c = _Ck()
            unicode_source_oracle(c, tmp)
            print("recorded:", r.get("kind"), r.get("format"), "| now:", c.failing or "no violation on this tree")
            return 1 if c.failing else 0
        spec = r["spec"]
        out, meta = impl_expand(spec, tmp)
        doc = doc_expand(spec)
        print("spec:", json.dumps(spec))
        print("implementation:", out)
        print("documented    :", doc)
        return 0 if out == doc else 1
    finally:
        shutil.rmtree(tmp, ignore_errors=True)


TRUSTED = [
    "Coq 8.16.1 kernel (coqc), vm_compute; no native_compute",
    "model: coq/Model/RunSpace.v (dicts as insertion-ordered association lists with in-place replacement; itertools.product as `cart`; "
    "sorted() as insertion sort by String.leb = code-point order on the ASCII keys generated)",
    "translator harness/translate/run_space.py (mode names, sorted-key iteration, cap test before/after run-building sites, "
    "cap consulted in the no-blocks branch); fail closed on unknown shapes",
    "file parsing (csv/json/yaml/ndjson -> columns) is not modelled: columns are an input of the model; the loader is cross-checked "
    "against an independent parse of every file written",
    "the cost twin expand_cost is tied to the code only through the generated fact v_cap_first and the giant stream "
    "(subprocess, RLIMIT_AS 1 GiB, 5 s): run dictionaries built by the implementation are not counted directly",
    "correspondence harness: generators, exception-message -> error enum mapping, Gallina literal emission",
    "modelled not verified: dict insertion order, sorted, itertools.product, range/indexing",
]
FINISH = {"level": "proof", "assumptions": [
    "specifications reach expand_run_space as dataclasses whose context / rename mappings are Python dicts (unique keys): wf_spec, checked per case",
    "keys are ASCII strings (String.leb agrees with Python's str order); values are integers or ASCII strings",
    "source columns enter the model after loading; the loader is validated by test (cross-check), not by proof"]}
