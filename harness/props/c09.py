"""C09 — A run-space launch equals its independent runs and is linked by stable IDs.

proof side : Properties/C09.v over Model/Launch.v (Spec.launch = standalone runs in plan order up to the first failure,
             bracket records, foreign keys, both spec-id paths on a run-space configuration AST, launch id, inputs id),
             instantiated with Gen/LaunchGen.v (spec_id_paths_agree, stop_after_failure, FK field names, launch-id
             modes, close-after-run) and the probed fact enrich_on_copy
tie        : END TO END through the CLI as a subprocess: generated (pipeline, run_space) YAML files, `semantiva run`
             with file / directory trace output, the three launch-id options and attempts; the observed exit code,
             per-file record skeleton (record types, seq numbers, FK fields, counts, statuses), run order, sink
             results and the canonical RSCF text are compared inside Coq with Impl.launch's prediction
search     : direct oracles on the implementation, independent of the model: launch run i vs a standalone
             `semantiva run --context k=v` (sink file + normalised trace records), bracket / count predicates with a
             failing run at every index, `semantiva inspect` spec id vs run_space_start spec id, cosmetic rewrites and
             single-point mutations of the run_space block, idempotency-key launch ids across processes, inputs id vs
             content of the referenced file
"""
from __future__ import annotations

import copy
import glob
import hashlib
import json
import os
import random
import re
import shutil
import subprocess
import tempfile
from concurrent.futures import ThreadPoolExecutor

import yaml

from harness import core
from harness.core import cq_Z, cq_bool, cq_list, cq_nat, cq_opt, cq_pair, cq_str
from harness.lib import pipegen as pg
from harness.translate import run_all

SIG_A = "C09:spec-id:inspect-vs-trace:run_space_spec_id"
SIG_B = "C09:launch-vs-standalone:pipeline_start.pipeline_id:sweep-node"
MAXPAR = 12
BP, CB = "by_position", "combinatorial"

# ------------------------------------------------------------------------------------------------
# cases: descriptors -> YAML


def fl(v):
    """descriptor value -> YAML/CLI value (integer-valued floats; strings as they are)"""
    return float(v) if isinstance(v, int) and not isinstance(v, bool) else v


def rs_block_yaml(spec, explicit=False):
    """run_space mapping as written to the file (only the keys the descriptor says are written)."""
    out = {}
    w = spec.get("written", {})
    if w.get("combine", False) or explicit:
        out["combine"] = spec["combine"]
    if w.get("max_runs", False) or explicit:
        out["max_runs"] = spec["max_runs"]
    if w.get("dry_run", False) or explicit:
        out["dry_run"] = False
    blocks = []
    for b in spec["blocks"]:
        e = {"mode": b["mode"]}
        if b["context"] or explicit:
            e["context"] = {k: [fl(x) for x in vs] for k, vs in b["context"]}
        s = b.get("source")
        if s is not None:
            se = {"format": s["format"], "path": s["path"]}
            if s.get("select") is not None or explicit:
                se["select"] = s.get("select")
            if s.get("rename") or explicit:
                se["rename"] = {a: c for a, c in s.get("rename", [])}
            if s.get("mode_written") or explicit:
                se["mode"] = s["mode"]
            e["source"] = se
        elif explicit:
            e["source"] = None
        blocks.append(e)
    if blocks or w.get("blocks", True):
        out["blocks"] = blocks        # (a block-less run space may be written without the `blocks:` member at all)
    return out


def node_yaml(n):
    if n["k"] == "accum":
        # a stateful user operation (keeps a running total on its instance): every run of a launch must see a fresh one
        return {"processor": "harness.lib.components:VerifAccumulateOperation"}
    if n["k"] == "sink":
        d = {"processor": "FloatTxtFileSaver"}
        if n.get("cfg"):
            d["parameters"] = {a: pg.v_impl(b) for a, b in n["cfg"].items()}
        return d
    return pg.node_impl(n)


def doc_yaml(case, with_run_space=True, rs_override=None):
    doc = {"extensions": ["semantiva-examples"]}
    if case.get("trace_in_yaml"):
        doc["trace"] = {"driver": "jsonl", "output_path": case["trace_in_yaml"]}
    pipe = {"nodes": [node_yaml(n) for n in case["nodes"]]}
    rs = rs_override if rs_override is not None else rs_block_yaml(case["spec"])
    if with_run_space:
        if case.get("rs_under_pipeline"):
            pipe["run_space"] = rs
        else:
            doc["run_space"] = rs
    doc["pipeline"] = pipe
    return doc


def dump(doc):
    return yaml.safe_dump(doc, sort_keys=False, default_flow_style=None)


def write_sources(spec, d):
    for b in spec["blocks"]:
        s = b.get("source")
        if s is None:
            continue
        cols = s["cols"]
        p = os.path.join(d, s["path"])
        os.makedirs(os.path.dirname(p), exist_ok=True)
        if s["format"] == "csv":
            n = len(cols[0][1]) if cols else 0
            lines = [",".join(k for k, _ in cols)] + [",".join(str(fl(v[i])) for _, v in cols) for i in range(n)]
            text = "\n".join(lines) + "\n"
        else:
            text = json.dumps({k: [fl(x) for x in v] for k, v in cols}) + ("\n" * s.get("pad", 0))
        with open(p, "w", newline="") as f:
            f.write(text)


# ------------------------------------------------------------------------------------------------
# documented plan (formula-based, for the small class the generator produces: distinct keys, no select/rename errors)

def plan_block(b):
    ents = [(k, list(v)) for k, v in b["context"]]
    src = b.get("source")
    sents = []
    if src is not None:
        cols = [(k, list(v)) for k, v in src["cols"]]
        if src.get("select") is not None:
            cols = [(k, dict(cols)[k]) for k in src["select"]]
        ren = dict(src.get("rename", []))
        sents = [(ren.get(k, k), v) for k, v in cols]

    def expand(entries, mode):
        entries = sorted(entries)
        if not entries:
            return None
        if mode == BP:
            n = len(entries[0][1])
            assert all(len(v) == n for _, v in entries)
            return [[(k, v[i]) for k, v in entries] for i in range(n)]
        runs = [[]]
        for k, vs in entries:
            runs = [r + [(k, x)] for r in runs for x in vs]
        return runs
    c = expand(ents, b["mode"] if b["mode"] == BP else CB)
    s = expand(sents, src["mode"]) if src is not None else None
    if b["mode"] == BP:
        if c is None and s is None:
            return []
        if c is None:
            return s
        if s is None:
            return c
        assert len(c) == len(s)
        return [x + y for x, y in zip(c, s)]
    c = c if c is not None else [[]]
    s = s if s is not None else [[]]
    return [x + y for x in c for y in s]


def plan(spec):
    bs = [plan_block(b) for b in spec["blocks"]]
    if not bs:
        return [[]]
    if spec["combine"] == BP:
        assert all(len(b) == len(bs[0]) for b in bs)
        return [sum((b[i] for b in bs), []) for i in range(len(bs[0]))]
    runs = [[]]
    for b in bs:
        runs = [r + x for r in runs for x in b]
    return runs


# ------------------------------------------------------------------------------------------------
# CLI

def cli(args, cwd, timeout=120, hashseed="0"):
    env = dict(os.environ)
    # /verif on the path only so that harness-side user components (module:Class references) can be imported by the CLI process
    env.update({"PYTHONPATH": core.REPO + os.pathsep + core.ROOT, "PYTHONHASHSEED": hashseed, "PYTHONDONTWRITEBYTECODE": "1"})
    env.pop("SEMANTIVA_VERIF", None)
    try:
        p = subprocess.run([core.PY, "-m", "semantiva.cli"] + args, cwd=cwd, env=env, stdout=subprocess.PIPE, stderr=subprocess.PIPE,
                           text=True, timeout=timeout)
        return p.returncode, p.stdout, p.stderr
    except subprocess.TimeoutExpired:
        return 124, "", "timeout"


def read_trace(path):
    """-> list of (file name class, [records]) in a deterministic order: the run-space file(s) first (merged,
    by seq), then SER files ordered by the seq of their pipeline_start."""
    files = []
    if os.path.isdir(path):
        names = sorted(os.listdir(path))
    elif os.path.exists(path):
        names = [""]
    else:
        return []
    for nm in names:
        p = os.path.join(path, nm) if nm else path
        recs = [json.loads(l) for l in open(p) if l.strip()]
        kind = "runspace" if "_runspace-" in nm else ("ser" if nm.endswith(".ser.jsonl") else ("single" if nm == "" else "other:" + nm))
        files.append([kind, recs, nm])
    rsf = [f for f in files if f[0] == "runspace"]
    rest = [f for f in files if f[0] != "runspace"]
    out = []
    if rsf:
        merged = sorted(sum((f[1] for f in rsf), []), key=lambda r: r.get("seq", 0))
        out.append(["runspace", merged, len(rsf)])
    rest.sort(key=lambda f: min([r.get("seq", 10 ** 9) for r in f[1]] or [10 ** 9]))
    return out + [[f[0], f[1], 1] for f in rest]


VOLATILE_TOP = ("run_id", "seq", "timestamp", "timing")
FK = ("run_space_launch_id", "run_space_attempt", "run_space_index", "run_space_context")


def norm_record(r, drop_fk=True):
    r = copy.deepcopy(r)
    for k in VOLATILE_TOP:
        r.pop(k, None)
    if drop_fk:
        for k in FK:
            r.pop(k, None)
    if isinstance(r.get("identity"), dict):
        r["identity"].pop("run_id", None)
    return r


def split_runs(records):
    """pipeline records of one launch -> list of runs (each the list of records from pipeline_start to pipeline_end)."""
    runs, cur = [], None
    for r in records:
        t = r.get("record_type")
        if t == "pipeline_start":
            cur = [r]
            runs.append(cur)
        elif t in ("ser", "pipeline_end") and cur is not None:
            cur.append(r)
    return runs


def all_records(files):
    recs = []
    for kind, rs, _ in files:
        recs += rs
    return recs


def ctx_args(ctx):
    out = []
    for k, v in ctx:
        out += ["--context", "%s=%s" % (k, json.dumps(fl(v)) if not isinstance(v, str) else v)]
    return out


def launch_args(case, trace_path, yaml_name="pipeline.yaml"):
    a = ["run", yaml_name, "--quiet"]
    if not case.get("trace_in_yaml") and case["trace"] != "none":
        a += ["--trace.driver", "jsonl", "--trace.output", trace_path]
    la = case["launch"]
    if la[0] == "explicit":
        a += ["--run-space-launch-id", la[1]]
    elif la[0] == "idem":
        a += ["--run-space-idempotency-key", la[1]]
    if case.get("attempt") is not None:
        a += ["--run-space-attempt", str(case["attempt"])]
    a += ctx_args(case.get("cli_ctx", []))
    return a


def trace_path_of(case, d):
    if case["trace"] == "none":
        return None
    return os.path.join(d, "trace.jsonl" if case["trace"] == "file" else "traces")


def result_of(d, tag):
    p = os.path.join(d, "out_%s.txt" % tag)
    if not os.path.exists(p):
        return None
    return open(p).read()


def run_tag(ctx_pairs, keys):
    """the file name tag the template node renders for a run context"""
    d = dict(ctx_pairs)
    return "_".join(str(fl(d[k])) for k in keys)


# ------------------------------------------------------------------------------------------------
# generator

VALS = [1, 2, 3, 4, 5, 6, -1, -2]


def gen_case(rng, n_runs=None, sweep=None, source=None, fail_at=None):
    """One (pipeline, run_space) pair.  `value` is always a run-space key (by_position or combinatorial);
    optional second key `factor`/`addend`; `divisor` present when a failing run is requested."""
    sweep = rng.random() < 0.35 if sweep is None else sweep
    source = rng.random() < 0.3 if source is None else source
    shape = rng.choice(["one-bp", "one-cb", "two-blocks-cb", "two-blocks-bp"]) if fail_at is None else rng.choice(["one-bp", "two-blocks-bp"])
    n = n_runs or rng.choice([2, 3, 3, 4])
    second = rng.choice(["factor", "addend"])
    vals = rng.sample(VALS, 6)
    blocks = []
    if shape == "one-bp":
        ctx = [["value", vals[:n]], [second, [rng.choice(VALS) for _ in range(n)]]]
        blocks.append({"mode": BP, "context": ctx, "source": None})
        combine = rng.choice([BP, CB])
    elif shape == "one-cb":
        a = 2
        b = 2 if n >= 4 else 1
        if n == 3:
            a, b = 3, 1
        ctx = [["value", vals[:a]], [second, vals[3:3 + b]]]
        blocks.append({"mode": CB, "context": ctx, "source": None})
        combine = CB
    elif shape == "two-blocks-cb":
        a, b = (2, 2) if n >= 4 else ((3, 1) if n == 3 else (2, 1))
        blocks.append({"mode": rng.choice([BP, CB]), "context": [["value", vals[:a]]], "source": None})
        blocks.append({"mode": rng.choice([BP, CB]), "context": [[second, vals[3:3 + b]]], "source": None})
        combine = CB
    else:
        blocks.append({"mode": BP, "context": [["value", vals[:n]]], "source": None})
        blocks.append({"mode": BP, "context": [[second, [rng.choice(VALS) for _ in range(n)]]], "source": None})
        combine = BP
    if rng.random() < 0.5:   # declaration order of keys is not the sorted order
        for b in blocks:
            b["context"].reverse()
    keys = ["value", second]
    if fail_at is not None:
        divs = [1] * len(plan({"combine": combine, "blocks": blocks}))
        if 0 <= fail_at < len(divs):
            divs[fail_at] = 0
        tgt = blocks[-1] if shape == "two-blocks-bp" and rng.random() < 0.5 else blocks[0]
        tgt["context"].append(["divisor", divs])
    if source:
        fmt = rng.choice(["csv", "json"])
        nb = len(plan({"combine": combine, "blocks": blocks}))
        cols = [["gain", [rng.choice(VALS) for _ in range(nb if combine == BP or shape == "one-bp" else 1)]]]
        smode = BP
        src = {"format": fmt, "path": "inputs/src." + fmt, "cols": cols, "select": None, "rename": [], "mode": smode,
               "mode_written": rng.random() < 0.5}
        if rng.random() < 0.4:
            src["rename"] = [["gain", "gain2"]]
        if shape == "one-bp":
            blocks[0]["source"] = src
        else:
            blocks.append({"mode": BP if combine == BP else rng.choice([BP, CB]), "context": [], "source": src})
    spec = {"combine": combine, "max_runs": rng.choice([1000, 50, 7]), "blocks": blocks,
            "written": {"combine": rng.random() < 0.6 or combine != CB, "max_runs": rng.random() < 0.5, "dry_run": rng.random() < 0.15}}
    if not spec["written"]["max_runs"]:
        spec["max_runs"] = 1000
    # ---- pipeline
    nodes = []
    if sweep:
        nodes.append({"k": "sweep", "elem": "src", "vars": [["t", ["seq", [rng.randint(1, 3), rng.randint(1, 3)]]]],
                      "exprs": [["value", ("bin", "Mult", ("var", "t"), ("var", "t"))]], "mode": "combinatorial", "broadcast": False})
        nodes.append({"k": "csum"})     # the run's `value` then only feeds the file name
    else:
        nodes.append({"k": "src"})
    for op, key in (("mul", "factor"), ("add", "addend")):
        if key == second:
            nodes.append({"k": op})
        elif rng.random() < 0.4:
            nodes.append({"k": op, "cfg": {key: rng.choice(VALS)}})
    if rng.random() < 0.3:
        nodes.append({"k": "square"})
    if not sweep and rng.random() < 0.45:
        nodes.insert(rng.randint(1, len(nodes)), {"k": "accum"})
    if fail_at is not None:
        nodes.insert(rng.randint(1, len(nodes)), {"k": "divide"})
    has_src_key = None
    for b in blocks:
        if b.get("source"):
            has_src_key = dict(b["source"].get("rename", [])).get("gain", "gain")
    if sweep:
        keys = ["value", second]      # `value` only feeds the file name
    tkeys = list(keys)
    segs = [["lit", "out_"]]
    for i, k in enumerate(tkeys):
        if i:
            segs.append(["lit", "_"])
        segs.append(["hole", k])
    segs.append(["lit", ".txt"])
    nodes.append({"k": "template", "segs": segs, "out": "path"})
    nodes.append({"k": "sink"})
    case = {"nodes": nodes, "spec": spec, "tkeys": tkeys, "cli_ctx": [], "trace": rng.choice(["file", "dir"]),
            "launch": rng.choice([("explicit", "L-%04d" % rng.randint(0, 9999)), ("idem", "key-%d" % rng.randint(0, 99)), ("generated",)]),
            "attempt": rng.choice([None, None, 1, 2, 3]), "rs_under_pipeline": rng.random() < 0.2,
            "trace_in_yaml": None, "fail_at": fail_at, "src_key": has_src_key}
    if rng.random() < 0.3:
        case["cli_ctx"] = [["extra", rng.choice(VALS)]]
    return case


# ------------------------------------------------------------------------------------------------
# jobs

class Jobs:
    def __init__(self):
        self.jobs = []

    def add(self, key, args, cwd, **kw):
        self.jobs.append((key, args, cwd, kw))

    def run(self):
        def one(j):
            key, args, cwd, kw = j
            return key, cli(args, cwd, **kw)
        with ThreadPoolExecutor(max_workers=MAXPAR) as ex:
            return dict(ex.map(one, self.jobs))


def prepare(case, root, jobs, name, standalone=True, inspect=True):
    """Write the files of one case and queue its CLI invocations."""
    d = os.path.join(root, name)
    L = os.path.join(d, "launch")
    os.makedirs(L)
    write_sources(case["spec"], L)
    open(os.path.join(L, "pipeline.yaml"), "w").write(dump(doc_yaml(case)))
    case["dir"] = d
    case["runs"] = plan(case["spec"])
    jobs.add((name, "launch"), launch_args(case, trace_path_of(case, L)), L)
    if inspect:
        jobs.add((name, "inspect"), ["inspect", "pipeline.yaml"], L)
        # the same file inspected from another working directory (relative source paths resolve against the file's directory)
        jobs.add((name, "inspect-elsewhere"), ["inspect", os.path.join("launch", "pipeline.yaml")], d)
    if standalone:
        for i, r in enumerate(case["runs"]):
            S = os.path.join(d, "s%d" % i)
            os.makedirs(S)
            open(os.path.join(S, "pipeline.yaml"), "w").write(dump(doc_yaml(case, with_run_space=False)))
            sc = dict(case, launch=("generated",), attempt=None)
            a = ["run", "pipeline.yaml", "--quiet"]
            if case["trace"] != "none":
                a += ["--trace.driver", "jsonl", "--trace.output", trace_path_of(case, S)]
            a += ctx_args(case.get("cli_ctx", []) + r)
            jobs.add((name, "s%d" % i), a, S)


def observe(case, res, name):
    """Collect what the launch left behind."""
    d = case["dir"]
    L = os.path.join(d, "launch")
    rc, out, err = res[(name, "launch")]
    tp = trace_path_of(case, L)
    files = read_trace(tp) if tp else []
    recs = all_records(files)
    ob = {"rc": rc, "stderr": err[-400:], "files": files, "records": recs,
          "starts": [r for r in recs if r.get("record_type") == "run_space_start"],
          "ends": [r for r in recs if r.get("record_type") == "run_space_end"],
          "runs": split_runs(sorted([r for r in recs if r.get("record_type") in ("pipeline_start", "pipeline_end")] , key=lambda r: r["seq"])),
          "results": [result_of(L, run_tag(case.get("cli_ctx", []) + r, case["tkeys"])) for r in case["runs"]]}
    # SER records carry no seq: group them by run_id
    by_run = {}
    for r in recs:
        if r.get("record_type") == "ser":
            by_run.setdefault(r["identity"]["run_id"], []).append(r)
    full = []
    for run in ob["runs"]:
        rid = run[0]["run_id"]
        full.append([run[0]] + by_run.get(rid, []) + run[1:])
    ob["runs"] = full
    if (name, "inspect") in res:
        irc, iout, ierr = res[(name, "inspect")]
        m = re.search(r"Run-Space Config ID:\s*(\S+)", iout)
        ob["inspect_spec_id"] = m.group(1) if m else None
        ob["inspect_rc"] = irc
    if (name, "inspect-elsewhere") in res:
        irc, iout, ierr = res[(name, "inspect-elsewhere")]
        m = re.search(r"Run-Space Config ID:\s*(\S+)", iout)
        ob["inspect_spec_id_elsewhere"] = m.group(1) if m else None
    return ob


def observe_standalone(case, res, name, i):
    S = os.path.join(case["dir"], "s%d" % i)
    rc, out, err = res[(name, "s%d" % i)]
    tp = trace_path_of(case, S)
    files = read_trace(tp) if tp else []
    recs = all_records(files)
    r = case["runs"][i]
    return {"rc": rc, "stderr": err[-300:], "records": recs, "result": result_of(S, run_tag(case.get("cli_ctx", []) + r, case["tkeys"])),
            "n_rs": sum(1 for x in recs if str(x.get("record_type", "")).startswith("run_space"))}


def expected_first_failure(case):
    """index of the first run whose divisor is 0 (the only runtime failure the generator produces)"""
    for i, r in enumerate(case["runs"]):
        if dict(r).get("divisor") == 0 and any(n["k"] == "divide" for n in case["nodes"]):
            return i
    return None


# ------------------------------------------------------------------------------------------------
# direct oracles (implementation only)

SIG_A2 = "C09:spec-id:inspect-vs-trace:run_space-under-pipeline-block"


def has_sweep(case):
    return any(n["k"] == "sweep" for n in case["nodes"])


def diff_paths(a, b, path=""):
    """paths at which two JSON values differ (short list)"""
    if type(a) != type(b):
        return [path or "."]
    if isinstance(a, dict):
        out = []
        for k in sorted(set(a) | set(b)):
            if k not in a or k not in b:
                out.append(path + "." + k)
            else:
                out += diff_paths(a[k], b[k], path + "." + k)
        return out
    if isinstance(a, list):
        if len(a) != len(b):
            return [path + "[len]"]
        out = []
        for i, (x, y) in enumerate(zip(a, b)):
            out += diff_paths(x, y, path + "[%d]" % i)
        return out
    return [] if a == b else [path or "."]


def generalise(p):
    p = re.sub(r"\[\d+\]", "[]", p)
    p = re.sub(r"[0-9a-f]{8}-[0-9a-f]{4}-[0-9a-f]{4}-[0-9a-f]{4}-[0-9a-f]{12}", "<uuid>", p)
    return p


def replay_of(case, extra=None):
    r = {k: case[k] for k in ("nodes", "spec", "tkeys", "cli_ctx", "trace", "launch", "attempt", "rs_under_pipeline", "trace_in_yaml", "fail_at")}
    r["yaml"] = dump(doc_yaml(case))
    r.update(extra or {})
    return r


def oracles(ck, case, ob, sobs, stats):
    """bracket / FK / order / launch-vs-standalone / inspect-vs-trace predicates on one executed case."""
    n = len(case["runs"])
    k = expected_first_failure(case)
    traced = case["trace"] != "none"
    want_rc = 0 if k is None else 4
    if ob["rc"] != want_rc:
        ck.fail_input("C09:exit-code:launch", "launch exit code %s, expected %s (first failing run: %s): %s" % (ob["rc"], want_rc, k, ob["stderr"]),
                      replay_of(case))
    started = n if k is None else k + 1
    completed = n if k is None else k
    if traced:
        if len(ob["starts"]) != 1 or len(ob["ends"]) != 1:
            ck.fail_input("C09:bracket:count", "launch trace has %d run_space_start and %d run_space_end records" % (len(ob["starts"]), len(ob["ends"])),
                          replay_of(case))
            return
        st, en = ob["starts"][0], ob["ends"][0]
        seqs = [r["seq"] for r in ob["records"] if "seq" in r]
        if st["seq"] != min(seqs) or en["seq"] != max(seqs):
            ck.fail_input("C09:bracket:order", "run_space_start / run_space_end are not the first / last records by seq", replay_of(case))
        if st.get("run_space_planned_run_count") != n or st.get("run_space_total_runs") != n:
            ck.fail_input("C09:bracket:planned-count", "run_space_start planned=%s total=%s, plan has %d runs" %
                          (st.get("run_space_planned_run_count"), st.get("run_space_total_runs"), n), replay_of(case))
        summ = en.get("summary", {})
        want_status = None if k is None else "failed"
        if summ.get("planned_runs") != n or summ.get("completed_runs") != completed or summ.get("status") != want_status:
            ck.fail_input("C09:bracket:end-summary", "run_space_end summary %s, expected planned=%d completed=%d status=%s" % (summ, n, completed, want_status),
                          replay_of(case))
        if len(ob["runs"]) != started:
            ck.fail_input("C09:order:runs-started", "%d runs started, expected %d (first failing run %s of %d)" % (len(ob["runs"]), started, k, n), replay_of(case))
        lid, att = st["run_space_launch_id"], st["run_space_attempt"]
        if att != (case["attempt"] or 1):
            ck.fail_input("C09:fk:attempt", "run_space_start attempt %s, requested %s" % (att, case["attempt"]), replay_of(case))
        if en["run_space_launch_id"] != lid or en["run_space_attempt"] != att:
            ck.fail_input("C09:bracket:end-ids", "run_space_end carries other launch id / attempt than run_space_start", replay_of(case))
        if case["launch"][0] == "explicit" and lid != case["launch"][1]:
            ck.fail_input("C09:launch-id:explicit", "explicit launch id not used", replay_of(case))
        for i, run in enumerate(ob["runs"]):
            ps = run[0]
            want_ctx = {a: fl(b) for a, b in case.get("cli_ctx", []) + case["runs"][i]} if i < n else None
            got = (ps.get("run_space_launch_id"), ps.get("run_space_attempt"), ps.get("run_space_index"), ps.get("run_space_context"))
            if got != (lid, att, i, want_ctx):
                bad = [f for f, g, w in zip(FK, got, (lid, att, i, want_ctx)) if g != w]
                ck.fail_input("C09:fk:pipeline_start:" + ",".join(bad), "pipeline_start of run %d carries %s, expected %s" % (i, got, (lid, att, i, want_ctx)),
                              replay_of(case))
        # inspect vs trace
        if "inspect_spec_id" in ob:
            stats["inspect_compared"] = stats.get("inspect_compared", 0) + 1
            if ob["inspect_spec_id"] != st["run_space_spec_id"]:
                if case.get("rs_under_pipeline") and ob["inspect_spec_id"] == "none":
                    ck.fail_input(SIG_A2, "`semantiva inspect` prints Run-Space Config ID `none` for a run_space block placed under `pipeline:`; "
                                  "the trace of the same file carries %s" % st["run_space_spec_id"][:16], replay_of(case, {"kind": "inspect"}))
                else:
                    ck.fail_input(SIG_A, "`semantiva inspect` prints run-space spec id %s, run_space_start of the same file carries %s"
                                  % (str(ob["inspect_spec_id"])[:16], st["run_space_spec_id"][:16]), replay_of(case, {"kind": "inspect"}))
            else:
                stats["inspect_agree"] = stats.get("inspect_agree", 0) + 1
            if "inspect_spec_id_elsewhere" in ob and ob["inspect_spec_id_elsewhere"] != st["run_space_spec_id"] and ob["inspect_spec_id"] == st["run_space_spec_id"]:
                ck.fail_input("C09:inspect:spec-id-depends-on-working-directory",
                              "`semantiva inspect launch/pipeline.yaml` run from the parent directory prints run-space spec id %s; run next to the file it prints %s, "
                              "which is what run_space_start carries" % (str(ob["inspect_spec_id_elsewhere"])[:16], st["run_space_spec_id"][:16]),
                              replay_of(case, {"kind": "inspect"}))
    # results: later runs not started, earlier ones equal to the standalone runs
    for i in range(n):
        res = ob["results"][i]
        if i >= completed:
            if res is not None:
                ck.fail_input("C09:order:run-after-failure-produced-output", "run %d wrote its sink file although run %s failed" % (i, k), replay_of(case))
            continue
        if res is None:
            ck.fail_input("C09:result:missing", "run %d of the launch left no sink file" % i, replay_of(case))
    for i, so in sorted(sobs.items()):
        stats["standalone_compared"] = stats.get("standalone_compared", 0) + 1
        want_rc_i = 4 if (k is not None and dict(case["runs"][i]).get("divisor") == 0) else 0
        if so["rc"] != want_rc_i:
            ck.corr_problem("standalone run %d exit code %s (expected %s)" % (i, so["rc"], want_rc_i), so["stderr"], case=replay_of(case))
            continue
        if so["n_rs"]:
            ck.fail_input("C09:standalone:run_space-records", "a configuration without run_space emitted run_space lifecycle records", replay_of(case))
        if i < started:
            if i < completed and so["result"] != ob["results"][i]:
                ck.fail_input("C09:launch-vs-standalone:result", "run %d of the launch wrote %r, the standalone run with the same context wrote %r"
                              % (i, ob["results"][i], so["result"]), replay_of(case, {"run": i}))
            if traced and i < len(ob["runs"]):
                a = [norm_record(r) for r in ob["runs"][i]]
                b = [norm_record(r) for r in split_and_join(so["records"])]
                d = sorted(set(generalise(p) for p in diff_paths(a, b)))
                if d:
                    only_plid = all(p.endswith("pipeline_id") for p in d)
                    if only_plid and has_sweep(case):
                        ck.fail_input(SIG_B, "run %d of a launch whose pipeline has a sweep node: pipeline_id %s, standalone run with the same context: %s "
                                      "(run 0 of the launch: %s)" % (i, a[0].get("pipeline_id", "")[:17], b[0].get("pipeline_id", "")[:17],
                                                                    ob["runs"][0][0].get("pipeline_id", "")[:17]), replay_of(case, {"run": i, "kind": "standalone"}))
                    else:
                        ck.fail_input("C09:launch-vs-standalone:trace:" + ",".join(d)[:120], "normalised trace records of run %d differ from the standalone run at %s" % (i, d[:6]),
                                      replay_of(case, {"run": i, "kind": "standalone"}))
                else:
                    stats["standalone_trace_equal"] = stats.get("standalone_trace_equal", 0) + 1
    if traced and has_sweep(case) and len(ob["runs"]) >= 2:
        ids = [r[0].get("pipeline_id") for r in ob["runs"]]
        if len(set(ids)) > 1:
            ck.fail_input(SIG_B, "pipeline_start.pipeline_id differs between run 0 (%s) and run 1 (%s) of one launch (pipeline with a sweep node)"
                          % (ids[0][:17], ids[1][:17]), replay_of(case, {"kind": "launch-runs"}))
    elif traced and len(ob["runs"]) >= 2:
        ids = [r[0].get("pipeline_id") for r in ob["runs"]]
        if len(set(ids)) > 1:
            ck.fail_input("C09:launch:pipeline_id-differs-between-runs", "pipeline_id differs between runs of one launch (no sweep node)", replay_of(case))


def bracket_edge_oracle(ck, root, stats):
    """The launch bracket at its edges: a launch whose run space expands to zero runs (a combinatorial block over an empty
    list) and a launch one of whose runs is aborted by an exception that is not an Exception (SystemExit raised inside a
    processor).  Either way: one run_space_start, one run_space_end, truthful planned / completed counts."""
    src = {"processor": "FloatValueDataSource", "parameters": {"value": 2.0}}
    edge = [("zero-runs", [src], {"combine": "combinatorial", "blocks": [{"mode": "combinatorial", "context": {"seed": []}}]}, 0, 0),
            ("zero-runs-two-blocks", [src], {"combine": "combinatorial", "blocks": [{"mode": "by_position", "context": {"a": [1.0, 2.0]}},
                                                                                    {"mode": "combinatorial", "context": {"seed": []}}]}, 0, 0),
            ("system-exit-in-run-1", [src, {"processor": "harness.lib.components:VerifExitingOperation"}],
             {"blocks": [{"mode": "by_position", "context": {"trip": [0, 1, 0]}}]}, 3, 1)]
    for name, nodes, rs, planned, completed in edge:
        for mode in ("file", "dir"):
            d = tempfile.mkdtemp(prefix="edge_", dir=root)
            with open(os.path.join(d, "pipeline.yaml"), "w") as f:
                f.write(dump({"extensions": ["semantiva-examples"], "run_space": rs, "pipeline": {"nodes": nodes}}))
            tp = os.path.join(d, "t.jsonl" if mode == "file" else "traces")
            rc, out, err = cli(["run", "pipeline.yaml", "--trace.driver", "jsonl", "--trace.output", tp], d)
            stats["bracket_edge_launches"] = stats.get("bracket_edge_launches", 0) + 1
            recs = all_records(read_trace(tp))
            starts = [r for r in recs if r.get("record_type") == "run_space_start"]
            ends = [r for r in recs if r.get("record_type") == "run_space_end"]
            if not starts and rc != 0 and planned == 0:
                continue            # (a tree that refuses an empty plan before the launch begins keeps the bracket trivially)
            summ = ends[0].get("summary", {}) if ends else {}
            ok = len(starts) == 1 and len(ends) == 1 and summ.get("planned_runs") == planned and summ.get("completed_runs") == completed
            if ok and planned:
                ok = starts[0].get("run_space_planned_run_count") == planned
            if not ok:
                ck.fail_input("C09:bracket:edge:%s" % name.split("-in-")[0],
                              "launch `%s` (%s trace, exit %s): %d run_space_start, %d run_space_end, end summary %s; expected one of each with "
                              "planned=%d completed=%d" % (name, mode, rc, len(starts), len(ends), summ, planned, completed),
                              {"kind": "bracket-edge", "yaml": dump({"extensions": ["semantiva-examples"], "run_space": rs, "pipeline": {"nodes": nodes}}),
                               "trace": mode, "exit": rc, "stderr": err[-600:], "record_types": [r.get("record_type") for r in recs]})


def split_and_join(records):
    runs = split_runs([r for r in records if r.get("record_type") in ("pipeline_start", "pipeline_end")])
    sers = [r for r in records if r.get("record_type") == "ser"]
    if not runs:
        return []
    return [runs[0][0]] + sers + runs[0][1:]


# ------------------------------------------------------------------------------------------------
# identifier families: cosmetic rewrites, single-point mutations, idempotency keys, inputs id

def shuffle_keys(x, rng):
    if isinstance(x, dict):
        ks = list(x)
        rng.shuffle(ks)
        return {k: shuffle_keys(x[k], rng) for k in ks}
    if isinstance(x, list):
        return [shuffle_keys(v, rng) for v in x]
    return x


def id_base(rng, with_source=True):
    n = rng.choice([2, 3])
    vals = rng.sample(VALS, 5)
    blocks = [{"mode": BP, "context": [["value", vals[:n]], ["factor", [rng.choice(VALS) for _ in range(n)]]], "source": None}]
    if True:
        # a string-valued key no node reads: text with line breaks (YAML block scalars end in one) and non-ASCII text
        texts = ["first line\nsecond line\n", "tail\n", "a\r\nb", "plain", "two\n\n", "cr\rlf",
                 "caf\u00e9", "gr\u00f6\u00dfe \u4e2d\u6587", "emoji \U0001F600", "nbsp\u00a0x"]
        note = [rng.choice(texts) for _ in range(n)]
        note[0] = rng.choice(texts[:6])          # always one text with a line break ...
        note[-1] = rng.choice(texts[6:])         # ... and one outside ASCII
        blocks[0]["context"].append(["note", note])
        if rng.random() < 0.4:
            # a non-ASCII KEY (legal YAML mapping key; no node reads it)
            blocks[0]["context"].append(["gr\u00f6\u00dfe", [rng.choice(VALS) for _ in range(n)]])
    if with_source:
        fmt = rng.choice(["json", "csv"])
        blocks.append({"mode": BP, "context": [], "source": {"format": fmt, "path": "inputs/src." + fmt, "cols": [["gain", [rng.choice(VALS) for _ in range(n)]],
                                                                                                   ["unused", list(range(n))]],
                                                "select": ["gain"], "rename": [["gain", "g2"]], "mode": BP, "mode_written": True}})
    spec = {"combine": BP, "max_runs": 20, "blocks": blocks, "written": {"combine": True, "max_runs": True, "dry_run": False}}
    nodes = [{"k": "src"}, {"k": "mul"},
             {"k": "template", "segs": [["lit", "out_"], ["hole", "value"], ["lit", "_"], ["hole", "factor"], ["lit", ".txt"]], "out": "path"}, {"k": "sink"}]
    return {"nodes": nodes, "spec": spec, "tkeys": ["value", "factor"], "cli_ctx": [], "trace": "file", "launch": ("idem", "K%d" % rng.randint(0, 999)),
            "attempt": None, "rs_under_pipeline": False, "trace_in_yaml": None, "fail_at": None}


def mutations(spec, rng):
    """single-point mutations of the run_space block that keep the launch runnable; (name, spec')"""
    out = []

    def mut(name, f):
        s = copy.deepcopy(spec)
        f(s)
        out.append((name, s))
    mut("context-value", lambda s: s["blocks"][0]["context"][0][1].__setitem__(0, 7))
    mut("context-values-swapped", lambda s: s["blocks"][0]["context"][0][1].reverse())
    mut("max_runs", lambda s: s.__setitem__("max_runs", s["max_runs"] + 1))
    mut("combine", lambda s: s.__setitem__("combine", CB if len(s["blocks"]) == 1 else s["combine"]))
    mut("block-mode", lambda s: s["blocks"][0].__setitem__("mode", CB) if len(s["blocks"][0]["context"][0][1]) == 1 else s["blocks"][0]["context"].append(["extra", [1] * len(s["blocks"][0]["context"][0][1])]))
    mut("context-key-added", lambda s: s["blocks"][0]["context"].append(["zkey", [3] * len(s["blocks"][0]["context"][0][1])]))
    for col in spec["blocks"][0]["context"]:
        if col[0] == "note":
            i = next((j for j, t in enumerate(col[1]) if t.endswith("\n")), None)
            if i is not None:
                mut("string-trailing-line-break-removed", lambda s, i=i: [c for c in s["blocks"][0]["context"] if c[0] == "note"][0][1].__setitem__(i, col[1][i][:-1]))
            mut("string-line-appended", lambda s: [c for c in s["blocks"][0]["context"] if c[0] == "note"][0][1].__setitem__(0, col[1][0] + "\nmore"))
    if len(spec["blocks"]) > 1 and spec["blocks"][1].get("source"):
        mut("source-rename-target", lambda s: s["blocks"][1]["source"].__setitem__("rename", [["gain", "g3"]]))
        mut("source-select", lambda s: s["blocks"][1]["source"].__setitem__("select", ["gain", "unused"]))
        mut("source-path", lambda s: s["blocks"][1]["source"].__setitem__("path", "inputs/copy." + s["blocks"][1]["source"]["format"]))
        mut("blocks-swapped", lambda s: s["blocks"].reverse())
    return [(nm, s) for nm, s in out if json.dumps(s, sort_keys=True) != json.dumps(spec, sort_keys=True)]


class IdFamily:
    """One base launch + variants executed in the same directory (source URIs are part of the inputs id)."""

    def __init__(self, rng, root, name, with_source=True):
        self.rng, self.name = rng, name
        self.case = id_base(rng, with_source)
        self.d = os.path.join(root, name)
        os.makedirs(self.d)
        write_sources(self.case["spec"], self.d)
        src = self.source()
        if src:
            p = os.path.join(self.d, src["path"])
            shutil.copy(p, os.path.join(self.d, "inputs", "copy." + src["format"]))
            open(os.path.join(self.d, "inputs", "unrelated.txt"), "w").write("a\n")
        self.variants = {}

    def source(self):
        for b in self.case["spec"]["blocks"]:
            if b.get("source"):
                return b["source"]
        return None

    def add(self, jobs, vname, doc, kind, launch=None, attempt=None, hashseed="0", inspect=False, spec=None):
        y = "p_%s.yaml" % vname
        open(os.path.join(self.d, y), "w").write(doc if isinstance(doc, str) else dump(doc))
        c = dict(self.case, launch=launch or self.case["launch"], attempt=attempt)
        tp = os.path.join(self.d, "t_%s.jsonl" % vname)
        jobs.add((self.name, vname), launch_args(c, tp, y), self.d, hashseed=hashseed)
        if inspect:
            jobs.add((self.name, vname + ":inspect"), ["inspect", y], self.d)
        self.variants[vname] = {"kind": kind, "trace": tp, "yaml": y, "spec": spec}

    def phase1(self, jobs, n_cosmetic=3, n_mut=99):
        rng = self.rng
        base_doc = doc_yaml(self.case)
        self.add(jobs, "base", base_doc, "base", inspect=True)
        self.add(jobs, "again", base_doc, "same", hashseed="random")
        self.add(jobs, "attempt2", base_doc, "same-key-other-attempt", attempt=2)
        self.add(jobs, "otherkey", base_doc, "other-key", launch=("idem", self.case["launch"][1] + "x"))
        for i in range(n_cosmetic):
            doc = shuffle_keys(base_doc, rng)
            text = yaml.safe_dump(doc, sort_keys=False, default_flow_style=rng.choice([None, False, True]), width=rng.choice([40, 80, 1000]))
            if i == 0:
                text = "# a comment\n\n" + text      # (a blank line INSIDE the document could fall into a folded multi-line scalar)
            assert yaml.safe_load(text) == base_doc
            self.add(jobs, "cos%d" % i, text, "cosmetic", inspect=True)
        # defaults written out / run_space moved under pipeline: the same plan
        self.add(jobs, "explicit", doc_yaml(self.case, rs_override=rs_block_yaml(self.case["spec"], explicit=True)), "defaults-explicit", inspect=True)
        self.add(jobs, "moved", doc_yaml(dict(self.case, rs_under_pipeline=True)), "moved-under-pipeline", inspect=True)
        muts = mutations(self.case["spec"], rng)
        rng.shuffle(muts)
        if muts:
            # a run_space block at BOTH accepted placements (top level and under pipeline:), with different plans: whichever the
            # loader prefers, `inspect` and the trace must speak of the same plan
            both = doc_yaml(self.case)
            both["pipeline"] = dict(both["pipeline"], run_space=rs_block_yaml(muts[0][1]))
            self.add(jobs, "both", both, "both-placements", inspect=True)
        for nm, s in muts[:n_mut]:
            self.add(jobs, "mut-" + nm, doc_yaml(dict(self.case, spec=s)), "mutation", spec=s, inspect=True)

    def phase2(self, jobs):
        """the referenced file changes (same loaded columns), an unrelated file changes"""
        src = self.source()
        if not src:
            return
        p = os.path.join(self.d, src["path"])
        self.orig = open(p, "rb").read()
        if src["format"] == "json":
            open(p, "wb").write(self.orig + b" \n")
        else:
            open(p, "wb").write(self.orig.replace(b".0\n", b".00\n", 1))
        open(os.path.join(self.d, "inputs", "unrelated.txt"), "w").write("b\n")
        self.add(jobs, "content-changed", doc_yaml(self.case), "content-changed")

    def phase3(self, jobs):
        src = self.source()
        if not src:
            return
        p = os.path.join(self.d, src["path"])
        open(p, "wb").write(self.orig)
        os.utime(p, (1, 1))
        self.add(jobs, "content-restored", doc_yaml(self.case), "content-restored")

    def start_of(self, res, vname):
        rc, out, err = res[(self.name, vname)]
        v = self.variants[vname]
        recs = all_records(read_trace(v["trace"]))
        st = [r for r in recs if r.get("record_type") == "run_space_start"]
        return rc, (st[0] if st else None), err[-300:]

    def inspect_id(self, res, vname):
        r = res.get((self.name, vname + ":inspect"))
        if not r:
            return None
        m = re.search(r"Run-Space Config ID:\s*(\S+)", r[1])
        return m.group(1) if m else None

    def check(self, ck, res, stats, paths_agree):
        rep = lambda extra: {"kind": "ids", "base_yaml": open(os.path.join(self.d, "p_base.yaml")).read(), **extra}  # noqa: E731
        rc, base, err = self.start_of(res, "base")
        if rc != 0 or base is None:
            ck.corr_problem("id family base launch failed rc=%s" % rc, err, case=rep({}))
            return
        has_src = self.source() is not None
        if has_src != (base.get("run_space_inputs_id") is not None) or has_src != bool(base.get("run_space_input_fingerprints")):
            ck.fail_input("C09:inputs-id:presence", "run_space_inputs_id / fingerprints present iff a source file is referenced: violated", rep({}))
        base_ins = self.inspect_id(res, "base")
        stats["inspect_compared"] = stats.get("inspect_compared", 0) + 1
        if base_ins != base["run_space_spec_id"]:
            ck.fail_input(SIG_A, "`semantiva inspect` prints run-space spec id %s, run_space_start of the same file carries %s"
                          % (str(base_ins)[:16], base["run_space_spec_id"][:16]), rep({"yaml": rep({})["base_yaml"], "kind": "inspect"}))
        else:
            stats["inspect_agree"] = stats.get("inspect_agree", 0) + 1
        for vname, v in sorted(self.variants.items()):
            if vname == "base":
                continue
            rc, st, err = self.start_of(res, vname)
            text = open(os.path.join(self.d, v["yaml"])).read()
            kind = v["kind"]
            stats["id:" + kind] = stats.get("id:" + kind, 0) + 1
            if rc != 0 or st is None:
                if kind == "mutation":
                    stats["id:mutation-not-runnable"] = stats.get("id:mutation-not-runnable", 0) + 1
                    continue
                ck.corr_problem("id family variant %s failed rc=%s" % (vname, rc), err, case=rep({"yaml": text}))
                continue
            same = lambda f: st.get(f) == base.get(f)  # noqa: E731
            if kind in ("same", "same-key-other-attempt", "cosmetic", "defaults-explicit", "moved-under-pipeline", "content-restored"):
                for f in ("run_space_spec_id", "run_space_inputs_id", "run_space_launch_id"):
                    if not same(f):
                        what = {"same": "a second process (other hash seed)", "same-key-other-attempt": "attempt 2 with the same idempotency key",
                                "content-restored": "the referenced file restored to its original bytes (other mtime)"}.get(kind, "a cosmetic rewrite (%s)" % kind)
                        ck.fail_input("C09:%s:%s-changes" % (kind, f), "%s changes for %s: %s vs %s" % (f, what, str(st.get(f))[:16], str(base.get(f))[:16]),
                                      rep({"yaml": text, "variant": vname}))
                if kind == "same-key-other-attempt" and st.get("run_space_attempt") != 2:
                    ck.fail_input("C09:fk:attempt", "attempt 2 requested, run_space_start carries %s" % st.get("run_space_attempt"), rep({"yaml": text}))
            elif kind == "other-key":
                if same("run_space_launch_id") or not same("run_space_spec_id"):
                    ck.fail_input("C09:launch-id:other-key", "another idempotency key gives the same launch id (or another spec id)", rep({"yaml": text}))
            elif kind == "mutation":
                if same("run_space_spec_id"):
                    ck.fail_input("C09:spec-id:mutation-not-distinguished:" + vname[4:], "single-point mutation %s of the run_space block keeps run_space_spec_id %s"
                                  % (vname[4:], base["run_space_spec_id"][:16]), rep({"yaml": text, "variant": vname}))
                if same("run_space_launch_id"):
                    ck.fail_input("C09:launch-id:mutation-not-distinguished", "same idempotency key, mutated plan (%s): same launch id" % vname, rep({"yaml": text}))
                ins = self.inspect_id(res, vname)
                if paths_agree and ins != st["run_space_spec_id"]:
                    ck.fail_input(SIG_A, "`semantiva inspect` prints %s, trace carries %s (mutation %s)" % (str(ins)[:16], st["run_space_spec_id"][:16], vname),
                                  rep({"yaml": text, "kind": "inspect"}))
            elif kind == "content-changed":
                if not same("run_space_spec_id"):
                    ck.fail_input("C09:spec-id:file-content", "run_space_spec_id changes with the content of a referenced file", rep({"yaml": text}))
                if same("run_space_inputs_id"):
                    ck.fail_input("C09:inputs-id:content-change-not-seen", "content of the referenced file changed, run_space_inputs_id did not", rep({"yaml": text}))
                if same("run_space_launch_id"):
                    ck.fail_input("C09:launch-id:content-change-not-seen", "content of the referenced file changed, idempotency-key launch id did not", rep({"yaml": text}))
                fp0 = (base.get("run_space_input_fingerprints") or [{}])[0]
                fp1 = (st.get("run_space_input_fingerprints") or [{}])[0]
                p = os.path.join(self.d, self.source()["path"])
                if fp0.get("digest", {}).get("sha256") != hashlib.sha256(self.orig).hexdigest():
                    ck.fail_input("C09:inputs-id:fingerprint-digest", "fingerprint digest is not the sha256 of the referenced file", rep({"yaml": text}))
                if fp1.get("digest", {}).get("sha256") == fp0.get("digest", {}).get("sha256"):
                    ck.fail_input("C09:inputs-id:fingerprint-digest", "fingerprint digest unchanged after the file content changed", rep({"yaml": text}))
            elif kind == "both-placements":
                ins = self.inspect_id(res, vname)
                if paths_agree and ins != st["run_space_spec_id"]:
                    ck.fail_input("C09:spec-id:inspect-vs-trace:run_space-at-both-placements",
                                  "run_space both at the top level and under pipeline: (different plans): `semantiva inspect` prints %s, the trace carries %s"
                                  % (str(ins)[:16], st["run_space_spec_id"][:16]), rep({"yaml": text, "kind": "inspect"}))
            # inspect output across cosmetic variants (only meaningful once both paths agree)
            if kind in ("cosmetic", "defaults-explicit", "moved-under-pipeline"):
                ins = self.inspect_id(res, vname)
                if ins != st["run_space_spec_id"]:
                    if paths_agree or (kind == "cosmetic" and ins != base_ins):
                        sig = SIG_A2 if kind == "moved-under-pipeline" and ins == "none" else (SIG_A if paths_agree else "C09:spec-id:inspect:cosmetic-rewrite-changes-id")
                        ck.fail_input(sig, "`semantiva inspect` prints %s for variant %s (%s); trace carries %s, inspect of the base file prints %s"
                                      % (str(ins)[:16], vname, kind, st["run_space_spec_id"][:16], str(base_ins)[:16]), rep({"yaml": text, "kind": "inspect"}))
                    else:
                        stats["id:inspect-differs(%s)-covered-by-F-C09-a" % kind] = stats.get("id:inspect-differs(%s)-covered-by-F-C09-a" % kind, 0) + 1
        # recompute the identifiers from their documented preimages (independent of the implementation's code)
        self.recompute(ck, base, rep)

    def recompute(self, ck, st, rep):
        spec_id = st["run_space_spec_id"]
        key = self.case["launch"][1]
        fps = st.get("run_space_input_fingerprints") or []
        if fps:
            items = sorted(({"role": f["role"], "uri": f["uri"], "sha256": f["digest"]["sha256"], **({"size_bytes": f["size_bytes"]} if "size_bytes" in f else {})}
                            for f in fps), key=lambda e: (e["role"], e["uri"]))
            pre = json.dumps({"spec_id": spec_id, "inputs": items}, separators=(",", ":"), ensure_ascii=False).encode()
            inputs_id = hashlib.sha256(b"semantiva:rsm1:" + pre).hexdigest()
            if inputs_id != st.get("run_space_inputs_id"):
                ck.fail_input("C09:inputs-id:preimage", "run_space_inputs_id is not sha256('semantiva:rsm1:' + canonical(spec id, fingerprints))", rep({}))
        basis = st.get("run_space_inputs_id") or spec_id
        lid = hashlib.sha256(b"semantiva:rsl1:" + basis.encode() + b":" + key.encode()).hexdigest()
        if lid != st["run_space_launch_id"]:
            ck.fail_input("C09:launch-id:preimage", "idempotency-key launch id is not sha256('semantiva:rsl1:' + basis + ':' + key)", rep({}))


# ------------------------------------------------------------------------------------------------
# model side: Gallina literals of one executed case

HEADER = """From Coq Require Import List String ZArith NArith Bool.
From SV Require Import Model.Expr Model.Pipeline Model.Sweep Model.PipelineLib Gen.PipelineGen Model.Launch Gen.LaunchGen.
From SV Require Model.RunSpace Gen.RunSpaceGen.
Import ListNotations. Open Scope string_scope.
Definition cv (v : RunSpace.val) : val := match v with RunSpace.VInt z => VNum z | RunSpace.VStr s => VStr s end.
Definition runs_of (s : RunSpace.spec) : list ctx :=
  match RunSpace.expand RunSpaceGen.impl s with
  | RunSpace.Ok rs => map (map (fun kv => (fst kv, cv (snd kv)))) rs
  | RunSpace.Err _ => []
  end.
Definition I_ := RunSpace.VInt. Definition S_ := RunSpace.VStr.
Definition cases : list lcase := [
%s
].
Eval vm_compute in mismatches impl cases.
"""


class OutOfModel(Exception):
    pass


def num(v):
    """observed JSON number -> integer (the generators only produce integer-valued floats)"""
    if isinstance(v, bool) or not isinstance(v, (int, float)) or v != int(v):
        raise OutOfModel("non-integer value %r" % (v,))
    return int(v)


def val_coq(v):
    if isinstance(v, str):
        return "(VStr %s)" % cq_str(v)
    return "(VNum %s)" % cq_Z(num(v))


def ctx_lit(d):
    return cq_list([cq_pair(cq_str(k), val_coq(v)) for k, v in d.items()])


def rsval(v):
    return "(S_ %s)" % cq_str(v) if isinstance(v, str) else "(I_ %s)" % cq_Z(num(v))


def rsmode(m):
    return {BP: "RunSpace.ByPosition", CB: "RunSpace.Combinatorial"}[m]


def rscols(cols):
    return cq_list([cq_pair(cq_str(k), cq_list([rsval(x) for x in vs])) for k, vs in cols])


def rsspec_coq(spec):
    bl = []
    for b in spec["blocks"]:
        s = b.get("source")
        src = "None"
        if s is not None:
            src = "(Some (RunSpace.mkSource %s %s %s %s))" % (rscols(s["cols"]), cq_opt(s.get("select"), lambda l: cq_list(l, cq_str)),
                                                              cq_list([cq_pair(cq_str(a), cq_str(c)) for a, c in s.get("rename", [])]), rsmode(s["mode"]))
        bl.append("(RunSpace.mkBlock %s %s %s)" % (rsmode(b["mode"]), rscols(b["context"]), src))
    return "(RunSpace.mkSpec %s %s %s)" % (rsmode(spec["combine"]), cq_Z(spec["max_runs"]), cq_list(bl))


def jv_coq(v):
    if v is None:
        return "JNull"
    if isinstance(v, bool):
        return "(JBool %s)" % cq_bool(v)
    if isinstance(v, int):
        return "(JInt %s)" % cq_Z(v)
    if isinstance(v, float):
        return "(JFloat %s)" % cq_Z(num(v))
    if isinstance(v, str):
        if '"' in v or "\\" in v:
            raise OutOfModel("string with quote/backslash")
        return "(JStr %s)" % cq_str(v)
    raise OutOfModel("nested value in a context list")


def raw_coq(rs):
    """the written run_space mapping (python dict in file order) -> Launch.raw literal"""
    fields = []
    for k, v in rs.items():
        if k == "combine":
            fields.append("(RCombine %s)" % cq_str(v))
        elif k == "max_runs":
            fields.append("(RMaxRuns %s)" % cq_Z(v))
        elif k == "dry_run":
            fields.append("(RDryRun %s)" % cq_bool(v))
        elif k == "blocks":
            bl = []
            for b in v:
                bf = []
                for bk, bv in b.items():
                    if bk == "mode":
                        bf.append("(BMode %s)" % cq_str(bv))
                    elif bk == "context":
                        bf.append("(BContext %s)" % cq_list([cq_pair(cq_str(ck), cq_list([jv_coq(x) for x in cv])) for ck, cv in (bv or {}).items()]))
                    elif bk == "source":
                        if bv is None:
                            bf.append("(BSource None)")
                            continue
                        sf = []
                        for sk, sv in bv.items():
                            if sk == "format":
                                sf.append("(SFormat %s)" % cq_str(sv))
                            elif sk == "path":
                                sf.append("(SPath %s)" % cq_str(sv))
                            elif sk == "select":
                                sf.append("(SSelect %s)" % cq_opt(sv, lambda l: cq_list(l, cq_str)))
                            elif sk == "rename":
                                sf.append("(SRename %s)" % cq_list([cq_pair(cq_str(a), cq_str(c)) for a, c in (sv or {}).items()]))
                            elif sk == "mode":
                                sf.append("(SMode %s)" % cq_str(sv))
                            else:
                                raise OutOfModel("source key " + sk)
                        bf.append("(BSource (Some %s))" % cq_list(sf))
                    else:
                        raise OutOfModel("block key " + bk)
                bl.append(cq_list(bf))
            fields.append("(RBlocks %s)" % cq_list(bl))
        else:
            raise OutOfModel("run_space key " + k)
    return cq_list(fields)


def ev_coq(r, node_ids):
    t = r.get("record_type")
    if t == "run_space_start":
        return "(RSStart %s %s %s %s %s %s %s %s)" % (cq_nat(r["seq"]), cq_str(r["run_space_spec_id"]), cq_str(r["run_space_launch_id"]), cq_Z(r["run_space_attempt"]),
                                                       cq_str(r["run_space_combine_mode"]), cq_nat(r["run_space_planned_run_count"]),
                                                       cq_Z(r.get("run_space_max_runs_limit", -1)), cq_opt(r.get("run_space_inputs_id"), cq_str))
    if t == "pipeline_start":
        present = [k in r for k in FK]
        if any(present) and not all(present):
            raise OutOfModel("partial foreign key on pipeline_start")
        fk = "None"
        if all(present):
            fk = "(Some (%s, %s, %s, %s))" % (cq_str(r["run_space_launch_id"]), cq_Z(r["run_space_attempt"]), cq_nat(r["run_space_index"]), ctx_lit(r["run_space_context"]))
        node_ids[r["run_id"]] = [n["node_uuid"] for n in r["pipeline_spec_canonical"]["nodes"]]
        return "(PStart %s %s %s)" % (cq_nat(r["seq"]), cq_str(r["pipeline_id"]), fk)
    if t == "ser":
        ids = node_ids.get(r["identity"]["run_id"], [])
        return "(Ser %s %s)" % (cq_nat(ids.index(r["identity"]["node_id"])), cq_bool(r["status"] == "succeeded"))
    if t == "pipeline_end":
        return "(PEnd %s %s)" % (cq_nat(r["seq"]), cq_bool(r.get("summary", {}).get("status") == "ok"))
    if t == "run_space_end":
        s = r.get("summary", {})
        return "(RSEnd %s %s %s %s %s %s)" % (cq_nat(r["seq"]), cq_str(r["run_space_launch_id"]), cq_Z(r["run_space_attempt"]), cq_nat(s.get("planned_runs", 999)),
                                               cq_nat(s.get("completed_runs", 999)), cq_str(s.get("status", "")))
    raise OutOfModel("record type %r" % t)


class Rec:
    def __init__(self):
        self.starts = []

    def on_pipeline_start(self, pipeline_id, run_id, canonical, meta, pipeline_input=None, **kw):
        self.starts.append(pipeline_id)

    def __getattr__(self, name):
        return lambda *a, **k: None


def plids_of(case, tmp):
    """pipeline ids of the first and of a later traced run of ONE Pipeline object (in-process API, not the CLI)"""
    pg.setup_impl()
    from semantiva.context_processors import ContextType
    from semantiva.pipeline import Payload, Pipeline
    from semantiva.data_types import NoDataType
    cfgs = [node_yaml(n) for n in case["nodes"]]
    rec = Rec()
    p = Pipeline(cfgs, trace=rec)
    ctx = {k: fl(v) for k, v in case.get("cli_ctx", []) + case["runs"][0]}
    ctx["divisor"] = 1.0
    cwd = os.getcwd()
    os.chdir(tmp)
    try:
        for _ in range(2):
            try:
                p.process(Payload(NoDataType(), ContextType(dict(ctx))))
            except Exception:  # noqa - only pipeline_start matters
                pass
    finally:
        os.chdir(cwd)
    if len(rec.starts) != 2:
        raise OutOfModel("in-process probe emitted %d pipeline_start" % len(rec.starts))
    return rec.starts[0], rec.starts[1]


def canonical_texts(rs, paths_agree):
    """canonical RSCF texts of the two paths, from the implementation's own functions (in-process)"""
    from dataclasses import asdict
    from semantiva.configurations.load_pipeline_from_yaml import _parse_run_space_block
    from semantiva.inspection.builder import _compute_run_space_spec_id, _normalize_run_space
    from semantiva.trace.runtime.run_space_identity import RunSpaceIdentityService
    svc = RunSpaceIdentityService()
    rt = svc._rscf_v1(asdict(_parse_run_space_block(rs))).decode()
    ins = rt if paths_agree else json.dumps(_normalize_run_space(rs), separators=(",", ":"), ensure_ascii=False)
    try:
        ins_id = _compute_run_space_spec_id(rs)
    except Exception as ex:  # noqa - the in-process call runs in the harness' working directory
        raise OutOfModel("_compute_run_space_spec_id raised %r in the harness process" % (ex,))
    if hashlib.sha256(b"semantiva:rscf1:" + ins.encode()).hexdigest() != ins_id:
        raise OutOfModel("inspection spec id is not the hash of the expected canonical text (paths_agree=%s)" % paths_agree)
    return rt, ins, ins_id


def fingerprints_of(spec, d):
    from pathlib import Path
    out = []
    for i, b in enumerate(spec["blocks"]):
        s = b.get("source")
        if s is None:
            continue
        p = Path(d, s["path"]).resolve()
        data = p.read_bytes()
        out.append({"role": "block[%d].source" % i, "uri": p.as_uri(), "sha256": hashlib.sha256(data).hexdigest(), "size_bytes": len(data)})
    return out


def ids_of(case, L, rt_text, observed_launch):
    """identifiers recomputed by the harness from the documented preimages"""
    spec_id = hashlib.sha256(b"semantiva:rscf1:" + rt_text.encode()).hexdigest()
    fps = sorted(fingerprints_of(case["spec"], L), key=lambda e: (e["role"], e["uri"]))
    inputs_id = None
    if fps:
        pre = json.dumps({"spec_id": spec_id, "inputs": fps}, separators=(",", ":"), ensure_ascii=False).encode()
        inputs_id = hashlib.sha256(b"semantiva:rsm1:" + pre).hexdigest()
    la = case["launch"]
    if la[0] == "explicit":
        lid = la[1]
    elif la[0] == "idem":
        lid = hashlib.sha256(b"semantiva:rsl1:" + (inputs_id or spec_id).encode() + b":" + la[1].encode()).hexdigest()
    else:
        lid = observed_launch      # fresh uuid: an oracle of the model
    return spec_id, inputs_id, lid


def case_coq(case, ob, tmp, paths_agree):
    L = os.path.join(case["dir"], "launch")
    rs = rs_block_yaml(case["spec"])
    rt, ins, ins_id = canonical_texts(rs, paths_agree)
    obs_launch = ob["starts"][0]["run_space_launch_id"] if ob["starts"] else ""
    spec_id, inputs_id, lid = ids_of(case, L, rt, obs_launch)
    plain, enriched = plids_of(case, tmp)
    # a stateful user operation on a fresh instance is the identity on its first input (data + 0)
    as_model = lambda n: {"k": "add", "cfg": {"addend": 0}} if n["k"] == "accum" else n
    pipe = "(mkPipe %s %s %s)" % (cq_list([pg.node_coq(as_model(n)) for n in case["nodes"]]), cq_str(plain), cq_str(enriched))
    cli_ctx = ctx_lit({k: fl(v) for k, v in case.get("cli_ctx", [])})
    opts = "(mkOpts true %s %s %s %s %s %s %s %s %s)" % (cq_bool(case["trace"] != "none"), cq_bool(case["trace"] == "dir"), cli_ctx, cq_str(lid),
                                                         cq_Z(case["attempt"] or 1), cq_str(spec_id), cq_opt(inputs_id, cq_str), cq_str(case["spec"]["combine"]),
                                                         cq_Z(case["spec"]["max_runs"]))
    node_ids = {}
    files = []
    for kind, recs, _ in ob["files"]:
        fk = {"single": "FSingle", "runspace": "FRunSpace", "ser": "FSer"}.get(kind)
        if fk is None:
            raise OutOfModel("unexpected trace file " + kind)
        # pipeline_start precedes its SERs inside every file
        files.append(cq_pair(fk, cq_list([ev_coq(r, node_ids) for r in recs])))
    results = []
    for r in ob["results"]:
        results.append(None if r is None else num(float(r.strip())))
    return "(mkCase %s %s (runs_of %s) %s %s %s %s %s %s)" % (
        pipe, opts, rsspec_coq(case["spec"]), cq_Z(ob["rc"]), cq_list(files), cq_list([cq_opt(r, cq_Z) for r in results]),
        raw_coq(rs), cq_str(rt), cq_str(ins)), {"inspect_id_in_process": ins_id, "spec_id": spec_id, "inputs_id": inputs_id, "launch_id": lid}


# ------------------------------------------------------------------------------------------------
# the check

def read_facts():
    txt = open(os.path.join(core.COQ, "Gen", "LaunchGen.v")).read()
    f = {k: (re.search(r"Definition %s : bool := (true|false)\." % k, txt) or [None, "false"])[1] == "true"
         for k in ("spec_id_paths_agree", "stop_after_failure", "enrich_on_copy")}
    f["translation_failed"] = "launch_translation_failed := true" in txt
    return f


MIN_A = {"nodes": [{"k": "src"}, {"k": "template", "segs": [["lit", "out_"], ["hole", "value"], ["lit", ".txt"]], "out": "path"}, {"k": "sink"}],
         "spec": {"combine": CB, "max_runs": 1000, "blocks": [{"mode": BP, "context": [["value", [1, 2]]], "source": None}], "written": {}},
         "tkeys": ["value"], "cli_ctx": [], "trace": "file", "launch": ("explicit", "L-min-a"), "attempt": None, "rs_under_pipeline": False,
         "trace_in_yaml": None, "fail_at": None}
MIN_B = {"nodes": [{"k": "sweep", "elem": "src", "vars": [["t", ["seq", [1, 2]]]], "exprs": [["value", ("var", "t")]], "mode": "combinatorial", "broadcast": False},
                   {"k": "csum"}, {"k": "template", "segs": [["lit", "out_"], ["hole", "value"], ["lit", ".txt"]], "out": "path"}, {"k": "sink"}],
         "spec": {"combine": CB, "max_runs": 1000, "blocks": [{"mode": BP, "context": [["value", [1, 2]]], "source": None}], "written": {}},
         "tkeys": ["value"], "cli_ctx": [], "trace": "file", "launch": ("explicit", "L-min-b"), "attempt": None, "rs_under_pipeline": False,
         "trace_in_yaml": None, "fail_at": None}


def load_corpus():
    out = []
    for p in sorted(glob.glob(os.path.join(core.ROOT, "corpus", "C09", "*.json"))):
        out.append((os.path.basename(p), json.load(open(p))))
    return out


def fix_tuples(case):
    case = copy.deepcopy(case)
    case["launch"] = tuple(case["launch"])
    for n in case["nodes"]:
        if n.get("k") == "sweep":
            n["exprs"] = [[a, to_tuple(e)] for a, e in n["exprs"]]
    return case


def to_tuple(e):
    return tuple(to_tuple(x) if isinstance(x, list) and x and isinstance(x[0], str) and x[0] in ("var", "const", "un", "bin", "call") else x for x in e)


STATEFUL_HEADER = """From Coq Require Import List ZArith Bool.
From SV Require Import Model.Stateful Gen.OrchestratorGen.
Import ListNotations. Open Scope Z_scope.
Definition cases : list scase := [
%s
].
Eval vm_compute in sbad fresh_nodes_per_run cases 0%%nat.
"""


def stateful_correspondence(ck, rng, n):
    """Model/Stateful.v against the implementation: pipelines of stateful / stateless / failing user operations run several
    times on ONE Pipeline object (what a launch does); the outputs of every run are compared inside Coq with
    `runs fresh_nodes_per_run`.  Direct oracle on top: every run equals a standalone run on a fresh Pipeline."""
    from semantiva.context_processors import ContextType
    from semantiva.examples.test_utils import FloatDataType
    from semantiva.pipeline import Payload, Pipeline
    from harness.lib import components as C
    lits, infos = [], []
    for t in range(n):
        codes, cfg = [], []
        for _ in range(rng.randint(1, 4)):
            r = rng.random()
            if r < 0.45:
                codes.append("NAcc")
                cfg.append({"processor": C.VerifAccumulateOperation})
            elif r < 0.8:
                k = rng.randint(1, 3)
                codes.append("(NTimes %d)" % k)
                cfg.append({"processor": "FloatMultiplyOperation", "parameters": {"factor": float(k)}})
            else:
                b = rng.choice([2, 4, 6])
                codes.append("(NFail %d)" % b)
                cfg.append({"processor": C.VerifFailOnOperation, "parameters": {"bad": float(b)}})
        ds = [rng.choice([1, 2, 3, 4, 6]) for _ in range(rng.randint(2, 5))]

        def outs(pipe_factory):
            got = []
            for d in ds:
                try:
                    out = pipe_factory().process(Payload(FloatDataType(float(d)), ContextType({})))
                    v = out.data.data
                    got.append(int(v) if float(v) == int(v) else v)
                except Exception:  # noqa
                    got.append(None)
            return got
        one = Pipeline([dict(c) for c in cfg])
        reused = outs(lambda: one)
        alone = outs(lambda: Pipeline([dict(c) for c in cfg]))
        if any(isinstance(v, float) for v in reused + alone):
            continue
        rep = {"kind": "stateful", "nodes": codes, "inputs": ds, "reused_pipeline_outputs": reused, "standalone_outputs": alone}
        if reused != alone:
            ck.fail_input("C09:runs-on-one-pipeline-object-differ-from-standalone-runs:stateful-component",
                          "runs %s on one Pipeline object return %s; standalone runs return %s (a component keeps state on its instance)"
                          % (ds, reused, alone), rep)
        lits.append("(%s, %s, %s)" % (cq_list(codes), cq_list(ds, cq_Z), cq_list(["None" if v is None else "(Some %s)" % cq_Z(v) for v in reused])))
        infos.append(rep)
    per, errs = core.mismatches("C09_stateful", [STATEFUL_HEADER % ";\n".join(lits)], timeout=300)
    for k, rc, out in errs:
        ck.corr_problem("stateful correspondence shard did not evaluate (rc=%s)" % rc, out)
    bad = per[0][0] if per and per[0] is not None else []
    for b in bad[:4]:
        ck.corr_problem("Model/Stateful.v and the implementation disagree on the runs of one Pipeline object", json.dumps(infos[b]), case=infos[b])
    ck.cov["evaluations"] = ck.cov.get("evaluations", 0) + 2 * sum(len(i["inputs"]) for i in infos)
    return {"cases": len(lits), "disagreements": len(bad), "with_stateful_node": sum(1 for i in infos if "NAcc" in i["nodes"])}


def run(ck):
    rng = random.Random(ck.seed * 104729 + 9)
    thorough = ck.tier == "thorough"
    gen = run_all(["launch", "run_space", "pipeline", "orchestrator"])
    ck.build_models(["Model/PipelineLib.v", "Gen/PipelineGen.v", "Gen/RunSpaceGen.v", "Model/Launch.v", "Gen/LaunchGen.v",
                     "Model/Stateful.v", "Gen/OrchestratorGen.v"])
    proved = ck.prove(gen_results={"launch": gen["launch"], "orchestrator": gen["orchestrator"]})
    if thorough and proved:
        ck.coqchk()
    facts = read_facts()
    ck.notes["generated_facts"] = facts
    pg.setup_impl()
    ck.notes["inprocess_launches"] = inprocess_launches(ck)
    ck.notes["stateful_runs"] = stateful_correspondence(ck, rng, 60 if thorough else 16)
    root = tempfile.mkdtemp(prefix="c09_", dir=os.environ.get("TMPDIR", "/tmp"))
    try:
        _run(ck, rng, thorough, facts, root)
    finally:
        shutil.rmtree(root, ignore_errors=True)


def _run(ck, rng, thorough, facts, root):
    stats = {}
    cases = []
    for name, c in load_corpus():
        cases.append(("corpus:" + name, fix_tuples(c), True))
    cases.append(("min_a", copy.deepcopy(MIN_A), True))
    cases.append(("min_b", copy.deepcopy(MIN_B), True))
    cases.append(("min_a2", dict(copy.deepcopy(MIN_A), rs_under_pipeline=True, launch=("explicit", "L-min-a2")), False))
    # a DECLARED run space without blocks (`run_space: {blocks: []}`, `run_space: {max_runs: 25}`): a launch of one run with an
    # empty run context -- bracketed, linked and inspected like any other launch
    for bi, written in enumerate(({"combine": False, "max_runs": False, "dry_run": False, "blocks": True}, {"combine": False, "max_runs": True, "dry_run": False, "blocks": False},
                                 {"combine": False, "max_runs": False, "dry_run": False, "blocks": False})):      # the last one is `run_space: {}`
        c = {"nodes": [{"k": "src", "cfg": {"value": 2}}, {"k": "mul", "cfg": {"factor": 3}},
                       {"k": "template", "segs": [["lit", "out_"], ["hole", "extra"], ["lit", ".txt"]], "out": "path"}, {"k": "sink"}],
             "spec": {"combine": CB, "max_runs": 25 if written["max_runs"] else 1000, "blocks": [], "written": written},
             "tkeys": ["extra"], "cli_ctx": [["extra", 5]], "trace": "dir" if bi else "file", "launch": ("explicit", "L-blockless-%d" % bi) if bi else ("generated",),
             "attempt": None, "rs_under_pipeline": False, "trace_in_yaml": None, "fail_at": None, "src_key": None}
        cases.append(("blockless%d" % bi, c, True))
    n_gen = 60 if thorough else 5
    for i in range(n_gen):
        cases.append(("gen%d" % i, gen_case(rng), True))
    # a failing run at every index (and beyond the end: no failure), file and directory output
    for n in ((2, 3, 4) if thorough else (3,)):
        for k in range(n):
            c = gen_case(rng, n_runs=n, fail_at=k, sweep=False if not thorough else None)
            c["trace"] = "dir" if (k + n) % 2 else "file"
            cases.append(("fail%d_%d" % (n, k), c, thorough or k == 1))
    if thorough:
        for i in range(12):
            c = gen_case(rng)
            c["trace"] = "none"
            cases.append(("untraced%d" % i, c, True))
    jobs = Jobs()
    for idx, (name, c, standalone) in enumerate(cases):
        prepare(c, root, jobs, "k%d" % idx, standalone=standalone)
    fams = [IdFamily(rng, root, "fam%d" % i, with_source=(i % 3 != 2)) for i in range(8 if thorough else 1)]
    for f in fams:
        f.phase1(jobs, n_cosmetic=(4 if thorough else 2), n_mut=(99 if thorough else 4))
    ck.log("running %d CLI invocations (phase 1)" % len(jobs.jobs))
    res = jobs.run()
    n_cli = len(jobs.jobs)
    for ph in ("phase2", "phase3"):
        j2 = Jobs()
        for f in fams:
            getattr(f, ph)(j2)
        res.update(j2.run())
        n_cli += len(j2.jobs)
    ck.log("CLI invocations done: %d" % n_cli)

    bracket_edge_oracle(ck, root, stats)
    lits, meta = [], []
    shapes = {}
    nontrivial = set()
    for idx, (name, c, standalone) in enumerate(cases):
        key = "k%d" % idx
        ob = observe(c, res, key)
        sobs = {i: observe_standalone(c, res, key, i) for i in range(len(c["runs"]))} if standalone else {}
        oracles(ck, c, ob, sobs, stats)
        sh = "%s/%s/%s/%s%s%s" % (c["trace"], c["launch"][0], "attempt" if c["attempt"] else "default-attempt", "sweep/" if has_sweep(c) else "",
                                  "fail@%s/" % c["fail_at"] if c["fail_at"] is not None else "", "source" if any(b.get("source") for b in c["spec"]["blocks"]) else "")
        shapes[sh] = shapes.get(sh, 0) + 1
        if len(c["runs"]) >= 2:
            nontrivial.add(json.dumps([c["nodes"], c["spec"], c["trace"], c["launch"][0], c["attempt"]], sort_keys=True, default=str))
        if c["trace"] == "none":
            continue
        try:
            lit, info = case_coq(c, ob, root, facts["spec_id_paths_agree"])
        except OutOfModel as ex:
            stats["out_of_model"] = stats.get("out_of_model", 0) + 1
            ck.notes.setdefault("out_of_model", []).append("%s: %s" % (name, ex))
            continue
        lits.append(lit)
        meta.append((name, c))
        if len(ck.cov["samples"]) < 4:
            ck.cov["samples"].append({"yaml": dump(doc_yaml(c)), "exit": ob["rc"], "record_types": [r.get("record_type") for r in ob["records"]][:14],
                                      "results": ob["results"], "ids": info})
    for f in fams:
        f.check(ck, res, stats, facts["spec_id_paths_agree"])

    # stored failing inputs of facts that are false on this tree must reproduce (they run as min_a / min_b above)
    sigs = {f["signature"] for f in ck.failing}
    if not facts["spec_id_paths_agree"] and SIG_A not in sigs:
        ck.corr_problem("generated fact spec_id_paths_agree=false but the stored failing input (min_a) does not fail", json.dumps(MIN_A))
    if not facts["enrich_on_copy"] and SIG_B not in sigs:
        ck.corr_problem("probed fact enrich_on_copy=false but the stored failing input (min_b) does not fail", json.dumps(MIN_B, default=str))

    # model vs implementation inside Coq; the last case of every shard is a canary that must mismatch
    per_shard = 40
    shards, spans = [], []
    for i in range(0, len(lits), per_shard):
        chunk = lits[i:i + per_shard]
        canary = re.sub(r"\(mkCase (.*) (\(?-?\d+\)?%Z) \[", lambda m: "(mkCase %s (77)%%Z [" % m.group(1), chunk[0], count=1, flags=re.S)
        shards.append(HEADER % ";\n".join(chunk + [canary]))
        spans.append((i, len(chunk)))
    per, errs = core.mismatches("C09", shards, timeout=900)
    agreed = 0
    for k, ls in enumerate(per):
        if ls is None:
            continue
        start, n = spans[k]
        bad = ls[0]
        if n not in bad:
            ck.corr_problem("canary case of shard %d was not reported as a mismatch (comparison is not live)" % k, "")
        bad = [b for b in bad if b != n]
        agreed += n - len(bad)
        for b in bad[:4]:
            name, c = meta[start + b]
            ck.corr_problem("Impl.launch prediction (exit code, per-file record skeleton with seq / FK / counts, results, canonical RSCF texts) "
                            "differs from what the CLI left behind", "case %s" % name, case=replay_of(c))
    for k, rc, out in errs:
        ck.corr_problem("correspondence shard %d did not evaluate (rc=%s)" % (k, rc), out)
    ck.cov["traces_validated_against_impl"] = agreed
    ck.cov["evaluations"] = n_cli
    ck.cov["distinct_nontrivial"] = len(nontrivial)
    ck.cov["rule"] = ("evaluations = `semantiva run` / `semantiva inspect` subprocess invocations (launches, standalone runs with --context, inspect, "
                      "identifier families); non-trivial = distinct (pipeline, run_space, trace output, launch-id option, attempt) launches with at least "
                      "two planned runs (measured); launches compared with Impl.launch inside Coq: %d; direct-oracle statistics: %s" % (len(lits), stats))
    ck.notes["launch_shapes"] = dict(sorted(shapes.items()))
    ck.notes["input_distribution"] = ("pipelines: FloatValueDataSource (or a source sweep + FloatCollectionSumOperation, 35%) -> multiply/add/square "
                                      "(parameters from the run context or the node) [-> FloatDivideOperation with a per-run divisor for failing runs] -> "
                                      "template file name from the run's keys -> FloatTxtFileSaver; run spaces: 1-2 context blocks (+ csv/json source block 30%), "
                                      "by_position / combinatorial at block and combine level, 2-4 runs, keys declared in random order, defaults written or not, "
                                      "20% under `pipeline:`; file / directory trace output; explicit / idempotency-key / generated launch id; attempt unset/1/2/3; "
                                      "30% with an extra --context pair")
    ck.notes["observation"] = ("directory output: the driver is closed after every run, so run_space_end is appended to a run-space file opened anew "
                                "(`<second>_runspace-<id>.trace.jsonl`); when the launch crosses a second boundary start and end land in two files. The harness "
                                "merges run-space files; the model has one logical run-space file.")
    ck.cov["trusted_base"] = TRUSTED
    ck.log("correspondence: %d/%d launches agree; %d CLI invocations; stats %s" % (agreed, len(lits), n_cli, stats))


def inprocess_launches(ck):
    """Several launches in ONE process (re-submission with the same launch id / idempotency key): every launch
    must still be bracketed by exactly one run_space_start (first) and one run_space_end (last), and ids from an
    idempotency key must be reproducible."""
    env = dict(os.environ)
    env.update({"PYTHONPATH": core.REPO, "PYTHONHASHSEED": "0", "PYTHONDONTWRITEBYTECODE": "1"})
    try:
        p = subprocess.run([core.PY, os.path.join(core.ROOT, "harness", "lib", "c09_inprocess.py")], env=env, cwd="/tmp",
                           stdout=subprocess.PIPE, stderr=subprocess.PIPE, text=True, timeout=300)
        res = json.loads(p.stdout)
    except Exception as ex:  # noqa
        ck.corr_problem("in-process launches did not run", repr(ex))
        return 0
    by_label = {}
    for r in res:
        want = ["run_space_start"] + ["pipeline_start", "pipeline_end"] * r["planned"] + ["run_space_end"]
        if r["exit"] != 0 or r["lifecycle"] != want:
            ck.fail_input("C09:bracket:repeated-launch-in-one-process:%s" % r["label"],
                          "launch %d (%s) in a process that already ran launches: lifecycle %s, expected %s (exit %s)"
                          % (r["launch"], r["label"], r["lifecycle"], want, r["exit"]), {"kind": "inprocess", "launches": res})
        by_label.setdefault((r["label"]), []).append(r["launch_ids"])
    if len({json.dumps(x) for x in by_label.get("key", [])}) > 1:
        ck.fail_input("C09:launch-id:idempotency-key-not-reproducible-in-one-process", "launch ids %s" % by_label["key"], {"kind": "inprocess", "launches": res})
    gen = by_label.get("generated", [])
    if len(gen) == 2 and gen[0] == gen[1]:
        ck.fail_input("C09:launch-id:generated-ids-repeat", "two generated launch ids are equal: %s" % gen, {"kind": "inprocess", "launches": res})
    return len(res)


def replay(obj):
    r = obj["replay"]
    root = tempfile.mkdtemp(prefix="c09_replay_")
    try:
        if r.get("kind") == "ids":
            d = os.path.join(root, "w")
            os.makedirs(d)
            print("base file:\n" + r["base_yaml"])
            print("variant:\n" + r.get("yaml", ""))
            return 0
        case = fix_tuples({k: r[k] for k in ("nodes", "spec", "tkeys", "cli_ctx", "trace", "launch", "attempt", "rs_under_pipeline", "trace_in_yaml", "fail_at")})
        jobs = Jobs()
        prepare(case, root, jobs, "r", standalone=True)
        res = jobs.run()
        ob = observe(case, res, "r")
        print(r["yaml"])
        print("exit code:", ob["rc"], ob["stderr"])
        print("inspect prints run-space spec id :", ob.get("inspect_spec_id"))
        print("run_space_start carries           :", [s.get("run_space_spec_id") for s in ob["starts"]])
        print("pipeline ids of the launch's runs :", [run[0].get("pipeline_id") for run in ob["runs"]])
        for i in range(len(case["runs"])):
            so = observe_standalone(case, res, "r", i)
            ps = [x for x in so["records"] if x.get("record_type") == "pipeline_start"]
            print("standalone run %d: exit %s result %r pipeline_id %s" % (i, so["rc"], so["result"], ps[0]["pipeline_id"] if ps else None))
        print("run_space_end summaries:", [e.get("summary") for e in ob["ends"]], "results:", ob["results"])
        bad = (ob.get("inspect_spec_id") not in [s.get("run_space_spec_id") for s in ob["starts"]]) or len({run[0].get("pipeline_id") for run in ob["runs"]}) > 1
        return 1 if bad else 0
    finally:
        shutil.rmtree(root, ignore_errors=True)


TRUSTED = [
    "Coq 8.16.1 kernel (coqc), vm_compute; no native_compute",
    "model coq/Model/Launch.v over Model/Pipeline.v + Model/PipelineLib.v (node execution, C01) and Model/RunSpace.v (expansion, C08), instantiated with "
    "Gen/LaunchGen.v; enrich_on_copy is a PROBED fact, spec_id_paths_agree is read statically and cross-checked by a probe",
    "translator harness/translate/launch.py (fail closed): try/for arrangement of cli._run, FK keys of orchestrator + JSONL driver, create_launch chain, RSCF/RSM shape",
    "hashes are Section variables; in the shards pipeline ids are the in-process ids of the first / a later traced run of one Pipeline object, the run-space "
    "spec id / inputs id / idempotency launch id are recomputed by the harness with hashlib from the documented preimages (canonical texts compared inside Coq)",
    "the CLI harness: YAML writer, subprocess runner, trace reader (run-space files of a directory are merged by seq; SER records are grouped by run id)",
    "modelled not verified: PyYAML, json.dumps on floats/ASCII strings, csv/json source loading (columns given to the model as written), file system, uuid generation "
    "(generated launch ids enter the model as observed)",
]
FINISH = {"level": "proof", "assumptions": [
    "hash functions are deterministic functions of their preimage (Section variables H, HJ, HS); HJ hashes the canonical JSON value (JSON lexical unambiguity trusted)",
    "run-space configurations are mappings with unique keys whose context values are scalars; mode strings are written in lower case",
    "runtime failures of a run are exceptions of class Exception (KeyboardInterrupt is outside the model)",
    "component arithmetic is exact on the integer-valued floats the generators produce"]}
