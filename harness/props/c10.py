"""C10 -- Tracing is purely observational and traces are reproducible.

proof side : Properties/C10.v over Model/Trace.v (trace-side operation that can raise: json serialisation of sweep
             metadata; shared canonical spec enriched after hashing)
tie        : Gen/OrchestratorGen.v (metadata_json_safe, pipeline_id_stable probed; handlers re-raise from the AST) +
             differential execution: first and second traced run of one Pipeline object compared inside Coq with
             execute_traced (e_prior = false / true)
search     : every case is run untraced, traced at every detail level (outcome, exception type and message must be
             those of the untraced run), then again with a fresh Pipeline object after a random history of other
             traced and untraced pipelines in the same interpreter (normalised traces must be equal), then a second
             time on the same Pipeline object (normalised traces must be equal).
"""
from __future__ import annotations

import collections
import json
import random

from harness.lib import pipegen as pg
from harness.lib import tracelib as tl

SIG_A = "C10:traced-run-raises-untraced-succeeds:non-json-sweep-metadata"
SIG_R = "C10:reused-pipeline-object-with-sweep:pipeline_id-differs-between-runs"


def same_outcome(po, pe, r):
    if po[0] == "unsupported" and pe is None:
        # the run returned values outside the model's value universe (e.g. dates published by a sweep): compare
        # returned-vs-raised and the returned objects' repr only
        return r.exc is None
    if r.outcome != po:
        return False
    if (pe is None) != (r.exc is None):
        return False
    return pe is None or (type(pe) is type(r.exc) and str(pe) == str(r.exc))


def has_sweep(c):
    return any(n["k"] in ("sweep", "datesweep") for n in c["nodes"])


def run(ck):
    facts = tl.setup_check(ck)
    thorough = ck.tier == "thorough"
    rng = random.Random(ck.seed * 4409 + 10)
    stats = {}
    corpus = tl.load_corpus("C10")
    cases = list(corpus)
    for _ in range(120 if thorough else 22):
        nodes, data0, ctx0 = tl.gen_base(rng, stats, maxlen=6)
        cases.append({"nodes": nodes, "data0": data0, "ctx0": ctx0, "kind": "none", "index": None})
    # non-finite parameter values (legal floats; outside the model's integers, so the direct oracle alone judges them):
    # what is recorded about them must not change what the run returns
    for key, node in (("factor", {"k": "mul"}), ("addend", {"k": "add"})):
        for v in (float("inf"), float("nan"), float("-inf")):
            cases.append({"nodes": [{"k": "src", "cfg": {"value": 1}}, node, {"k": "probe", "ckey": "k"}], "data0": None,
                          "ctx0": {key: v}, "kind": "none", "index": None})
    cases += tl.failure_cases(rng, 10 if thorough else 3, stats, maxlen=4, every_index=thorough)
    history_pool = [tl.gen_base(rng, stats, maxlen=4) for _ in range(12)]
    texts, kept, reported = [], [], {}
    counts = collections.Counter()
    runs = 0

    def report(sig, c, r, text, **extra):
        counts["finding:" + sig] += 1
        if sig not in reported or len(c["nodes"]) < len(reported[sig][0]["nodes"]):
            reported[sig] = (c, r, text, extra)

    for i, c in enumerate(cases):
        po, pe, _ = tl.run_plain(c["nodes"], c["data0"], c["ctx0"])
        counts["outcome:" + po[0]] += 1
        first = {}
        # (1) transparent at every detail level
        for detail in tl.DETAILS:
            r = tl.run_traced(c["nodes"], c["data0"], c["ctx0"], detail=detail, mode=tl.MODES[(i + len(detail)) % 2], keep_dir=True)
            r.case = c
            runs += 1
            first[detail] = r
            if not same_outcome(po, pe, r):
                opaque = any(tl.node_meta(n) == "MOpaque" for n in c["nodes"])
                if opaque and r.outcome[0] == "tfailed" and "not JSON serializable" in str(r.exc):
                    report(SIG_A, c, r, "untraced run: %s; traced (detail=%s) raises %s: %s" % (po[0], detail, type(r.exc).__name__, str(r.exc)[:120]))
                else:
                    report("C10:traced-outcome-differs-from-untraced:%s->%s" % (po[0], r.outcome[0]), c, r,
                           "untraced %s, traced (detail=%s) %s" % (list(po)[:4], detail, list(r.outcome)[:4]))
        # (2) a second run of the same configuration after a random history, fresh Pipeline object and driver
        detail = tl.DETAILS[i % 4]
        for _ in range(rng.randint(1, 4)):
            hn, hd, hc = rng.choice(history_pool)
            if rng.random() < 0.6:
                tl.run_traced(hn, hd, hc, detail=rng.choice(tl.DETAILS), mode=rng.choice(tl.MODES))
            else:
                tl.run_plain(hn, hd, hc)
        a = first[detail]
        b = tl.run_traced(c["nodes"], c["data0"], c["ctx0"], detail=detail, mode=a.mode)
        b.case = c
        runs += 1
        na, nb = tl.normalise(a.records), tl.normalise(b.records)
        d = tl.first_diff(na, nb)
        if d is not None or a.outcome != b.outcome:
            report("C10:trace-differs-after-history:%s" % tl.generic_path(d), c, b, "normalised traces of two runs differ at %s" % d)
        # (3) the same Pipeline object and driver again
        c2 = tl.run_traced(c["nodes"], c["data0"], c["ctx0"], detail=detail, mode=a.mode, pipe=a.pipe, driver=a.driver, path=a.path)
        c2.case = c
        runs += 1
        nc = tl.normalise(c2.records)
        d2 = tl.first_diff(na, nc)
        pid_a = [x.get("pipeline_id") for x in a.records if x.get("record_type") == "pipeline_start"]
        pid_c = [x.get("pipeline_id") for x in c2.records if x.get("record_type") == "pipeline_start"]
        pid_same = (pid_a == pid_c)
        if d2 is not None:
            if not pid_same and has_sweep(c):
                report(SIG_R, c, c2, "second traced run of one Pipeline object: pipeline_id %s, first run %s (normalised traces differ at %s)"
                       % (pid_c, pid_a, d2))
            else:
                report("C10:trace-differs-on-second-run-of-pipeline-object:%s" % tl.generic_path(d2), c, c2,
                       "normalised traces of the 1st and 2nd run of one Pipeline object differ at %s" % d2)
        for r in first.values():
            import shutil
            if r.own_dir:
                shutil.rmtree(r.own_dir, ignore_errors=True)
        # correspondence: first run, and second run of the same object
        for r, prior, same in ((a, False, True), (c2, True, pid_same)):
            if r.outcome[0] == "unsupported":
                continue
            if prior and any(tl.node_meta(n) == "MOpaque" for n in c["nodes"]):
                # F-C04-b + F-C10-a combined: the spec enriched in place with non-JSON metadata makes the second run
                # raise while hashing the pipeline id, before pipeline_start; not modelled (both root causes are reported)
                counts["not-in-model:second-run-with-non-json-enriched-spec"] += 1
                continue
            try:
                texts.append(tl.case_coq(c["nodes"], c["data0"], c["ctx0"], r, prior=prior, pid_same=same))
                kept.append((c, r, prior))
            except pg.Unsupported as u:
                counts["not-in-model:" + str(u)[:40]] += 1
            except Exception as ex:  # noqa - a record the model's literal language cannot name (an unknown enum value, ...):
                # the direct oracles above have judged the run; the model comparison of this case is reported as not made
                ck.corr_problem("a traced run could not be written as a model case (%s)" % type(ex).__name__, repr(ex)[:300])
    runs += unusual_context_oracle(ck, report)
    runs += feedback_oracle(ck, report, rng, 12 if thorough else 4)
    runs += after_failed_run_oracle(ck)
    runs += metadata_history_oracle(ck)
    runs += shared_orchestrator_overlap_oracle(ck, 90 if thorough else 40)
    bad, errs = tl.evaluate("C10", texts)
    for k, rc, out in errs:
        ck.corr_problem("correspondence shard %d did not evaluate (rc=%s)" % (k, rc), out)
    for b in bad[:10]:
        c, r, prior = kept[b]
        ck.corr_problem("traced executor model and implementation disagree (%s run, outcome %s)" % ("second" if prior else "first", r.outcome[0]),
                        json.dumps(tl.replay_obj(c, r), default=str)[:1500], case=tl.replay_obj(c, r))
    for sig, (c, r, text, extra) in sorted(reported.items()):
        ck.fail_input(sig, text, tl.replay_obj(c, r, problem=text, **extra))
    need = {SIG_A: not facts.get("metadata_json_safe", False), SIG_R: not facts.get("pipeline_id_stable", False)}
    for s, wanted in need.items():
        if wanted and s not in reported:
            ck.corr_problem("probed fact says the defect %s is present but the stored failing input does not reproduce it" % s, "")
        if not wanted and s in reported:
            ck.corr_problem("probed fact says the defect %s is repaired but a run still shows it" % s, "")
    ck.cov["evaluations"] = runs
    ck.cov["traces_validated_against_impl"] = len(texts) - len(bad)
    ck.cov["distinct_nontrivial"] = len(set(json.dumps([c["nodes"], c["data0"], c["ctx0"]], sort_keys=True, default=str)
                                            for c, r, p in kept if len(c["nodes"]) >= 2 or has_sweep(c)))
    ck.cov["rule"] = ("per case: 1 untraced + 4 traced runs (detail hash/repr/context/all) + 1 traced run with a fresh Pipeline after a "
                      "random history of 1-4 other traced/untraced pipelines + 1 traced run on the same Pipeline object; cases = corpus + "
                      "generated pipelines (succeeding and failing) + injected failures; non-trivial = >= 2 nodes or a sweep node")
    ck.cov["samples"] = [tl.replay_obj(c, r) for c, r, p in kept[:4]]
    ck.notes["distribution"] = dict(sorted(counts.items()))
    ck.notes["generator_distribution"] = dict(sorted(stats.items()))
    ck.cov["trusted_base"] = TRUSTED
    ck.log("runs %d, compared in Coq %d (disagreements %d), findings %s" % (runs, len(texts), len(bad), sorted(reported)))


def _outcome(fn):
    try:
        out = fn()
        return ("returned", repr(getattr(out.data, "data", out.data))[:80], sorted(map(repr, out.context.to_dict()))[:20])
    except BaseException as ex:  # noqa
        if isinstance(ex, KeyboardInterrupt):
            raise
        return ("raised", type(ex).__name__)


def unusual_context_oracle(ck, report):
    """Direct oracle: context contents that are unusual but accepted (keys of unorderable types, very deep nesting, a value whose
    repr raises).  Whatever the run does untraced -- return or raise -- it must do traced, at every detail level."""
    import os, shutil, tempfile
    from semantiva.context_processors import ContextType
    from semantiva.pipeline import Payload, Pipeline
    from semantiva.trace.drivers.jsonl import JsonlTraceDriver
    from harness.lib import components as C
    pg.setup_impl()
    scen = {
        "mixed-type-keys": ([{"processor": "FloatValueDataSource", "parameters": {"value": 2.0}}, {"processor": C.VerifMixedKeysContextProcessor},
                             {"processor": "FloatMultiplyOperation", "parameters": {"factor": 3.0}}], {}),
        "deep-tree-replaced": ([{"processor": "FloatValueDataSource", "parameters": {"value": 2.0}}, {"processor": C.VerifDeepTreeContextProcessor},
                                {"processor": "FloatMultiplyOperation", "parameters": {"factor": 3.0}}], {"tree": C._nested(5000, 1)}),
        "deep-tree-created": ([{"processor": "FloatValueDataSource", "parameters": {"value": 2.0}}, {"processor": C.VerifDeepTreeContextProcessor}], {}),
        "data-len-raises": ([{"processor": C.make_odd_source("raises")}], {}),
        "data-len-overflows": ([{"processor": C.make_odd_source("huge")}], {}),
        "repr-raises": ([{"processor": "FloatValueDataSource", "parameters": {"value": 2.0}}, {"processor": C.VerifUnhashableReprContextProcessor},
                         {"processor": "FloatMultiplyOperation", "parameters": {"factor": 3.0}}], {}),
    }
    scen["failing-node-after-writing-unorderable-keys"] = ([{"processor": "FloatValueDataSource", "parameters": {"value": 2.0}},
                                                            {"processor": C.VerifMixedKeysThenFailContextProcessor}], {})
    scen["exception-whose-text-cannot-be-produced"] = ([{"processor": "FloatValueDataSource", "parameters": {"value": 2.0}},
                                                        {"processor": C.VerifUnprintableRaisingOperation}], {})
    scen["dict-subclass-as-parameter"] = ([{"processor": "FloatValueDataSource", "parameters": {"value": 2.0}}, {"processor": C.VerifNoteOperation}],
                                          {"note": C.VerifOddDict()})
    for kind in C.VALUE_KINDS:
        scen["value-under-own-key:" + kind] = ([{"processor": "FloatValueDataSource", "parameters": {"value": 2.0}}, {"processor": C.make_value_writer(kind)},
                                                 {"processor": "FloatMultiplyOperation", "parameters": {"factor": 3.0}}], {})
        scen["value-as-parameter:" + kind] = ([{"processor": "FloatValueDataSource", "parameters": {"value": 2.0}}, {"processor": C.make_value_writer(kind, "note")},
                                                {"processor": C.VerifNoteOperation}, {"processor": "FloatMultiplyOperation", "parameters": {"factor": 3.0}}], {})
        scen["value-in-initial-context:" + kind] = ([{"processor": "FloatValueDataSource", "parameters": {"value": 2.0}}, {"processor": C.VerifNoteOperation}],
                                                     {"note": C.unusual_value(kind), "zz": C.unusual_value(kind)})
    for exc in ("KeyError", "VerifMissingField", "ValueError", "IndexError", "StopIteration", "OSError"):
        scen["exception-without-arguments:" + exc] = ([{"processor": "FloatValueDataSource", "parameters": {"value": 2.0}}, {"processor": C.make_raising_noargs(exc)},
                                                       {"processor": "FloatMultiplyOperation", "parameters": {"factor": 3.0}}], {})
    n = 0
    for name, (cfg, ctx0) in scen.items():
        plain = _outcome(lambda: Pipeline([dict(c) for c in cfg]).process(Payload(None, ContextType(dict(ctx0)))))
        for detail in tl.DETAILS:
            d = tempfile.mkdtemp(prefix="verif_c10_")
            try:
                drv = JsonlTraceDriver(os.path.join(d, "t.ser.jsonl"), detail=detail)
                traced = _outcome(lambda: Pipeline([dict(c) for c in cfg], trace=drv).process(Payload(None, ContextType(dict(ctx0)))))
            finally:
                shutil.rmtree(d, ignore_errors=True)
            n += 1
            if traced != plain:
                class _R:  # minimal stand-in for replay_obj
                    pass
                ck.fail_input("C10:traced-outcome-differs-from-untraced:unusual-context:%s" % name,
                              "untraced: %s; traced (detail=%s): %s" % (plain[:2], detail, traced[:2]),
                              {"kind": "unusual-context", "scenario": name, "detail": detail, "untraced": list(plain), "traced": list(traced)})
                break
    return n + len(scen)


def shared_orchestrator_overlap_oracle(ck, budget):
    """Direct oracle: two traced Pipelines share ONE orchestrator, each run carries its own launch metadata.  Run A is suspended
    at each source line of the orchestrator module in turn while run B (another thread) executes completely.  The normalised
    trace of A -- its pipeline_start with A's launch id, index and context in particular -- must be what A writes alone."""
    import os, shutil, sys, tempfile, threading
    from semantiva.context_processors import ContextType
    from semantiva.execution.orchestrator import orchestrator as omod
    from semantiva.execution.orchestrator.orchestrator import LocalSemantivaOrchestrator
    from semantiva.pipeline import Payload, Pipeline
    from semantiva.trace.drivers.jsonl import JsonlTraceDriver
    from semantiva.trace.runtime import TraceContext
    pg.setup_impl()
    cfg_a = [{"processor": "FloatValueDataSource", "parameters": {"value": 2.0}}, {"processor": "FloatMultiplyOperation", "parameters": {"factor": 3.0}}]
    cfg_b = [{"processor": "FloatValueDataSource", "parameters": {"value": 5.0}}, {"processor": "FloatAddOperation", "parameters": {"addend": 1.0}}]
    mod_file = omod.__file__

    def meta(tag, idx):
        t = TraceContext()
        t.set_run_space_fk(spec_id=tag[0] * 64, launch_id="launch-" + tag, attempt=1, inputs_id=None)
        return {"trace_context": t, "run_space_index": idx, "run_space_context": {"who": tag}}

    def read(path):
        return [json.loads(l) for l in open(path, encoding="utf-8").read().splitlines() if l.strip()]
    d = tempfile.mkdtemp(prefix="verif_c10so_")
    n = 0
    try:
        def one(k, tag):
            orch = LocalSemantivaOrchestrator()
            pa, pb = os.path.join(d, "a_%s.jsonl" % tag), os.path.join(d, "b_%s.jsonl" % tag)
            pipe_a = Pipeline([dict(c) for c in cfg_a], trace=JsonlTraceDriver(pa, detail="hash"), orchestrator=orch)
            pipe_b = Pipeline([dict(c) for c in cfg_b], trace=JsonlTraceDriver(pb, detail="hash"), orchestrator=orch)
            count, thr = [0], [None]

            def run_b():
                try:
                    pipe_b.set_run_metadata(meta("B", 7))
                    pipe_b.process(Payload(None, ContextType({})))
                except Exception:  # noqa
                    pass

            def local(fr, ev, a):
                if ev == "line":
                    count[0] += 1
                    if count[0] == k:
                        thr[0] = threading.Thread(target=run_b, daemon=True)
                        thr[0].start()
                        thr[0].join(10)
                return local

            def tracer(frame, event, arg):
                return local if frame.f_code.co_filename == mod_file else None
            pipe_a.set_run_metadata(meta("A", 0))
            sys.settrace(tracer)
            try:
                try:
                    out = pipe_a.process(Payload(None, ContextType({})))
                    res = ("returned", out.data.data)
                except Exception as ex:  # noqa
                    res = ("raised", type(ex).__name__)
            finally:
                sys.settrace(None)
            if thr[0] is not None:
                thr[0].join(10)
            return count[0], res, read(pa) if os.path.exists(pa) else []
        total, res0, alone = one(-1, "alone")
        step = max(1, total // max(1, budget))
        for k in range(1, total + 1, step):
            _, res, recs = one(k, "k%d" % k)
            n += 2
            diff = tl.first_diff(tl.normalise(recs), tl.normalise(alone))
            if res != res0 or diff is not None:
                st = recs[0] if recs else {}
                ck.fail_input("C10:trace-differs:overlapping-run-on-a-shared-orchestrator:%s" % (tl.generic_path(diff) if diff else "outcome"),
                              "run A (launch-A, index 0) is suspended at its %d-th source line inside orchestrator.py while run B (launch-B, index 7) of another "
                              "Pipeline sharing the orchestrator executes: A's outcome %s (alone %s), its normalised trace differs at %s; A's pipeline_start carries "
                              "launch id %r index %r" % (k, res, res0, diff, st.get("run_space_launch_id"), st.get("run_space_index")),
                              {"kind": "shared-orchestrator-overlap", "line_event": k})
                break
    except Exception as ex:  # noqa
        ck.corr_problem("shared-orchestrator overlap oracle could not run", repr(ex)[:300])
    finally:
        shutil.rmtree(d, ignore_errors=True)
    return n


def after_failed_run_oracle(ck):
    """Direct oracle: a run of one Pipeline object that FAILS while it carries run metadata (a launch's TraceContext, index,
    context), then an ordinary run of the same object.  The trace of the second run must equal, after normalisation, the trace
    a fresh Pipeline writes for the same payload: nothing of the failed run may be attached to it."""
    import os, shutil, tempfile
    from semantiva.context_processors import ContextType
    from semantiva.pipeline import Payload, Pipeline
    from semantiva.trace.drivers.jsonl import JsonlTraceDriver
    from semantiva.trace.runtime import TraceContext
    pg.setup_impl()
    cfg = [{"processor": "FloatValueDataSource"}, {"processor": "FloatMultiplyOperation", "parameters": {"factor": 2.0}}]
    n = 0
    for detail in tl.DETAILS[:2]:
        d = tempfile.mkdtemp(prefix="verif_c10af_")
        try:
            def read(path):
                return [json.loads(l) for l in open(path, encoding="utf-8").read().splitlines() if l.strip()]
            p1 = os.path.join(d, "a.ser.jsonl")
            pipe = Pipeline([dict(c) for c in cfg], trace=JsonlTraceDriver(p1, detail=detail))
            tctx = TraceContext()
            tctx.set_run_space_fk(spec_id="s" * 64, launch_id="l-verif-failed", attempt=1, inputs_id=None)
            pipe.set_run_metadata({"trace_context": tctx, "run_space_index": 7, "run_space_context": {"value": None}})
            try:
                pipe.process(Payload(None, ContextType({})))       # `value` is missing: the run fails at node 1
                failed = False
            except Exception:  # noqa
                failed = True
            k1 = len(read(p1))
            pipe.process(Payload(None, ContextType({"value": 3.0})))
            second = read(p1)[k1:]
            p2 = os.path.join(d, "b.ser.jsonl")
            Pipeline([dict(c) for c in cfg], trace=JsonlTraceDriver(p2, detail=detail)).process(Payload(None, ContextType({"value": 3.0})))
            fresh = read(p2)
        except Exception as ex:  # noqa
            ck.corr_problem("after-failed-run oracle could not run", repr(ex))
            continue
        finally:
            shutil.rmtree(d, ignore_errors=True)
        n += 3
        if not failed:
            ck.corr_problem("after-failed-run oracle: the first run was expected to fail (missing key)", "")
            continue
        diff = tl.first_diff(tl.normalise(second), tl.normalise(fresh))
        if diff is not None:
            ck.fail_input("C10:trace-differs:run-after-a-failed-run-with-metadata:%s" % tl.generic_path(diff),
                          "a run of one Pipeline object after a FAILED run that carried launch metadata vs a fresh Pipeline on the same payload: "
                          "normalised traces differ at %s (second run's pipeline_start carries %s)"
                          % (diff, {k: second[0].get(k) for k in ("run_space_launch_id", "run_space_index") if second and k in second[0]}),
                          {"kind": "after-failed-run", "config": cfg, "detail": detail})
    return n


def metadata_history_oracle(ck):
    """Direct oracle: every history of at most three steps over {stage metadata on the orchestrator (configure_run_metadata),
    set metadata on the Pipeline (set_run_metadata), a run that succeeds, a run that fails} on ONE Pipeline + orchestrator,
    then a successful run (which consumes whatever is pending), then a plain traced run.  The plain run's trace must equal,
    after normalisation, what a fresh Pipeline writes for the same payload: no earlier step may still be attached to it."""
    import itertools, os, shutil, tempfile
    from semantiva.context_processors import ContextType
    from semantiva.execution.orchestrator.orchestrator import LocalSemantivaOrchestrator
    from semantiva.pipeline import Payload, Pipeline
    from semantiva.trace.drivers.jsonl import JsonlTraceDriver
    pg.setup_impl()
    cfg = [{"processor": "FloatValueDataSource"}, {"processor": "FloatMultiplyOperation", "parameters": {"factor": 2.0}}]

    def read(path):
        return [json.loads(l) for l in open(path, encoding="utf-8").read().splitlines() if l.strip()]
    d = tempfile.mkdtemp(prefix="verif_c10mh_")
    n = 0
    try:
        p2 = os.path.join(d, "fresh.ser.jsonl")
        Pipeline([dict(c) for c in cfg], trace=JsonlTraceDriver(p2, detail="hash")).process(Payload(None, ContextType({"value": 3.0})))
        fresh = tl.normalise(read(p2))
        for k in (1, 2, 3):
            for h in itertools.product(("stage", "set", "ok", "fail"), repeat=k):
                p1 = os.path.join(d, "h%d.ser.jsonl" % n)
                orch = LocalSemantivaOrchestrator()
                pipe = Pipeline([dict(c) for c in cfg], trace=JsonlTraceDriver(p1, detail="hash"), orchestrator=orch)
                for j, op in enumerate(h + ("ok",)):
                    if op == "stage":
                        orch.configure_run_metadata({"run_space_index": 70 + j, "run_space_context": {"value": 100.0}})
                    elif op == "set":
                        pipe.set_run_metadata({"run_space_index": 10 + j, "run_space_context": {"value": 1.0}})
                    else:
                        try:
                            pipe.process(Payload(None, ContextType({"value": 3.0} if op == "ok" else {})))
                        except Exception:  # noqa
                            pass
                k1 = len(read(p1))
                pipe.process(Payload(None, ContextType({"value": 3.0})))
                last = tl.normalise(read(p1)[k1:])
                n += 1
                diff = tl.first_diff(last, fresh)
                if diff is not None:
                    ck.fail_input("C10:trace-differs:plain-run-after-metadata-history:%s" % tl.generic_path(diff),
                                  "history %s, a successful run, then a plain run on one Pipeline + orchestrator: the plain run's normalised trace "
                                  "differs from a fresh Pipeline's at %s (its pipeline_start carries %s)"
                                  % (list(h), diff, {x: last[0].get(x) for x in ("run_space_index", "run_space_context") if last and x in last[0]}),
                                  {"kind": "metadata-history", "history": list(h) + ["ok", "plain"], "config": cfg})
                    return n
    except Exception as ex:  # noqa
        ck.corr_problem("metadata-history oracle could not run", repr(ex)[:300])
    finally:
        shutil.rmtree(d, ignore_errors=True)
    return n


def feedback_oracle(ck, report, rng, n):
    """Direct oracle: a program feeds the payload a traced run returned -- after changing its data IN PLACE -- back into the same
    Pipeline object.  The trace of that run must equal the trace a fresh Pipeline (fresh driver) writes for an equal payload."""
    import copy, os, shutil, tempfile
    from semantiva.context_processors import ContextType
    from semantiva.examples.test_utils import FloatDataType
    from semantiva.pipeline import Payload, Pipeline
    from semantiva.trace.drivers.jsonl import JsonlTraceDriver
    pg.setup_impl()
    done = 0
    for t in range(n):
        cfg = [{"processor": "FloatMultiplyOperation", "parameters": {"factor": float(rng.randint(2, 4))}},
               {"processor": "FloatAddOperation", "parameters": {"addend": float(rng.randint(1, 3))}}]
        if t % 2:
            cfg.append({"processor": "FloatCollectValueProbe", "context_key": "seen"})
        detail = tl.DETAILS[t % 4]
        d = tempfile.mkdtemp(prefix="verif_c10fb_")
        try:
            def read(path):
                return [json.loads(l) for l in open(path, encoding="utf-8").read().splitlines() if l.strip()]
            p1 = os.path.join(d, "a.ser.jsonl")
            drv = JsonlTraceDriver(p1, detail=detail)
            pipe = Pipeline([dict(c) for c in cfg], trace=drv)
            out = pipe.process(Payload(FloatDataType(3.0), ContextType({})))
            k1 = len(read(p1))
            new_value = float(rng.randint(5, 9))
            out.data.data = new_value                       # in-place change of the returned data object
            ctx_copy = copy.deepcopy(out.context.to_dict())
            pipe.process(out)
            second = read(p1)[k1:]
            p2 = os.path.join(d, "b.ser.jsonl")
            Pipeline([dict(c) for c in cfg], trace=JsonlTraceDriver(p2, detail=detail)).process(Payload(FloatDataType(new_value), ContextType(ctx_copy)))
            fresh = read(p2)
        except Exception as ex:  # noqa
            ck.corr_problem("feedback oracle could not run", repr(ex))
            continue
        finally:
            shutil.rmtree(d, ignore_errors=True)
        done += 3
        diff = tl.first_diff(tl.normalise(second), tl.normalise(fresh))
        if diff is not None:
            ck.fail_input("C10:trace-differs:payload-fed-back-after-in-place-change:%s" % tl.generic_path(diff),
                          "second run of one Pipeline object on its own (modified) output vs a fresh Pipeline on an equal payload: normalised traces differ at %s" % diff,
                          {"kind": "feedback", "config": cfg, "detail": detail, "new_value": new_value})
    return done


def replay(obj):
    r = obj["replay"]
    if r.get("kind") in ("unusual-context", "feedback"):
        class _Ck:
            def fail_input(self, sig, what, rep): print("STILL FAILS:", sig, "-", what)
            def corr_problem(self, a, b): print("problem:", a, b)
        if r["kind"] == "unusual-context":
            unusual_context_oracle(_Ck(), None)
        else:
            feedback_oracle(_Ck(), None, random.Random(1), 8)
        return 0
    c = {"nodes": r["descriptors"], "data0": r["data0"], "ctx0": r["ctx0"]}
    po, pe, _ = tl.run_plain(c["nodes"], c["data0"], c["ctx0"])
    print("nodes:", json.dumps(r["nodes"]))
    print("untraced:", po)
    a = tl.run_traced(c["nodes"], c["data0"], c["ctx0"], detail=r.get("detail", "hash"), mode="file", keep_dir=True)
    print("traced  :", a.outcome, "" if a.exc is None else "%s: %s" % (type(a.exc).__name__, a.exc))
    b = tl.run_traced(c["nodes"], c["data0"], c["ctx0"], detail=r.get("detail", "hash"), mode="file", pipe=a.pipe, driver=a.driver, path=a.path)
    print("pipeline_id run 1:", [x.get("pipeline_id") for x in a.records if x.get("record_type") == "pipeline_start"])
    print("pipeline_id run 2:", [x.get("pipeline_id") for x in b.records if x.get("record_type") == "pipeline_start"])
    print("normalised traces differ at:", tl.first_diff(tl.normalise(a.records), tl.normalise(b.records)))
    import shutil
    shutil.rmtree(a.own_dir, ignore_errors=True)
    return 0


TRUSTED = [
    "Coq 8.16.1 kernel (coqc), vm_compute; no native_compute",
    "model: coq/Model/Trace.v on Model/Pipeline.v + PipelineLib.v; a node's preprocessor metadata is abstracted to none / JSON / not JSON",
    "translator harness/translate/orchestrator.py (handlers re-raise from the AST; metadata_json_safe, pipeline_id_stable probed)",
    "correspondence harness: harness/lib/tracelib.py (normalisation drops run id, timestamp, seq, timing values)",
    "modelled not verified: user data types whose __len__/__repr__/to_json have side effects (the library's are pure)",
]
FINISH = {"level": "proof", "assumptions": [
    "summaries are computed from snapshots by pure library hooks (serialize / repr / len of the component library)",
    "normalisation removes exactly run id, timestamps, durations, sequence numbers"]}
