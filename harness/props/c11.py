"""C11 — Sweep expressions are confined to the safe grammar and their own variables.

proof side : Properties/C11.v over Model/SafeEval.v with fully generated tables (Gen/SafeEvalGen.v)
tie        : accept/reject of ExpressionEvaluator.compile vs model `visit` on ASTs enumerated from the
             running interpreter's grammar (depth<=2 complete over a leaf pool, depth 3 path-exhaustive),
             plus escape idioms planted at every argument/keyword/operand position
search     : independent ast.walk + code-object audit of every accepted expression
"""
from __future__ import annotations

import ast
import dis
import itertools
import json
import random
import re
import sys

from harness import core
from harness.core import cq_bool, cq_list, cq_str
from harness.translate import run_all

NAMES = ["x"]
DOC_NODES = {"Expression", "Module", "Expr", "Load", "BinOp", "UnaryOp", "BoolOp", "Compare", "IfExp", "Call", "Name",
             "Constant", "Tuple", "Add", "Sub", "Mult", "Div", "FloorDiv", "Mod", "Pow", "USub", "UAdd", "And", "Or",
             "Eq", "NotEq", "Lt", "LtE", "Gt", "GtE"}
DOC_FUNCS = {"abs", "min", "max", "round", "float", "int", "str", "bool"}


# ----- grammar of the running interpreter -------------------------------------
def asdl_fields(cls):
    """[(type, name, quant)] from the ASDL signature in the class docstring."""
    doc = (cls.__doc__ or "").split("\n")[0]
    m = re.match(r"^\w+\((.*)\)$", doc.strip())
    if not m:
        return []
    out = []
    for part in m.group(1).split(","):
        part = part.strip()
        if not part:
            continue
        ty, name = part.split()
        q = ""
        if ty[-1] in "*?":
            ty, q = ty[:-1], ty[-1]
        out.append((ty, name, q))
    return out


def grammar():
    exprs = [c for c in ast.expr.__subclasses__() if c.__module__ == "ast" and c.__name__ not in
             ("Num", "Str", "Bytes", "NameConstant", "Ellipsis", "Index", "ExtSlice")]
    # deprecated aliases are subclasses of Constant, not of expr, in 3.12; be defensive anyway
    return sorted(exprs, key=lambda c: c.__name__)


OPS = {"operator": [c() for c in ast.operator.__subclasses__()],
       "unaryop": [c() for c in ast.unaryop.__subclasses__()],
       "boolop": [c() for c in ast.boolop.__subclasses__()],
       "cmpop": [c() for c in ast.cmpop.__subclasses__()]}


def leaf_pool(full):
    pool = [lambda: ast.Name("x", ast.Load()), lambda: ast.Name("y", ast.Load()),
            lambda: ast.Name("__import__", ast.Load()), lambda: ast.Constant(1)]
    if full:
        pool += [lambda: ast.Name("abs", ast.Load()), lambda: ast.Constant("s"), lambda: ast.Constant(b"b"),
                 lambda: ast.Constant(None), lambda: ast.Constant(...), lambda: ast.Constant(1.5)]
    return pool


def ok_leaf():
    return ast.Name("x", ast.Load())


def mk_aux(ty, child):
    """Build helper nodes (comprehension, keyword, arguments, ...) holding `child` where an expr goes."""
    if ty == "comprehension":
        return ast.comprehension(target=ast.Name("t", ast.Store()), iter=child, ifs=[], is_async=0)
    if ty == "keyword":
        return ast.keyword(arg="k", value=child)
    if ty == "arguments":
        return ast.arguments(posonlyargs=[], args=[], vararg=None, kwonlyargs=[], kw_defaults=[], kwarg=None, defaults=[])
    raise KeyError(ty)


def build(cls, choice):
    """Instantiate cls; choice(field_name, type, quant) -> value for expr-typed and helper-typed fields,
    or the marker DEFAULT."""
    kw = {}
    for ty, name, q in asdl_fields(cls):
        v = choice(name, ty, q)
        if v is not DEFAULT:
            kw[name] = v
            continue
        if ty == "expr":
            kw[name] = [ok_leaf()] if q == "*" else (None if q == "?" and name not in ("value",) else ok_leaf())
            if cls is ast.Dict and name == "keys":
                kw[name] = [ok_leaf()]
        elif ty in OPS:
            kw[name] = [OPS[ty][0]] if q == "*" else OPS[ty][0]
        elif ty == "expr_context":
            kw[name] = ast.Load()
        elif ty == "identifier":
            kw[name] = "x"
        elif ty == "constant":
            kw[name] = 1
        elif ty == "string":
            kw[name] = None
        elif ty == "int":
            kw[name] = -1 if cls is ast.FormattedValue else 0
        elif ty in ("comprehension", "keyword"):
            kw[name] = [mk_aux(ty, ok_leaf())] if (ty == "comprehension") else []
        elif ty == "arguments":
            kw[name] = mk_aux(ty, None)
        else:
            raise KeyError((cls.__name__, ty, name))
    node = cls(**kw)
    if cls is ast.Compare:
        n = len(node.ops)
        node.comparators = (node.comparators + [ok_leaf()] * n)[:n]
    if cls is ast.Dict:
        n = max(len(node.keys), len(node.values))
        node.keys = (node.keys + [ok_leaf()] * n)[:n]
        node.values = (node.values + [ok_leaf()] * n)[:n]
    return node


DEFAULT = object()


def slots(cls):
    """Positions where an expression can be planted: (field, type, quant, variant)."""
    out = []
    for ty, name, q in asdl_fields(cls):
        if ty == "expr":
            out.append((name, ty, q))
        elif ty in ("comprehension", "keyword"):
            out.append((name, ty, q))
    return out


def plant(cls, field, ty, q, child_fn, extra=0):
    def choice(name, t, qq):
        if name != field:
            return DEFAULT
        if t == "expr":
            if qq == "*":
                return [child_fn()] + [ok_leaf() for _ in range(extra)]
            return child_fn()
        return [mk_aux(t, child_fn())]
    return build(cls, choice)


def variants(cls):
    """Operator / context variants of a class with all-expression slots minimal."""
    outs = [build(cls, lambda *a: DEFAULT)]
    for ty, name, q in asdl_fields(cls):
        if ty in OPS:
            for op in OPS[ty]:
                outs.append(build(cls, lambda n, t, qq, name=name, op=op, q=q: ([op] if q == "*" else op) if n == name else DEFAULT))
        if ty == "expr" and q == "*":
            outs.append(build(cls, lambda n, t, qq, name=name: [] if n == name else DEFAULT))
            outs.append(build(cls, lambda n, t, qq, name=name: [ok_leaf(), ok_leaf()] if n == name else DEFAULT))
    return outs


def depth2(full):
    pool = leaf_pool(full)
    for cls in grammar():
        for v in variants(cls):
            yield v
        sl = slots(cls)
        # one position at a time over the whole pool
        for (f, t, q) in sl:
            for leaf in pool:
                yield plant(cls, f, t, q, leaf)
                if q == "*":
                    yield plant(cls, f, t, q, leaf, extra=1)
        # full product over expr slots for a reduced pool
        es = [(f, t, q) for (f, t, q) in sl]
        if 2 <= len(es) <= 3:
            small = pool[:4]
            for combo in itertools.product(range(len(small)), repeat=len(es)):
                def choice(name, t, qq, combo=combo):
                    for (f, tt, q), ci in zip(es, combo):
                        if f == name:
                            c = small[ci]()
                            if tt == "expr":
                                return [c] if q == "*" else c
                            return [mk_aux(tt, c)]
                    return DEFAULT
                yield build(cls, choice)


def depth3(full, rng, sample=1.0):
    pool = leaf_pool(full)
    G = grammar()
    for c1 in G:
        for (f1, t1, q1) in slots(c1):
            for c2 in G:
                for (f2, t2, q2) in slots(c2) or [(None, None, None)]:
                    for leaf in (pool if full else pool[:3]):
                        if sample < 1.0 and rng.random() > sample:
                            continue
                        if f2 is None:
                            inner = lambda c2=c2: build(c2, lambda *a: DEFAULT)
                        else:
                            inner = lambda c2=c2, f2=f2, t2=t2, q2=q2, leaf=leaf: plant(c2, f2, t2, q2, leaf)
                        yield plant(c1, f1, t1, q1, inner)
                        if f2 is None:
                            break


HOSTS = ["{}", "abs({})", "max(x, {})", "max({}, x)", "abs(x={})", "max(x, key={})", "abs(*{})", "abs(**{})",
         "round(x, ndigits={})", "x + {}", "{} * x", "x ** {}", "-{}", "x if {} else x", "{} if x else x",
         "x if x else {}", "x < {}", "{} < x < x", "x < x < {}", "x and {}", "{} or x", "({}, x)", "(x, {})",
         "max(x, {}, x)", "abs(abs({}))", "abs(x=abs(x={}))", "max(x, abs(x), key=abs, default={})",
         "abs(x)({})", "{}(x)", "int(str({}))",
         # more positional arguments than the function takes (Python evaluates every argument before it complains about the arity)
         "abs(x, {})", "round(x, 1, {})", "float(x, {})", "int(x, 10, {})", "str(x, 'u', 's', {})", "bool(x, {})", "abs(x, x, x, {})"]
ESCAPES = ["().__class__", "().__class__.__bases__[0].__subclasses__()", "__import__('os')",
           "__import__('os').system('true')", "(lambda: 1)()", "(lambda: x)", "[c for c in ().__class__.__mro__]",
           "(y := 1)", "f'{x}'", "open('/etc/passwd')", "x.real", "x[0]", "[x]", "{x: x}", "{x}", "eval('1')",
           "exec('1')", "getattr(x, 'real')", "globals()", "__builtins__", "x.__class__", "type(x)", "...", "x", "1",
           "y", "abs", "abs(x)", "(x for x in x)", "{**x}", "[*x]", "x if x else x", "not x", "~x", "x @ x", "x / x",
           "x // x", "x | x", "x is x", "x in x", "x not in x", "await x", "(yield)", "b'1'", "None", "True", "1j",
           "x[1:2]", "print", "vars()", "dir()", "compile('1','','eval')", "breakpoint()", "exit()", "help"]


# ----- AST -> model tree -------------------------------------------------------
def tree_lit(node):
    kind = type(node).__name__
    atom = ""
    if isinstance(node, ast.Name):
        atom = node.id
    elif isinstance(node, ast.keyword):
        atom = node.arg or ""
    fields = []
    for f in node._fields:
        v = getattr(node, f, None)
        if isinstance(v, ast.AST):
            fields.append((f, [v]))
        elif isinstance(v, list):
            kids = [x for x in v if isinstance(x, ast.AST)]
            if kids or f in ("args", "keywords", "elts", "values", "ops", "comparators", "keys", "generators", "ifs"):
                fields.append((f, kids))
    return "(T %s %s %s)" % (cq_str(kind), cq_str(atom), cq_list(["(%s, %s)" % (cq_str(f), cq_list([tree_lit(k) for k in ks])) for f, ks in fields]))


def depth(node):
    kids = list(ast.iter_child_nodes(node))
    return 1 + max([depth(k) for k in kids if not isinstance(k, (ast.expr_context, ast.operator, ast.unaryop, ast.boolop, ast.cmpop))] or [0])


# ----- implementation ------------------------------------------------------------
_events = []
_armed = [False]


def _audit(ev, args):
    if _armed[0]:
        if ev in ("import", "open", "os.system", "subprocess.Popen", "os.listdir", "builtins.input", "os.scandir",
                  "socket.connect", "ctypes.dlopen", "builtins.breakpoint", "sys._getframe"):
            _events.append(ev + ":" + repr(args)[:80])


def impl_accept(source):
    from semantiva.utils.safe_eval import ExpressionEvaluator, ExpressionError
    try:
        fn = ExpressionEvaluator().compile(source, set(NAMES))
        return True, fn
    except ExpressionError:
        return False, None
    except RecursionError as ex:   # nothing was returned, nothing can be evaluated: a rejection -- but by a raw error, not by
        return False, ex            # the expression error the property names (reported by the callers)
    except Exception as ex:  # the visitor let it through; compile() then failed with a raw error
        return True, ex


def audit_accepted(source, fn):
    """Independent oracle: full ast.walk + code object + audited evaluation.  Returns list of (signature, what)."""
    bad = []
    tree = ast.parse(source, mode="eval")
    parent = {}
    for n in ast.walk(tree):
        for f, v in ast.iter_fields(n):
            for c in (v if isinstance(v, list) else [v]):
                if isinstance(c, ast.AST):
                    parent[id(c)] = (type(n).__name__, f)
    funcs_pos = {id(n.func) for n in ast.walk(tree) if isinstance(n, ast.Call)}
    for n in ast.walk(tree):
        k = type(n).__name__
        if k not in DOC_NODES:
            p = parent.get(id(n), ("?", "?"))
            bad.append(("C11:accepted-nonwhitelisted-element:%s.%s" % p, "%s accepted under %s.%s" % (k, p[0], p[1])))
        if isinstance(n, ast.Name):
            if id(n) in funcs_pos:
                if n.id not in DOC_FUNCS:
                    bad.append(("C11:accepted-call-target", "call of %s accepted" % n.id))
            elif n.id not in NAMES:
                p = parent.get(id(n), ("?", "?"))
                bad.append(("C11:accepted-foreign-name:%s.%s" % p, "name %s accepted under %s.%s" % (n.id, p[0], p[1])))
        if isinstance(n, ast.Call) and not isinstance(n.func, ast.Name):
            bad.append(("C11:accepted-indirect-call", "call of a non-name accepted"))
    try:
        code = compile(tree, "<e>", "eval")
    except SyntaxError:
        return bad
    foreign = set(code.co_names) - set(NAMES) - DOC_FUNCS
    if foreign:
        bad.append(("C11:code-reads-foreign-names", "code object reads %s" % sorted(foreign)))
    if any(hasattr(c, "co_code") for c in code.co_consts):
        bad.append(("C11:nested-code-object", "lambda/comprehension code object inside accepted expression"))
    for ins in dis.get_instructions(code):
        if ins.opname in ("LOAD_ATTR", "IMPORT_NAME", "LOAD_METHOD", "STORE_ATTR", "BINARY_SUBSCR", "LOAD_BUILD_CLASS"):
            bad.append(("C11:bytecode:" + ins.opname, "accepted expression compiles to " + ins.opname))
            break
    if not bad:
        _events.clear()
        _armed[0] = True
        try:
            fn(x=3)
        except BaseException:  # noqa
            pass
        finally:
            _armed[0] = False
        if _events:
            bad.append(("C11:evaluation-side-effect", "evaluation raised audit events %s" % _events[:3]))
    return bad


HEADER = """From Coq Require Import List String Bool.
From SV Require Import Model.SafeEval Gen.SafeEvalGen.
Import ListNotations. Open Scope string_scope.
Definition cases : list (tree * bool) := [
%s
].
Fixpoint bad {A} (ok : A -> bool) (l : list A) (i : nat) : list nat :=
  match l with [] => [] | x :: tl => if ok x then bad ok tl (S i) else i :: bad ok tl (S i) end.
Eval vm_compute in bad (fun c => wfb false (fst c) && Bool.eqb (visit tables [%s] (fst c)) (snd c)) cases 0.
"""


def run(ck):
    rng = random.Random(ck.seed * 7919 + 11)
    thorough = ck.tier == "thorough"
    sys.addaudithook(_audit)
    gen = run_all(["safe_eval"])
    ck.build_models(["Gen/SafeEvalGen.v"])
    proved = ck.prove(gen_results=gen)
    if thorough and proved:
        ck.coqchk()

    # ---------- sources
    sources, origin = [], {}
    unparsable = 0

    def add(s, tag):
        if s not in origin:
            origin[s] = tag
            sources.append(s)

    for h in HOSTS:
        for e in ESCAPES:
            add(h.format("(%s)" % e) if h != "{}" else e, "corpus")
            add(h.format(e), "corpus")
    # texts of several lines (what a YAML block scalar gives), invalid however the lines are joined; and valid ones
    for s_ in ("x *\n* 2", "import os\nos.system('id')", "x = 1\nx", "def f():\n    return open('/etc/passwd')\nf()", "x if\nelse 2",
               "x +\n", "\n\nx +* y\n", "x\ny", "(x +\n y)", "x + (\n  y\n)", "  x", "x\n", "lambda:\n x"):
        add(s_, "multiline")
    n_built = 0
    for node in itertools.chain(depth2(thorough), depth3(thorough, rng, 1.0 if thorough else 0.25)):
        n_built += 1
        try:
            s = ast.unparse(ast.fix_missing_locations(ast.Expression(body=node)))
        except Exception:  # noqa
            unparsable += 1
            continue
        add(s, "enum")
    cases = []
    syntax_rejected = 0
    kinds_seen = set()
    for s in sources:
        try:
            tree = ast.parse(s, mode="eval")
        except (SyntaxError, ValueError, RecursionError):
            syntax_rejected += 1
            acc, fn_ = impl_accept(s)
            if isinstance(fn_, Exception):
                ck.fail_input("C11:rejected-with-non-expression-error:%s:unparsable-text" % type(fn_).__name__,
                              "compile() of text Python cannot parse raised %s instead of ExpressionError" % type(fn_).__name__, {"expr": s, "names": NAMES})
            elif acc:
                ck.fail_input("C11:accepted-unparsable", "compile accepted text Python cannot parse", {"expr": s})
            continue
        for n in ast.walk(tree):
            kinds_seen.add(type(n).__name__)
        acc, fn = impl_accept(s)
        if isinstance(fn, Exception):
            ck.fail_input("C11:rejected-with-non-expression-error:" + type(fn).__name__,
                          "compile() raised %s instead of ExpressionError" % type(fn).__name__, {"expr": s, "names": NAMES})
            fn = None
        cases.append((s, tree, acc, fn))
    ck.cov["evaluations"] = len(cases)
    ck.cov["distinct_nontrivial"] = sum(1 for s, t, a, f in cases if depth(t.body) >= 2)
    n_acc = sum(1 for c in cases if c[2])
    ck.cov["rule"] = ("distinct expression sources: %d built ASTs from the interpreter grammar (%d expr classes; depth<=2 over the leaf pool, "
                      "depth 3 path-%s) + %d host x %d escape idioms; non-trivial = AST depth >= 2; accepted by the implementation: %d, "
                      "rejected: %d, not parsable (skipped by model, implementation must reject): %d"
                      % (n_built, len(grammar()), "exhaustive" if thorough else "sampled 25%", len(HOSTS), len(ESCAPES),
                         n_acc, len(cases) - n_acc, syntax_rejected))
    ck.notes["node_kinds_exercised"] = sorted(kinds_seen)
    ck.notes["expr_classes_of_interpreter"] = [c.__name__ for c in grammar()]
    ck.cov["samples"] = [{"expr": s, "accepted": a} for s, t, a, f in (cases[:3] + cases[len(cases) // 2: len(cases) // 2 + 3] + cases[-3:])]

    # ---------- correspondence
    shard = 400
    texts = []
    for i in range(0, len(cases), shard):
        body = ";\n".join("(%s, %s)" % (tree_lit(t), cq_bool(a)) for s, t, a, f in cases[i:i + shard])
        texts.append(HEADER % (body, "; ".join(cq_str(n) for n in NAMES)))
    per, errs = core.mismatches("C11", texts, timeout=900)
    agreed = 0
    for k, ls in enumerate(per):
        if ls is None:
            continue
        n = min(shard, len(cases) - k * shard)
        agreed += n - len(ls[0])
        for b in ls[0][:6]:
            s, t, a, f = cases[k * shard + b]
            ck.corr_problem("model visit vs ExpressionEvaluator.compile disagree (or tree not wf)",
                            "expr=%r implementation_accepts=%s dump=%s" % (s, a, ast.dump(t)[:400]), case={"expr": s, "accepted": a})
    for k, rc, out in errs:
        ck.corr_problem("correspondence shard %d did not evaluate (rc=%s)" % (k, rc), out)
    ck.cov["traces_validated_against_impl"] = agreed
    ck.log("correspondence: %d/%d agree; accepted=%d" % (agreed, len(cases), n_acc))

    # ---------- direct oracle
    for s, t, a, f in cases:
        if a:
            for sig, what in audit_accepted(s, f if callable(f) else (lambda **k: None)):
                ck.fail_input(sig, what, {"expr": s, "names": NAMES})
    # ---------- deep expressions: a long chain (deeper than a recursive walk can follow, still compilable) with an escape
    # idiom in an argument / keyword position of a whitelisted call; whatever happens, it must not be accepted
    payloads = ["max((), default=__import__('os'))", "abs(x=().__class__)", "min(x, key=lambda v: v)", "abs(__import__('os'))",
                "max(x, *[y for y in (1,)])", "round(x, ndigits=open)", "int(x, **{})", "str(object=x.real)"]
    n_deep = 0
    for terms in ((150, 340, 400, 600, 1000, 1300) if thorough else (340, 600, 1000)):
        chain = " + ".join(["x"] * terms)
        for pl in payloads:
            for src_ in ("(%s, %s)" % (chain, pl), "%s + %s" % (chain, pl), "%s if %s else x" % (pl, chain)):
                n_deep += 1
                try:
                    acc, fn = impl_accept(src_)
                except BaseException as ex:  # noqa
                    continue
                if isinstance(fn, Exception) and not acc:
                    ck.fail_input("C11:rejected-with-non-expression-error:%s:deep-expression" % type(fn).__name__,
                                  "compile() of a chain of %d terms carrying %r raised %s instead of ExpressionError" % (terms, pl, type(fn).__name__),
                                  {"expr": src_[:200] + " ...", "names": NAMES, "kind": "deep", "terms": terms, "payload": pl})
                    continue
                if acc:
                    for sig, what in audit_accepted(src_, fn if callable(fn) else (lambda **k: None)):
                        ck.fail_input(sig + ":deep-expression", what + " (inside a chain of %d terms)" % terms,
                                      {"expr": src_, "names": NAMES, "kind": "deep", "terms": terms, "payload": pl})
                        break
    ck.notes["deep_expression_runs"] = n_deep
    # ---------- history oracle: acceptance must not depend on what was compiled earlier in the process
    from semantiva.utils.safe_eval import ExpressionEvaluator, ExpressionError
    # (a) another evaluator with user-registered functions was used before; (b) an evaluator has already evaluated something
    n_hist2 = 0
    try:
        # user functions, one of them registered under the name of a whitelisted function
        custom = ExpressionEvaluator(allowed_funcs={"len": len, "sorted": sorted, "sum": sum, "clip": (lambda v: v), "abs": (lambda v: "not-the-builtin")})
        try:
            custom.compile("x + 1", {"x"})(x=1)
        except Exception:  # noqa
            pass
    except Exception:  # noqa
        custom = None
    used = ExpressionEvaluator()
    try:
        used.compile("abs(x) + 1", {"x"})(x=-2)
    except Exception:  # noqa
        pass
    probes = ["len(x)", "sorted(x)", "sum(x)", "__builtins__(x)", "__builtins__", "float(len(str(x)))", "len", "max(len(x), 1)", "clip(x)", "abs(clip(x))"]
    # ... and the fixed functions keep their meaning in every other evaluator
    for who, ev in (("fresh-evaluator-after-a-custom-function-evaluator", ExpressionEvaluator()), ("evaluator-that-has-evaluated-before", used)):
        try:
            got = ev.compile("abs(x)", {"x"})(x=-3)
        except Exception as ex:  # noqa
            got = "raises %s" % type(ex).__name__
        if got != 3:
            ck.fail_input("C11:fixed-function-replaced-after-history:%s" % who,
                          "abs(-3) evaluates to %r in a default evaluator after ANOTHER evaluator was created with allowed_funcs={'abs': <user function>, ...}" % (got,),
                          {"expr": "abs(x)", "names": ["x"], "kind": "history2", "who": who})
    for who, ev_factory in (("fresh-evaluator-after-a-custom-function-evaluator", lambda: ExpressionEvaluator()),
                            ("evaluator-that-has-evaluated-before", lambda: used)):
        for src_ in probes:
            n_hist2 += 1
            try:
                fn = ev_factory().compile(src_, {"x"})
            except ExpressionError:
                continue
            except Exception:  # noqa
                continue
            ck.fail_input("C11:accepted-after-history:%s" % who,
                          "%r is accepted by a default evaluator (%s); a fresh process rejects it" % (src_, who),
                          {"expr": src_, "names": ["x"], "kind": "history2", "who": who})
    ck.notes["history2_oracle_runs"] = n_hist2
    ck.notes["concurrent_compile_runs"] = concurrent_compile_oracle(ck, 4000 if thorough else 1200)
    hist_srcs = ["x + y", "max(x, y)", "y", "x * y - 1", "(x, y)", "abs(y) if x else y", "x < y < 2", "min(y, 1)"]
    n_hist = 0
    for src_ in hist_srcs:
        for same_instance in (True, False):
            ev1 = ExpressionEvaluator()
            try:
                ev1.compile(src_, {"x", "y"})          # legitimately accepted with both names declared
            except ExpressionError:
                continue
            ev2 = ev1 if same_instance else ExpressionEvaluator()
            n_hist += 1
            try:
                ev2.compile(src_, {"x"})               # now y is undeclared: must be rejected
                ck.fail_input("C11:accepted-after-earlier-compile-with-larger-name-set",
                              "expression using an undeclared name is accepted because the same text was compiled earlier with more names declared",
                              {"expr": src_, "names": ["x"], "history": [[src_, ["x", "y"]]], "same_evaluator_instance": same_instance})
            except ExpressionError:
                pass
    ck.notes["history_oracle_runs"] = n_hist
    # ---------- value oracle: an accepted expression reads its VARIABLES -- also when a variable is spelled like one of the
    # whitelisted functions and stands in a non-call position; reference = Python's own evaluation with the variables
    # as the innermost scope and only the whitelisted functions behind them
    fns = {n: getattr(__import__("builtins"), n) for n in DOC_FUNCS}
    val_cases = [("max if max == 10.0 else -1.0", {"max": 10.0}), ("(min, max)", {"min": 1.0, "max": 2.0}), ("max + min", {"min": 1.5, "max": 2.0}),
                 ("abs(max) - min", {"min": 1.0, "max": -4.0}), ("int * 2", {"int": 3}), ("round", {"round": 0.25}), ("bool and str", {"bool": 1, "str": 7}),
                 ("x + abs(x)", {"x": -2.0}), ("float if float else 0", {"float": 0.5}), ("-abs", {"abs": 4}), ("max(x, 1) + min", {"x": 3.0, "min": 2.0})]
    n_val = 0
    for src_, env in val_cases:
        try:
            fn = ExpressionEvaluator().compile(src_, set(env))
        except ExpressionError:
            continue
        try:
            want = ("value", repr(eval(src_, dict(fns, __builtins__={}), dict(env))))
        except Exception as ex:  # noqa
            want = ("raises", type(ex).__name__)
        try:
            got = ("value", repr(fn(**env)))
        except Exception as ex:  # noqa
            got = ("raises", type(ex).__name__)
        n_val += 1
        if got != want:
            ck.fail_input("C11:evaluation-does-not-read-the-variable",
                          "evaluating %r with %r gives %s, the variables' values give %s (a variable named like a whitelisted function is "
                          "not what the expression reads)" % (src_, env, got, want), {"expr": src_, "names": sorted(env), "variables": env})
    ck.notes["value_oracle_runs"] = n_val
    # ---------- a DECLARED variable that is not supplied when the compiled expression is called: nothing else may stand in for it
    # (a name such as `open` or `__import__` is a legal variable name; the interpreter's builtins must not answer for it)
    n_unsup = 0
    for name in ("open", "__import__", "eval", "print", "vars", "len", "t"):
        try:
            fn = ExpressionEvaluator().compile(name, {name, "u"})
        except ExpressionError:
            continue
        try:
            got = ("value", repr(fn(u=1))[:60])
        except Exception as ex:  # noqa
            got = ("raises", type(ex).__name__)
        n_unsup += 1
        if got[0] == "value":
            ck.fail_input("C11:evaluation-reaches-builtins:declared-variable-not-supplied",
                          "the accepted expression %r (variables %s), called without a value for %r, evaluates to %s: evaluation reads something that is not "
                          "one of its variables" % (name, sorted({name, "u"}), name, got[1]), {"expr": name, "names": sorted({name, "u"}), "supplied": ["u"]})
    ck.notes["unsupplied_variable_runs"] = n_unsup
    ck.cov["trusted_base"] = TRUSTED


def concurrent_compile_oracle(ck, attempts):
    """Acceptance must not depend on what ANOTHER THREAD is compiling: thread A keeps compiling an expression that uses a
    name it did not declare (must always be rejected) while thread B compiles expressions that legitimately declare that
    name -- through one shared evaluator, and through ParametricSweepFactory.create (whatever evaluator it uses)."""
    import sys, threading
    from semantiva.utils.safe_eval import ExpressionEvaluator, ExpressionError
    from semantiva.data_processors.parametric_sweep_factory import ParametricSweepFactory, SequenceSpec
    from semantiva.examples.test_utils import FloatDataCollection, FloatMultiplyOperation
    old = sys.getswitchinterval()
    sys.setswitchinterval(1e-6)
    total = 0
    try:
        for how in ("shared-evaluator", "sweep-factory"):
            ev = ExpressionEvaluator()
            stop = threading.Event()
            accepted = []

            def victim():
                for i in range(attempts):
                    if stop.is_set():
                        break
                    try:
                        if how == "shared-evaluator":
                            ev.compile("(t, license)", {"t"})
                        else:
                            ParametricSweepFactory.create(element=FloatMultiplyOperation, element_kind="DataOperation", collection_output=FloatDataCollection,
                                                          vars={"t": SequenceSpec([1.0, 2.0])}, parametric_expressions={"factor": "t + license"},
                                                          mode="combinatorial", broadcast=False)
                        accepted.append(i)
                        stop.set()
                    except (ExpressionError, ValueError, TypeError):
                        pass

            def other():
                while not stop.is_set():
                    try:
                        if how == "shared-evaluator":
                            ev.compile("t + license + credits + copyright", {"t", "license", "credits", "copyright"})
                        else:
                            ParametricSweepFactory.create(element=FloatMultiplyOperation, element_kind="DataOperation", collection_output=FloatDataCollection,
                                                          vars={"t": SequenceSpec([1.0]), "license": SequenceSpec([2.0]), "credits": SequenceSpec([1.0])},
                                                          parametric_expressions={"factor": "t + license + credits"}, mode="combinatorial", broadcast=False)
                    except Exception:  # noqa
                        pass
            tb = threading.Thread(target=other, daemon=True)
            ta = threading.Thread(target=victim, daemon=True)
            tb.start()
            ta.start()
            ta.join(120)
            stop.set()
            tb.join(10)
            total += attempts
            if accepted:
                ck.fail_input("C11:accepted-foreign-name:concurrent-compile:%s" % how,
                              "an expression using the undeclared name `license` was accepted (attempt %d) while another thread compiled expressions "
                              "that declare it (%s)" % (accepted[0], how), {"expr": "(t, license)" if how == "shared-evaluator" else "t + license", "names": ["t"],
                                                                           "kind": "concurrent", "how": how})
    finally:
        sys.setswitchinterval(old)
    return total


def replay(obj):
    s = obj["replay"]["expr"]
    for h_src, h_names in obj["replay"].get("history", []):
        from semantiva.utils.safe_eval import ExpressionEvaluator
        try:
            ExpressionEvaluator().compile(h_src, set(h_names))
            print("history: compiled", h_src, "with names", h_names)
        except Exception as ex:  # noqa
            print("history step raised", ex)
    acc, fn = impl_accept(s)
    print("expr:", s, "| accepted by ExpressionEvaluator.compile:", acc)
    if acc:
        for sig, what in audit_accepted(s, fn):
            print("  ", sig, "-", what)
    return 0


TRUSTED = [
    "Coq 8.16.1 kernel (coqc), vm_compute; no native_compute",
    "model: coq/Model/SafeEval.v hand-written visitor over rose trees, instantiated with tables generated from safe_eval.py "
    "(whitelist, functions, env keys, visit_Call shape incl. keyword handling, order visit-before-compile)",
    "translator harness/translate/safe_eval.py (fail-closed on any unknown visitor method or statement shape)",
    "correspondence harness: AST construction from the interpreter's ASDL docstrings, ast.unparse/ast.parse, tree literal emission",
    "modelled not verified: CPython's compile()/eval() name resolution order (locals, globals, builtins); parser shape facts wfb "
    "(Name has ctx=Load only; Call has fields func,args,keywords) are checked on every real tree",
]
FINISH = {"level": "proof", "assumptions": [
    "every expression reaches the visitor through ast.parse(mode='eval'), so trees satisfy wfb (checked per case)",
    "callers pass every declared variable as a keyword argument (locals include names)"]}
