"""C12 — Equal expression signatures imply equal values; commuted forms agree.

proof side : Properties/C12.v (soundness, AC-completeness, mutation corollaries, dump injectivity)
tie        : Gen/SemanticIdGen.v (comm ops, sort key, rebuild shape) + string-equal signatures,
             ast.dump and exact values of the model vs the implementation
search     : direct oracles on normalize_expression_sig_v1 (equal sig => equal values on a grid,
             AC-rearrangements keep sig, listed mutations change sig)
"""
from __future__ import annotations

import ast
import itertools
import json
import os
import random
from fractions import Fraction

from harness import core
from harness.core import cq_N, cq_Z, cq_list, cq_opt, cq_pair, cq_str
from harness.translate import run_all

VARS = ["a", "b", "c"]
CONSTS = [0, 1, 2, 3]
BIN = ["Add", "Sub", "Mult", "FloorDiv", "Mod", "Pow"]
BINSYM = {"Add": "+", "Sub": "-", "Mult": "*", "FloorDiv": "//", "Mod": "%", "Pow": "**"}
UN = ["USub", "UAdd", "Not"]
UNSYM = {"USub": "-", "UAdd": "+", "Not": "not "}
CMP = ["Eq", "NotEq", "Lt", "LtE", "Gt", "GtE"]
CMPSYM = {"Eq": "==", "NotEq": "!=", "Lt": "<", "LtE": "<=", "Gt": ">", "GtE": ">="}
BOOL = {"And": " and ", "Or": " or "}
FUNCS = ["abs", "min", "max"]
COMM = ("Add", "Mult")


# ----- expression tuples -----------------------------------------------------
def src(e):
    k = e[0]
    if k == "var":
        return e[1]
    if k == "const":
        return str(e[1])
    if k == "un":
        return "(%s(%s))" % (UNSYM[e[1]], src(e[2]))
    if k == "bin":
        return "((%s) %s (%s))" % (src(e[2]), BINSYM[e[1]], src(e[3]))
    if k == "if":
        return "((%s) if (%s) else (%s))" % (src(e[2]), src(e[1]), src(e[3]))
    if k == "call":
        return "%s(%s)" % (e[1], ", ".join(src(a) for a in e[2]))
    if k == "cmp":
        return "((%s) %s)" % (src(e[1]), " ".join("%s (%s)" % (CMPSYM[o], src(a)) for o, a in e[2]))
    if k == "bool":
        return "(" + BOOL[e[1]].join("(%s)" % src(a) for a in e[2]) + ")"
    raise ValueError(e)


def coq(e):
    k = e[0]
    if k == "var":
        return "(Var %s)" % cq_str(e[1])
    if k == "const":
        return "(Const %s)" % cq_N(e[1])
    if k == "un":
        return "(Un %s %s)" % (e[1], coq(e[2]))
    if k == "bin":
        return "(Bin %s %s %s)" % (e[1], coq(e[2]), coq(e[3]))
    if k == "if":
        return "(IfE %s %s %s)" % (coq(e[1]), coq(e[2]), coq(e[3]))
    if k == "call":
        return "(Call %s %s)" % (cq_str(e[1]), cq_list([coq(a) for a in e[2]]))
    if k == "cmp":
        return "(Cmp %s %s)" % (coq(e[1]), cq_list(["(%s, %s)" % (o, coq(a)) for o, a in e[2]]))
    if k == "bool":
        return "(BoolE %s %s)" % (e[1], cq_list([coq(a) for a in e[2]]))
    raise ValueError(e)


def size(e):
    k = e[0]
    if k in ("var", "const"):
        return 1
    if k == "un":
        return 1 + size(e[2])
    if k == "bin":
        return 1 + size(e[2]) + size(e[3])
    if k == "if":
        return 1 + size(e[1]) + size(e[2]) + size(e[3])
    if k == "call":
        return 1 + sum(size(a) for a in e[2])
    if k == "cmp":
        return 1 + size(e[1]) + sum(size(a) for _, a in e[2])
    if k == "bool":
        return 1 + sum(size(a) for a in e[2])


def has_comm(e):
    k = e[0]
    if k in ("var", "const"):
        return False
    if k == "un":
        return has_comm(e[2])
    if k == "bin":
        return e[1] in COMM or has_comm(e[2]) or has_comm(e[3])
    if k == "if":
        return any(has_comm(x) for x in e[1:])
    if k == "call":
        return any(has_comm(x) for x in e[2])
    if k == "cmp":
        return has_comm(e[1]) or any(has_comm(a) for _, a in e[2])
    if k == "bool":
        return any(has_comm(x) for x in e[2])


class OutOfModel(Exception):
    pass


class Blowup(Exception):
    pass


def own_eval(e, env):
    """Exact integer evaluation mirroring Python; raises OutOfModel for a negative exponent,
    Blowup for huge numbers, ArithmeticError/TypeError/NameError like Python."""
    k = e[0]
    if k == "var":
        if e[1] not in env:
            raise NameError(e[1])
        return env[e[1]]
    if k == "const":
        return e[1]
    if k == "un":
        v = own_eval(e[2], env)
        return -v if e[1] == "USub" else (+v if e[1] == "UAdd" else int(not v))
    if k == "bin":
        a = own_eval(e[2], env)
        b = own_eval(e[3], env)
        o = e[1]
        if o == "Add":
            r = a + b
        elif o == "Sub":
            r = a - b
        elif o == "Mult":
            r = a * b
        elif o == "FloorDiv":
            r = a // b
        elif o == "Mod":
            r = a % b
        else:
            if b < 0:
                raise OutOfModel()
            if b > 40 or abs(a) > 10 ** 6:
                if abs(a) > 1:
                    raise Blowup()
            r = a ** b
        if abs(r) > 10 ** 60:
            raise Blowup()
        return r
    if k == "if":
        return own_eval(e[2], env) if own_eval(e[1], env) else own_eval(e[3], env)
    if k == "call":
        vs = [own_eval(a, env) for a in e[2]]
        if e[1] == "abs":
            if len(vs) != 1:
                raise TypeError()
            return abs(vs[0])
        if len(vs) < 2:
            raise TypeError()
        return min(vs) if e[1] == "min" else max(vs)
    if k == "cmp":
        v = own_eval(e[1], env)
        for o, a in e[2]:
            w = own_eval(a, env)
            ok = {"Eq": v == w, "NotEq": v != w, "Lt": v < w, "LtE": v <= w, "Gt": v > w, "GtE": v >= w}[o]
            if not ok:
                return 0
            v = w
        return 1
    if k == "bool":
        v = None
        for i, a in enumerate(e[2]):
            v = own_eval(a, env)
            last = i == len(e[2]) - 1
            if last:
                return v
            if e[1] == "And" and not v:
                return v
            if e[1] == "Or" and v:
                return v
        raise TypeError()


def real_eval(source, env, exact=False):
    """Python's own eval.  Returns ('val', int) | ('exc', name) | ('nonint', repr)."""
    g = {"__builtins__": {}, "abs": abs, "min": min, "max": max}
    loc = {k: (Fraction(v) if exact else v) for k, v in env.items()}
    try:
        r = eval(compile(source, "<e>", "eval"), g, loc)
    except Exception as ex:  # noqa
        return ("exc", type(ex).__name__)
    if isinstance(r, bool):
        return ("val", int(r))
    if isinstance(r, int):
        return ("val", r)
    if isinstance(r, Fraction):
        return ("val", r) if exact else (("val", int(r)) if r.denominator == 1 else ("nonint", str(r)))
    return ("nonint", repr(r))


# ----- generation -------------------------------------------------------------
LEAVES = [("var", v) for v in VARS] + [("const", c) for c in CONSTS[:3]]


def enumerate_upto(n):
    """All expressions with at most n nodes over LEAVES (binary calls / 1-link compare / 2-ary bool)."""
    by = {1: list(LEAVES)}
    for s in range(2, n + 1):
        out = []
        for u in UN:
            out += [("un", u, x) for x in by[s - 1]]
        out += [("call", "abs", [x]) for x in by[s - 1]]
        for i in range(1, s - 1):
            j = s - 1 - i
            for x in by[i]:
                for y in by[j]:
                    out += [("bin", o, x, y) for o in BIN]
                    out += [("cmp", x, [(o, y)]) for o in CMP]
                    out += [("bool", o, [x, y]) for o in BOOL]
                    out += [("call", f, [x, y]) for f in ("min", "max")]
        for i in range(1, s - 2):
            for j in range(1, s - 1 - i):
                k = s - 1 - i - j
                if k < 1:
                    continue
                for x in by[i]:
                    for y in by[j]:
                        for z in by[k]:
                            out.append(("if", x, y, z))
        by[s] = out
    return [e for s in range(1, n + 1) for e in by[s]]


BIG = [2 ** 53, 2 ** 53 + 1, 2 ** 53 + 2, 1700000000000000001, 2 ** 64 + 1, 10 ** 18 + 7]


def rand_expr(rng, depth, in_exp=False):
    if depth <= 0 or rng.random() < 0.18:
        if rng.random() < 0.06 and not in_exp:
            return ("const", rng.choice(BIG))
        return rng.choice([("var", rng.choice(VARS)), ("const", rng.choice(CONSTS))])
    r = rng.random()
    if r < 0.55:
        ops = [o for o in BIN if not (in_exp and o == "Pow")]
        o = rng.choice(ops + ["Add", "Mult", "Add", "Mult"])
        if o == "Pow":
            return ("bin", o, rand_expr(rng, depth - 1, True), rng.choice([("const", rng.choice([0, 1, 2, 3])), ("var", rng.choice(VARS)), rand_expr(rng, 1, True)]))
        return ("bin", o, rand_expr(rng, depth - 1, in_exp), rand_expr(rng, depth - 1, in_exp))
    if r < 0.65:
        return ("un", rng.choice(UN), rand_expr(rng, depth - 1, in_exp))
    if r < 0.75:
        f = rng.choice(FUNCS)
        n = 1 if f == "abs" else rng.choice([2, 2, 3])
        if rng.random() < 0.05:
            n = rng.choice([0, 1, 2])
        return ("call", f, [rand_expr(rng, depth - 1, in_exp) for _ in range(n)])
    if r < 0.85:
        n = rng.choice([1, 1, 2, 3])
        return ("cmp", rand_expr(rng, depth - 1, in_exp), [(rng.choice(CMP), rand_expr(rng, depth - 1, in_exp)) for _ in range(n)])
    if r < 0.93:
        return ("if", rand_expr(rng, depth - 1, in_exp), rand_expr(rng, depth - 1, in_exp), rand_expr(rng, depth - 1, in_exp))
    return ("bool", rng.choice(list(BOOL)), [rand_expr(rng, depth - 1, in_exp) for _ in range(rng.choice([2, 2, 3]))])


def flatten(e, op):
    if e[0] == "bin" and e[1] == op:
        return flatten(e[2], op) + flatten(e[3], op)
    return [e]


def rand_tree(rng, op, terms):
    if len(terms) == 1:
        return terms[0]
    i = rng.randint(1, len(terms) - 1)
    return ("bin", op, rand_tree(rng, op, terms[:i]), rand_tree(rng, op, terms[i:]))


def ac_rearrange(rng, e):
    """Random member of e's AC-equivalence class (permute + re-associate every +/* chain)."""
    k = e[0]
    if k in ("var", "const"):
        return e
    if k == "bin" and e[1] in COMM:
        ts = [ac_rearrange(rng, t) for t in flatten(e, e[1])]
        rng.shuffle(ts)
        return rand_tree(rng, e[1], ts)
    if k == "bin":
        return ("bin", e[1], ac_rearrange(rng, e[2]), ac_rearrange(rng, e[3]))
    if k == "un":
        return ("un", e[1], ac_rearrange(rng, e[2]))
    if k == "if":
        return ("if",) + tuple(ac_rearrange(rng, x) for x in e[1:])
    if k == "call":
        return ("call", e[1], [ac_rearrange(rng, x) for x in e[2]])
    if k == "cmp":
        return ("cmp", ac_rearrange(rng, e[1]), [(o, ac_rearrange(rng, a)) for o, a in e[2]])
    if k == "bool":
        return ("bool", e[1], [ac_rearrange(rng, x) for x in e[2]])


def positions(e, path=()):
    yield path, e
    k = e[0]
    if k == "un":
        yield from positions(e[2], path + (2,))
    elif k == "bin":
        yield from positions(e[2], path + (2,))
        yield from positions(e[3], path + (3,))
    elif k == "if":
        for i in (1, 2, 3):
            yield from positions(e[i], path + (i,))
    elif k in ("call", "bool"):
        for i, a in enumerate(e[2]):
            yield from positions(a, path + (2, i))
    elif k == "cmp":
        yield from positions(e[1], path + (1,))
        for i, (o, a) in enumerate(e[2]):
            yield from positions(a, path + (2, i, 1))


def replace(e, path, new):
    if not path:
        return new
    i = path[0]
    if isinstance(e, tuple):
        l = list(e)
        l[i] = replace(e[i], path[1:], new)
        return tuple(l)
    l = list(e)
    l[i] = replace(e[i], path[1:], new)
    return l


def mutations(rng, e):
    """Single-point mutations (kind, mutated expression, must_differ_unless_equal_sig_of)."""
    out = []
    for path, sub in positions(e):
        k = sub[0]
        if k == "const":
            out.append(("const", replace(e, path, ("const", sub[1] + 1 + rng.randint(0, 2))), None))
            if sub[1] >= 2 ** 40:
                out.append(("const", replace(e, path, ("const", sub[1] + 1)), None))
        elif k == "var":
            other = rng.choice([v for v in VARS if v != sub[1]])
            out.append(("var", replace(e, path, ("var", other)), None))
        elif k == "call" and sub[1] in ("min", "max"):
            out.append(("func", replace(e, path, ("call", "max" if sub[1] == "min" else "min", sub[2])), None))
        elif k == "bin" and sub[1] not in COMM:
            out.append(("swap", replace(e, path, ("bin", sub[1], sub[3], sub[2])), (sub[2], sub[3])))
    return out


def assignments(rng, n):
    grid = [dict(zip(VARS, t)) for t in itertools.product([-2, -1, 0, 1, 2, 3], repeat=3)]
    rng.shuffle(grid)
    return grid[:n]


# ----- implementation side ----------------------------------------------------
def impl_sig(source):
    from semantiva.metadata.semantic_id import normalize_expression_sig_v1
    return normalize_expression_sig_v1(source)["ast"]


def impl_record(e, envs):
    s = src(e)
    d = ast.dump(ast.parse(s, mode="eval").body, include_attributes=False)
    sg = impl_sig(s)
    evs = []
    for env in envs:
        try:
            own = ("val", own_eval(e, env))
        except OutOfModel:
            evs.append((env, None, "oom"))
            continue
        except Blowup:
            continue
        except Exception as ex:  # noqa
            own = ("exc", type(ex).__name__)
        real = real_eval(s, env)
        if real[0] == "nonint":
            continue
        if (own[0] == "val") != (real[0] == "val") or (own[0] == "val" and own[1] != real[1]):
            raise AssertionError("harness evaluator disagrees with Python on %s %s: %s vs %s" % (s, env, own, real))
        evs.append((env, real[1] if real[0] == "val" else None, "real"))
    return {"src": s, "dump": d, "sig": sg, "evs": evs}


def case_text(e, rec):
    evs = cq_list(["(%s, %s)" % (cq_list([cq_pair(cq_str(k), cq_Z(v)) for k, v in env.items()]), cq_opt(val, cq_Z))
                   for env, val, _ in rec["evs"]])
    return "(%s, %s, %s, %s)" % (coq(e), cq_str(rec["dump"]), cq_str(rec["sig"]), evs)


HEADER = """From Coq Require Import List String ZArith NArith.
From SV Require Import Model.Expr Model.ExprCases Gen.SemanticIdGen.
Import ListNotations. Open Scope string_scope.
Definition cases : list ecase := [
%s
].
Eval vm_compute in mismatches comm cases.
"""


def exact_values(e, grid):
    s = src(e)
    vals = []
    for env in grid:
        try:
            own_eval(e, env)
        except Blowup:
            vals.append("skip")
            continue
        except OutOfModel:
            pass
        except Exception:
            pass
        vals.append(real_eval(s, env, exact=True))
    return vals


def differs(v1, v2):
    for a, b in zip(v1, v2):
        if a == "skip" or b == "skip":
            continue
        if a[0] == "nonint" or b[0] == "nonint":
            continue
        if a[0] != b[0]:
            return True
        if a[0] == "val" and a[1] != b[1]:
            return True
    return False


def run(ck):
    rng = random.Random(ck.seed * 1000003 + 12)
    thorough = ck.tier == "thorough"
    gen = run_all(["semantic_id"])
    ck.build_models(["Model/ExprCases.v", "Gen/SemanticIdGen.v"])
    proved = ck.prove(gen_results=gen)
    if thorough and proved:
        ck.coqchk()

    # ---------- case stream
    exprs = []
    corpus_dir = os.path.join(core.ROOT, "corpus", "C12")
    for f in sorted(os.listdir(corpus_dir)) if os.path.isdir(corpus_dir) else []:
        exprs += [to_tuple(x) for x in json.load(open(os.path.join(corpus_dir, f)))]
    n_corpus = len(exprs)
    enum = enumerate_upto(4 if thorough else 3)
    exprs += enum
    n_rand = 6000 if thorough else 700
    rands = [rand_expr(rng, rng.choice([2, 3, 3, 4, 4, 5])) for _ in range(n_rand)]
    exprs += rands
    pairs_ac, pairs_mut = [], []
    for e in rands[: (3000 if thorough else 400)]:
        if has_comm(e):
            e2 = ac_rearrange(rng, e)
            pairs_ac.append((e, e2))
            exprs.append(e2)
        ms = mutations(rng, e)
        rng.shuffle(ms)
        for kind, m, swapped in ms[:3]:
            pairs_mut.append((kind, e, m, swapped))
            exprs.append(m)
    # operand orders of everything that is NOT an AC chain: comparison chains with one repeated operator (a != b != c is
    # a != b and b != c: not symmetric in its operands), call arguments, boolean operands, conditional arms.  They enter
    # the stream so that the equal-signature-implies-equal-value oracle sees every order of the same operands.
    leaves = [("var", "a"), ("var", "b"), ("var", "c")]
    for op in CMP:
        for perm in itertools.permutations(leaves):
            exprs.append(("bin", "Add", ("const", 10), ("cmp", perm[0], [(op, perm[1]), (op, perm[2])])))
        for perm in itertools.permutations(leaves, 2):
            exprs.append(("cmp", perm[0], [(op, perm[1])]))
    # ... and chains mixing two operators (c >= b > a, a <= b < c, a < b >= c, ...): mirrored spellings of one chain must
    # keep their values apart unless they really are the same predicate
    for op1 in CMP:
        for op2 in CMP:
            if op1 != op2:
                for perm in itertools.permutations(leaves):
                    exprs.append(("cmp", perm[0], [(op1, perm[1]), (op2, perm[2])]))
    # signs: products with several negated factors next to their sign-normalised spellings, negative constants as bases of a
    # power next to the negated power ((-2) ** t is not -2 ** t)
    neg = lambda e: ("un", "USub", e)  # noqa: E731
    mul = lambda x, y: ("bin", "Mult", x, y)  # noqa: E731
    A, B, C3 = leaves
    exprs += [mul(neg(A), neg(B)), neg(mul(A, B)), mul(A, B), mul(neg(A), B), mul(A, neg(B)), mul(neg(neg(A)), B), neg(mul(neg(A), B)),
              mul(mul(neg(A), neg(B)), neg(C3)), neg(mul(mul(A, B), C3)), mul(mul(A, B), C3), mul(mul(neg(A), neg(B)), C3), mul(neg(A), mul(neg(B), neg(C3))),
              ("bin", "Add", mul(neg(A), neg(B)), C3), ("bin", "Add", neg(mul(A, B)), C3)]
    # ... and sums: every spelling of +-a +-b (+-c) with the signs inside / outside parentheses, as they stand, as a factor and as
    # an argument (-(a + b) is not a - b, a - (b - c) is not a - b - c)
    add = lambda x, y: ("bin", "Add", x, y)  # noqa: E731
    sub = lambda x, y: ("bin", "Sub", x, y)  # noqa: E731
    sums = [add(A, B), sub(A, B), sub(B, A), neg(add(A, B)), neg(sub(A, B)), add(neg(A), B), sub(neg(A), B), add(neg(A), neg(B)), add(A, neg(B)),
            sub(neg(add(A, B)), C3), sub(sub(A, B), C3), sub(A, sub(B, C3)), sub(A, add(B, C3)), add(neg(add(A, B)), C3), sub(C3, add(A, B)),
            sub(sub(neg(A), B), C3), neg(add(add(A, B), C3)), add(sub(A, B), C3), sub(add(A, C3), B), neg(sub(sub(A, B), C3))]
    exprs += sums
    exprs += [mul(("const", 2), x) for x in sums[:9]] + [("call", "abs", [x]) for x in sums[:9]]
    for base in (2, 3):
        for ex in (("var", "a"), ("const", 2), ("const", 3)):
            exprs += [neg(("bin", "Pow", ("const", base), ex)), ("bin", "Pow", neg(("const", base)), ex),      # -(2 ** t) and (-2) ** t
                      ("bin", "Pow", ("const", base), ex), ("bin", "Pow", neg(A), ex), neg(("bin", "Pow", A, ex))]
    for f in FUNCS:
        if f != "abs":
            for perm in itertools.permutations(leaves, 2):
                exprs.append(("call", f, [perm[0], ("bin", "Sub", perm[1], ("const", 1))]))
    for bo in BOOL:
        for perm in itertools.permutations(leaves, 2):
            exprs.append(("bool", bo, [perm[0], ("bin", "Sub", perm[1], ("const", 1))]))
    for perm in itertools.permutations(leaves):
        exprs.append(("if", perm[0], perm[1], perm[2]))
    # dedupe by source
    seen, uniq = set(), []
    for e in exprs:
        s = src(e)
        if s not in seen:
            seen.add(s)
            uniq.append(e)
    exprs = uniq
    envs_per = 6
    recs = []
    for e in exprs:
        recs.append(impl_record(e, assignments(rng, envs_per)))
    ck.cov["evaluations"] = len(exprs)
    ck.cov["distinct_nontrivial"] = sum(1 for e in exprs if has_comm(e))
    ck.cov["rule"] = ("distinct expression sources; exhaustive for <= %d nodes over leaves a,b,c,0,1,2 (%d), %d random (depth<=5), "
                      "their AC-rearrangements (%d pairs) and single-point mutations (%d pairs), corpus %d; "
                      "non-trivial = contains a + or * (normalisation does something)"
                      % (4 if thorough else 3, len(enum), n_rand, len(pairs_ac), len(pairs_mut), n_corpus))
    sizes = {}
    for e in exprs:
        sizes[size(e)] = sizes.get(size(e), 0) + 1
    ck.notes["size_histogram"] = dict(sorted(sizes.items()))
    ck.notes["eval_points"] = sum(len(r["evs"]) for r in recs)
    ck.notes["eval_outcomes"] = {"value": sum(1 for r in recs for _, v, t in r["evs"] if v is not None),
                                 "raises": sum(1 for r in recs for _, v, t in r["evs"] if v is None and t == "real"),
                                 "outside_integers": sum(1 for r in recs for _, v, t in r["evs"] if t == "oom")}
    ck.cov["samples"] = [{"src": r["src"], "sig": r["sig"][:160], "values": [(list(env.values()), v) for env, v, _ in r["evs"][:3]]}
                         for r in (recs[len(enum) + n_corpus: len(enum) + n_corpus + 4] + recs[:2])]

    # ---------- correspondence (comparison inside Coq)
    shard = 150
    texts = []
    for i in range(0, len(exprs), shard):
        texts.append(HEADER % ";\n".join(case_text(e, r) for e, r in zip(exprs[i:i + shard], recs[i:i + shard])))
    per, errs = core.mismatches("C12", texts, timeout=900)
    agreed = 0
    for k, ls in enumerate(per):
        if ls is None:
            continue
        bad = ls[0]
        agreed += min(shard, len(exprs) - k * shard) - len(bad)
        for b in bad[:5]:
            idx = k * shard + b
            ck.corr_problem("model vs normalize_expression_sig_v1/ast.dump/eval disagree",
                            json.dumps(recs[idx])[:1500], case={"expr": exprs[idx], "rec": recs[idx]})
    for k, rc, out in errs:
        ck.corr_problem("correspondence shard %d did not evaluate (rc=%s)" % (k, rc), out)
    ck.cov["traces_validated_against_impl"] = agreed
    ck.log("correspondence: %d/%d cases agree, %d shard errors" % (agreed, len(exprs), len(errs)))

    # ---------- direct oracles on the implementation
    grid = [dict(zip(VARS, t)) for t in itertools.product([-2, -1, 0, 1, 2, 3], repeat=3)]
    grid = grid[:: (1 if thorough else 3)]
    by_sig = {}
    for e, r in zip(exprs, recs):
        by_sig.setdefault(r["sig"], []).append(e)
    multi = {s: es for s, es in by_sig.items() if len(es) > 1}
    ck.notes["signature_classes_with_several_members"] = len(multi)
    n_pairs = 0
    for s, es in multi.items():
        v0 = exact_values(es[0], grid)
        for e2 in es[1:]:
            n_pairs += 1
            v2 = exact_values(e2, grid)
            if differs(v0, v2):
                ck.fail_input("C12:unsound-signature:%s|%s" % (kindsig(es[0]), kindsig(e2)),
                              "equal ExpressionSigV1 but different values",
                              {"expr1": src(es[0]), "expr2": src(e2), "signature": s})
    ck.notes["equal_sig_pairs_value_checked"] = n_pairs
    for e, e2 in pairs_ac:
        if impl_sig(src(e)) != impl_sig(src(e2)):
            ck.fail_input("C12:ac-rearrangement-changes-signature", "re-ordered/re-associated + or * operands changed the signature",
                          {"expr1": src(e), "expr2": src(e2)})
    for kind, e, m, swapped in pairs_mut:
        same = impl_sig(src(e)) == impl_sig(src(m))
        if not same:
            continue
        if kind == "swap":
            if impl_sig(src(swapped[0])) == impl_sig(src(swapped[1])):
                continue  # operands are themselves signature-equal: not a change
        ck.fail_input("C12:mutation-keeps-signature:" + kind, "a %s mutation left the signature unchanged" % kind,
                      {"expr": src(e), "mutated": src(m)})
    # ---------- two normalisations at overlapping times: call A is suspended at each of its source lines inside the module
    #            while call B (another expression) runs to completion; both must return what they return alone
    ck.notes["overlapping_normalisations"] = overlapping_calls_oracle(ck, 160 if thorough else 60)
    # ---------- the signature a sweep REPORTS is the signature of what it EVALUATES (also after the caller's mapping changed)
    n_rep = reported_signature_oracle(ck, rng, rands, 40 if thorough else 12)
    ck.notes["reported_signature_runs"] = n_rep
    ck.cov["trusted_base"] = TRUSTED


def overlapping_calls_oracle(ck, budget):
    import sys
    import threading
    import semantiva.metadata.semantic_id as sid
    mod_file = sid.__file__
    pairs = [("a + b*c + d + e*f*g + h", "p*q + r + s*t*u + v + w"), ("x*y*z*w + 1", "k + m + n + 2*j"), ("(a + b)*(c + d) + e", "min(p + q, r*s) + t")]
    runs = 0
    for ea, eb in pairs:
        want_a, want_b = impl_sig(ea), impl_sig(eb)

        def one(k):
            count, got_b, thr = [0], [None], [None]

            def run_b():
                try:
                    got_b[0] = impl_sig(eb)
                except Exception as ex:  # noqa
                    got_b[0] = "raises %r" % (ex,)

            def local(fr, ev, a):
                if ev == "line":
                    count[0] += 1
                    if count[0] == k:
                        thr[0] = threading.Thread(target=run_b, daemon=True)
                        thr[0].start()
                        thr[0].join(5)          # (a lock held by A would make B wait: A goes on after the timeout)
                return local

            def tracer(frame, event, arg):
                return local if frame.f_code.co_filename == mod_file else None
            sys.settrace(tracer)
            try:
                try:
                    got_a = impl_sig(ea)
                except Exception as ex:  # noqa
                    got_a = "raises %r" % (ex,)
            finally:
                sys.settrace(None)
            if thr[0] is not None:
                thr[0].join(10)
            return count[0], got_a, got_b[0]
        total, _, _ = one(-1)
        step = max(1, total // max(1, budget // len(pairs)))
        for k in range(1, total + 1, step):
            _, got_a, got_b = one(k)
            runs += 1
            if got_a != want_a or (got_b is not None and got_b != want_b):
                ck.fail_input("C12:overlapping-normalisations-disturb-each-other",
                              "normalising %r is suspended at its %d-th source line inside semantic_id.py while %r is normalised by another thread: "
                              "%s" % (ea, k, eb, "the suspended call returns another signature than alone" if got_a != want_a else
                                      "the other call returns another signature than alone"),
                              {"kind": "overlap", "expr1": ea, "expr2": eb, "line_event": k, "alone": [want_a[:200], want_b[:200]],
                               "overlapped": [str(got_a)[:200], str(got_b)[:200]]})
                return runs
    return runs


def reported_signature_oracle(ck, rng, rands, n):
    from semantiva.data_processors.parametric_sweep_factory import ParametricSweepFactory, SequenceSpec
    from semantiva.examples.test_utils import FloatDataCollection, FloatDataType, FloatMultiplyOperation
    from semantiva.metadata import normalize_expression_sig_v1
    seqs = {"a": [1.0, 2.0], "b": [3.0], "c": [-1.0, 2.0]}

    def make(mapping):
        return ParametricSweepFactory.create(element=FloatMultiplyOperation, element_kind="DataOperation", collection_output=FloatDataCollection,
                                             vars={k: SequenceSpec(list(v)) for k, v in seqs.items()}, parametric_expressions=mapping,
                                             mode="combinatorial", broadcast=False)

    def sig_of(cls):
        return cls.get_metadata()["preprocessor"]["param_expressions"]["factor"]["sig"]

    def values(cls):
        try:
            return [repr(x.data) for x in cls().process(FloatDataType(1.0))]
        except Exception as ex:  # noqa
            return ["raises:" + type(ex).__name__]
    pool = [e for e in rands if size(e) <= 9]
    done = 0
    for _ in range(n * 4):
        if done >= n or len(pool) < 2:
            break
        e1, e2 = rng.sample(pool, 2)
        mapping = {"factor": src(e1)}
        try:
            A = make(mapping)
            s0 = sig_of(A)
            v0 = values(A)
            mapping["factor"] = src(e2)          # the caller re-uses and edits its mapping
            B = make(mapping)
        except Exception:  # noqa - outside the safe grammar
            continue
        done += 1
        rep = {"kind": "reported-signature", "expr1": src(e1), "expr2": src(e2)}
        if sig_of(A) != s0 or s0 != normalize_expression_sig_v1(src(e1)):
            ck.fail_input("C12:reported-signature-is-not-that-of-the-evaluated-expression",
                          "a sweep built from %r reports the signature of another expression after the caller's mapping was edited to %r "
                          "(its values are still those of the first)" % (src(e1), src(e2)), rep)
        elif sig_of(A) == sig_of(B) and values(A) != values(B) and "raises" not in "".join(values(A) + values(B)):
            ck.fail_input("C12:unsound-signature:sweep-classes", "two sweeps report equal signatures and compute different values", rep)
        elif values(A) != v0:
            ck.fail_input("C12:sweep-values-change-with-callers-mapping", "the values of sweep A changed after the caller edited its mapping", rep)
    return done


def kindsig(e):
    return e[0] + (":" + e[1] if e[0] in ("bin", "un", "bool", "call") else "")


def to_tuple(x):
    if isinstance(x, list):
        if x and isinstance(x[0], str) and x[0] in ("var", "const", "un", "bin", "if", "call", "cmp", "bool"):
            if x[0] in ("call", "bool"):
                return (x[0], x[1], [to_tuple(a) for a in x[2]])
            if x[0] == "cmp":
                return ("cmp", to_tuple(x[1]), [(o, to_tuple(a)) for o, a in x[2]])
            return tuple(to_tuple(a) for a in x)
        return [to_tuple(a) for a in x]
    return x


def replay(obj):
    print(json.dumps(obj["replay"], indent=1))
    r = obj["replay"]
    for k in ("expr1", "expr2", "expr", "mutated"):
        if k in r:
            print(k, r[k], "->", impl_sig(r[k]))
    return 0


TRUSTED = [
    "Coq 8.16.1 kernel (coqc), vm_compute for proofs by computation and correspondence evaluation; no native_compute",
    "model: coq/Model/Expr.v hand-written (syntax, exact integer eval with Python floor semantics, ast.dump text, normaliser); "
    "values outside the integers (negative exponents) are None in the model",
    "translator harness/translate/semantic_id.py (commutative operator set, sort key, rebuild shape; fail-closed)",
    "correspondence harness: generators, Python's ast.parse/ast.dump/eval, Gallina literal emission (harness/props/c12.py)",
    "wf side condition: identifiers contain no quote character (true of every Python identifier)",
]
FINISH = {"level": "proof", "assumptions": [
    "exact arithmetic = unbounded integers; results leaving the integers are treated as 'raises'",
    "Python's ast.parse/ast.dump behave as sampled by the correspondence (string-equal on every case)"]}
