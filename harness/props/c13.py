"""C13 — Trace aggregation is order-independent and right for every partial trace.

proof side : Properties/C13.v over Model/Aggregator.v (ingest / finalize_run / finalize_launch) with the
             status chains and _TERMINAL generated from aggregator.py (Gen/AggregatorGen.v)
tie        : REAL traces (single runs, run-space launches incl. failing runs, one CLI launch) written by the
             JSONL driver, fed to the real TraceAggregator as: every prefix, random permutations, k-way
             interleavings of the per-run files (and of file prefixes), random subsets in several orders,
             finalize calls interleaved with ingestion; plus synthetic ill-formed record lists.  Every finalize
             output is compared with the model's inside Coq.
search     : direct oracles on the implementation only: verdicts differ between two orders of one multiset;
             differ after a second finalize / an intermediate finalize; prefix verdict differs from the
             documented table.
"""
from __future__ import annotations

import glob
import json
import logging
import os
import random
import shutil
import subprocess
import tempfile

from harness import core
from harness.core import cq_N, cq_Z, cq_bool, cq_list, cq_opt
from harness.translate import run_all
from harness.translate.aggregator import STATUS_CODES

KNOWN_RUN_PROBLEMS = ["unknown_run", "missing_pipeline_start", "missing_pipeline_end", "start_time_gt_end_time"]
KNOWN_LAUNCH_PROBLEMS = ["unknown_launch", "missing_run_space_start", "missing_run_space_end"]
STATUS_TAG = {"complete": "Complete", "partial": "Partial", "invalid": "Invalid"}

_ready = [False]


def setup_impl():
    if _ready[0]:
        return
    logging.disable(logging.CRITICAL)
    from semantiva.registry import apply_profile, RegistryProfile, load_extensions
    apply_profile(RegistryProfile())
    load_extensions(["semantiva-examples"])
    try:
        from semantiva.logger import Logger
        Logger(level="CRITICAL")
    except Exception:  # noqa
        pass
    _ready[0] = True


# ----- producing real traces --------------------------------------------------------------
def gen_nodes(rng, tmp, fail_at=None, ctx_factor=False):
    """A valid float pipeline; `fail_at` = index (>=1) of a FloatMultiplyOperation without its parameter;
    ctx_factor: that node's factor is expected from the run context (so some runs of a launch fail)."""
    from semantiva.examples import test_utils as tu
    n_ops = rng.randint(1, 4)
    nodes = [{"processor": tu.FloatValueDataSourceWithDefault}] if rng.random() < 0.5 else \
        [{"processor": tu.FloatValueDataSource, "parameters": {"value": float(rng.randint(1, 5))}}]
    for i in range(n_ops):
        k = rng.randrange(5)
        if k == 0:
            nodes.append({"processor": tu.FloatMultiplyOperation, "parameters": {"factor": float(rng.randint(1, 3))}})
        elif k == 1:
            nodes.append({"processor": tu.FloatAddOperation, "parameters": {"addend": float(rng.randint(0, 3))}})
        elif k == 2:
            nodes.append({"processor": tu.FloatSquareOperation})
        elif k == 3:
            nodes.append({"processor": tu.FloatBasicProbe, "context_key": "p%d" % i})
        else:
            nodes.append({"processor": tu.FloatCollectValueProbe, "context_key": "c%d" % i})
    if fail_at is not None or ctx_factor:
        pos = min(max(1, fail_at if fail_at is not None else rng.randint(1, len(nodes))), len(nodes))
        nodes.insert(pos, {"processor": tu.FloatMultiplyOperation})
    if rng.random() < 0.4:
        nodes.append({"processor": tu.FloatMockDataSink, "parameters": {"path": os.path.join(tmp, "sink.txt")}})
    return nodes


def read_dir(d):
    files = {}
    for p in sorted(glob.glob(os.path.join(d, "*.jsonl"))):
        recs = [json.loads(line) for line in open(p) if line.strip()]
        if recs:
            files[os.path.basename(p)] = recs
    return files


def slim(rec):
    """Only the fields TraceAggregator reads that can reach a verdict (kept for replay files)."""
    out = {}
    for k in ("record_type", "run_id", "timestamp", "seq", "status", "run_space_launch_id", "run_space_attempt",
              "run_space_planned_run_count"):
        if k in rec:
            out[k] = rec[k]
    if isinstance(rec.get("identity"), dict):
        out["identity"] = {k: rec["identity"].get(k) for k in ("run_id", "node_id") if k in rec["identity"]}
    if isinstance(rec.get("timing"), dict):
        out["timing"] = {k: rec["timing"][k] for k in ("started_at", "finished_at") if k in rec["timing"]}
    spec = rec.get("pipeline_spec_canonical")
    if isinstance(spec, dict) and isinstance(spec.get("nodes"), list):
        out["pipeline_spec_canonical"] = {"nodes": [{"node_uuid": n.get("node_uuid")} if isinstance(n, dict) else n
                                                     for n in spec["nodes"]]}
        if "edges" in spec:     # (nothing of it may reach a verdict; kept so that a replay holds what the runtime wrote)
            out["pipeline_spec_canonical"]["edges"] = spec["edges"]
    elif "pipeline_spec_canonical" in rec:
        out["pipeline_spec_canonical"] = spec
    return out


def world_from_files(name, files, shape):
    """Emission order: run_space_start, the per-run files in the order the runs started, run_space_end."""
    rs = [r for f, recs in files.items() for r in recs if r.get("record_type", "").startswith("run_space")]
    runfiles = {f: [r for r in recs if not r.get("record_type", "").startswith("run_space")] for f, recs in files.items()}
    runfiles = {f: r for f, r in runfiles.items() if r}
    ordered = sorted(runfiles.items(), key=lambda kv: kv[1][0].get("seq", 0))
    order = [r for r in rs if r["record_type"] == "run_space_start"]
    for _, recs in ordered:
        order += recs
    order += [r for r in rs if r["record_type"] == "run_space_end"]
    groups = [recs for _, recs in ordered]
    if rs:
        groups.append(rs)
    return {"name": name, "full": order, "records": [slim(r) for r in order], "shape": shape,
            "groups": [[order.index(r) for r in g] for g in groups]}


def make_world_inproc(rng, idx, base):
    from semantiva import Pipeline
    from semantiva.context_processors import ContextType
    from semantiva.data_types import NoDataType
    from semantiva.pipeline import Payload
    from semantiva.trace.drivers.jsonl import JsonlTraceDriver
    from semantiva.trace.runtime import RunSpaceLaunchManager, RunSpaceTraceEmitter, TraceContext
    d = os.path.join(base, "w%d" % idx)
    os.makedirs(d)
    KINDS = ["single_ok", "single_fail", "launch_ok", "launch_fail_continue", "launch_fail_abort", "single_one_node_ok", "single_one_node_fail"]
    kind = KINDS[idx % 7] if idx < 14 else rng.choice(KINDS)
    drv = JsonlTraceDriver(output_path=os.path.join(d, "trace"))
    outcomes = []
    if kind.startswith("single"):
        nodes = gen_nodes(rng, d, fail_at=(rng.randint(1, 4) if kind == "single_fail" else None))
        if "one_node" in kind:      # a pipeline of exactly one node (its graph has no edge); failing: the node lacks its parameter
            from semantiva.examples import test_utils as tu
            nodes = [{"processor": tu.FloatValueDataSource, "parameters": {"value": 2.0} if kind.endswith("ok") else {}}]
        p = Pipeline(nodes, trace=drv)
        try:
            p.process(Payload(NoDataType(), ContextType({})))
            outcomes.append("ok")
        except Exception as ex:  # noqa
            outcomes.append("fail:" + type(ex).__name__)
    else:
        n_runs = rng.randint(2, 4)
        failing = set()
        if kind != "launch_ok":
            failing = set(rng.sample(range(n_runs), rng.randint(1, max(1, n_runs - 1))))
        nodes = gen_nodes(rng, d, ctx_factor=True)
        em = RunSpaceTraceEmitter(drv)
        # launch ids as users give them: generated, plain, and with blanks around / inside (the id is an opaque string)
        given = [None, None, "nightly-42", " nightly-42", "nightly 42\t", "  ", "L\u00e9a-1 "][(idx + len(kind)) % 7] if idx >= 2 else [" nightly-42", None][idx % 2]
        launch = RunSpaceLaunchManager().create_launch(run_space_spec_id="a" * 64, run_space_inputs_id=None, provided_launch_id=given)
        tc = TraceContext()
        tc.set_run_space_fk(spec_id="a" * 64, launch_id=launch.id, attempt=launch.attempt)
        em.emit_start(run_space_spec_id="a" * 64, run_space_launch_id=launch.id, run_space_attempt=launch.attempt,
                      run_space_combine_mode="combinatorial", run_space_total_runs=n_runs,
                      run_space_planned_run_count=n_runs)
        p = Pipeline(nodes, trace=drv)
        done = 0
        for i in range(n_runs):
            ctx = {} if i in failing else {"factor": float(i + 1)}
            p.set_run_metadata({"trace_context": tc, "run_space_index": i, "run_space_context": dict(ctx)})
            try:
                p.process(Payload(NoDataType(), ContextType(dict(ctx))))
                outcomes.append("ok")
                done += 1
            except Exception as ex:  # noqa
                outcomes.append("fail:" + type(ex).__name__)
                if kind == "launch_fail_abort":
                    break
        em.emit_end(run_space_launch_id=launch.id, run_space_attempt=launch.attempt,
                    summary={"planned_runs": n_runs, "completed_runs": done})
    drv.close()
    files = read_dir(os.path.join(d, "trace"))
    return world_from_files("w%d:%s" % (idx, kind), files, {"kind": kind, "outcomes": outcomes})


CLI_YAML = """extensions: ["semantiva-examples"]
trace:
  driver: jsonl
  output_path: "%(out)s"
run_space:
  combine: combinatorial
  blocks:
    - mode: by_position
      context:
        factor: [2.0, 3.0, 4.0]
        addend: [1.0, 1.0, 2.0]
        divisor: %(divisors)s
pipeline:
  nodes:
    - processor: FloatValueDataSource
      parameters: { value: 2.0 }
    - processor: FloatMultiplyOperation
    - processor: FloatAddOperation
    - processor: FloatCollectValueProbe
      context_key: out
%(extra)s
"""


def make_world_cli(idx, base, failing):
    d = os.path.join(base, "cli%d" % idx)
    os.makedirs(d)
    out = os.path.join(d, "trace")
    extra = "    - processor: FloatDivideOperation\n"
    divisors = "[1.0, 0.0, 2.0]" if failing else "[1.0, 2.0, 4.0]"
    y = os.path.join(d, "p.yaml")
    with open(y, "w") as f:
        f.write(CLI_YAML % {"out": out, "extra": extra, "divisors": divisors})
    env = dict(os.environ)
    env.update(core.impl_env())
    p = subprocess.run([core.PY, "-m", "semantiva.cli", "run", y], cwd=d, env=env, stdout=subprocess.PIPE,
                       stderr=subprocess.PIPE, text=True, timeout=120)
    files = read_dir(out)
    if not files:
        return None, "cli produced no trace (rc=%s): %s" % (p.returncode, p.stderr[-400:])
    return world_from_files("cli%d:%s" % (idx, "fail" if failing else "ok"), files,
                            {"kind": "cli_launch", "rc": p.returncode}), None


# ----- implementation driver ----------------------------------------------------------------
def coerce_int(v):
    """Replica of aggregator._coerce_int (trusted glue, exercised by the malformed stream)."""
    try:
        return int(v)
    except (TypeError, ValueError):
        return None


def canon_run(v):
    probs = list(v.problems)
    s = v.summary or {}
    exp = s.get("nodes_total_expected")
    cov = s.get("coverage_pct")
    covered = 0
    bad = [p for p in probs if p not in KNOWN_RUN_PROBLEMS]
    if exp and cov is not None:
        covered = int(round(cov * exp / 100.0))
        if round(covered / max(exp, 1) * 100, 2) != cov:
            bad.append("coverage_pct-not-a-ratio")
    if s and (s.get("has_start") != ("missing_pipeline_start" not in probs) or s.get("has_end") != ("missing_pipeline_end" not in probs)):
        bad.append("summary-flags-disagree-with-problems")
    want_order = [p for p in KNOWN_RUN_PROBLEMS if p in probs]
    if [p for p in probs if p in KNOWN_RUN_PROBLEMS] != want_order:
        bad.append("problems-order")
    return {"kind": "run", "id": v.run_id, "unknown": probs == ["unknown_run"], "status": v.status,
            "missing_start": "missing_pipeline_start" in probs, "missing_end": "missing_pipeline_end" in probs,
            "inverted": "start_time_gt_end_time" in probs, "missing": list(v.missing_nodes), "orphan": list(v.orphan_nodes),
            "nonterminal": list(v.nonterminal_nodes), "expected": exp, "observed": s.get("nodes_observed", 0),
            "covered": covered, "bad": bad}


def canon_launch(v):
    probs = list(v.problems)
    s = v.summary or {}
    c = s.get("runs_by_status") or {}
    bad = [p for p in probs if p not in KNOWN_LAUNCH_PROBLEMS]
    return {"kind": "launch", "id": [v.run_space_launch_id, v.run_space_attempt], "unknown": probs == ["unknown_launch"],
            "status": v.status, "missing_start": "missing_run_space_start" in probs,
            "missing_end": "missing_run_space_end" in probs, "total": s.get("runs_total", 0),
            "counts": [c.get("complete", 0), c.get("partial", 0), c.get("invalid", 0)],
            "planned": s.get("planned_run_count"), "bad": bad}


def impl_exec(ops):
    """ops: ("I", record) | ("R", run_id) | ("L", launch_id, attempt).  Returns the verdict of every R / L op."""
    from semantiva.trace.aggregation.aggregator import TraceAggregator
    agg = TraceAggregator()
    outs = []
    for op in ops:
        if op[0] == "I":
            agg.ingest(op[1])
        elif op[0] == "R":
            outs.append(canon_run(agg.finalize_run(op[1])))
        else:
            outs.append(canon_launch(agg.finalize_launch(op[1], op[2])))
    return outs


# ----- record -> model literal ------------------------------------------------------------------
def expected_nodes_of(spec):
    """What _expected_nodes extracts, as a list ([] = nothing usable)."""
    if not spec or not isinstance(spec, dict):
        return []
    nodes = spec.get("nodes")
    if not isinstance(nodes, list):
        return []
    return [e.get("node_uuid") for e in nodes if isinstance(e, dict) and e.get("node_uuid") is not None]


def rec_fields(rec):
    """Normalised view of a record: (tag, dict of raw python values used by the model literal)."""
    t = rec.get("record_type")
    timing = rec.get("timing") or {}
    if t == "run_space_start":
        return "RSStart", {"lid": rec.get("run_space_launch_id"), "att": coerce_int(rec.get("run_space_attempt")),
                           "planned": rec.get("run_space_planned_run_count")}
    if t == "run_space_end":
        return "RSEnd", {"lid": rec.get("run_space_launch_id"), "att": coerce_int(rec.get("run_space_attempt"))}
    if t == "pipeline_start":
        spec = rec.get("pipeline_spec_canonical")
        return "PStart", {"rid": rec.get("run_id"), "spec": None if spec is None else expected_nodes_of(spec),
                          "ts": rec.get("timestamp"), "started": timing.get("started_at"),
                          "lid": rec.get("run_space_launch_id"), "att": coerce_int(rec.get("run_space_attempt"))}
    if t == "pipeline_end":
        return "PEnd", {"rid": rec.get("run_id"), "ts": rec.get("timestamp"), "finished": timing.get("finished_at")}
    if t == "ser":
        ident = rec.get("identity") or {}
        return "Ser", {"rid": ident.get("run_id"), "nid": ident.get("node_id"), "ts": rec.get("timestamp"),
                       "started": timing.get("started_at"), "finished": timing.get("finished_at"),
                       "status": rec.get("status") or "unknown"}
    return "Other", {}


class Enc:
    """Order-preserving numbering of the identifier and timestamp strings of one case."""

    def __init__(self, ops):
        ids, tss = set(), set()
        for op in ops:
            if op[0] == "I":
                tag, f = rec_fields(op[1])
                for k in ("rid", "nid", "lid"):
                    if isinstance(f.get(k), str):
                        ids.add(f[k])
                for x in f.get("spec") or []:
                    ids.add(x)
                for k in ("ts", "started", "finished"):
                    if f.get(k):
                        tss.add(f[k])
            else:
                ids.add(op[1])
        for x in ids:
            if not isinstance(x, str):
                raise TypeError("identifier is not a string: %r" % (x,))
        for x in tss:
            if not isinstance(x, str):
                raise TypeError("timestamp is not a string: %r" % (x,))
        ids.discard("")
        self.ids = {"": 0}
        for i, s in enumerate(sorted(ids)):
            self.ids[s] = i + 1
        self.ts = {s: i + 1 for i, s in enumerate(sorted(tss))}

    def oid(self, v):
        return cq_opt(None if v is None else self.ids[v], cq_N)

    def ots(self, v):
        return cq_opt(self.ts[v] if v else None, cq_Z)

    def oz(self, v):
        return cq_opt(v, cq_Z)

    def idl(self, l):
        return cq_list([self.ids[x] for x in l], cq_N)

    def rec(self, rec):
        tag, f = rec_fields(rec)
        if tag == "RSStart":
            return "(RSStart %s %s %s)" % (self.oid(f["lid"]), self.oz(f["att"]), self.oz(f["planned"]))
        if tag == "RSEnd":
            return "(RSEnd %s %s)" % (self.oid(f["lid"]), self.oz(f["att"]))
        if tag == "PStart":
            return "(PStart %s %s %s %s %s %s)" % (self.oid(f["rid"]), cq_opt(f["spec"], self.idl), self.ots(f["ts"]),
                                                   self.ots(f["started"]), self.oid(f["lid"]), self.oz(f["att"]))
        if tag == "PEnd":
            return "(PEnd %s %s %s)" % (self.oid(f["rid"]), self.ots(f["ts"]), self.ots(f["finished"]))
        if tag == "Ser":
            return "(Ser %s %s %s %s %s %s)" % (self.oid(f["rid"]), self.oid(f["nid"]), self.ots(f["ts"]), self.ots(f["started"]),
                                                self.ots(f["finished"]), cq_N(STATUS_CODES[f["status"]]))
        return "Other"

    def verdict(self, v):
        if v["kind"] == "run":
            return "(mkRV %s %s %s %s %s %s %s %s %s %s %s)" % (
                cq_bool(v["unknown"]), STATUS_TAG[v["status"]], cq_bool(v["missing_start"]), cq_bool(v["missing_end"]),
                cq_bool(v["inverted"]), self.idl(v["missing"]), self.idl(v["orphan"]), self.idl(v["nonterminal"]),
                cq_opt(v["expected"], cq_N), cq_N(v["observed"]), cq_N(v["covered"]))
        return "(mkLV %s %s %s %s %s (mkCounts %s %s %s) %s)" % (
            cq_bool(v["unknown"]), STATUS_TAG[v["status"]], cq_bool(v["missing_start"]), cq_bool(v["missing_end"]),
            cq_N(v["total"]), cq_N(v["counts"][0]), cq_N(v["counts"][1]), cq_N(v["counts"][2]), self.oz(v["planned"]))


def case_literal(ops, outs):
    enc = Enc(ops)
    parts = []
    it = iter(outs)
    for op in ops:
        if op[0] == "I":
            parts.append("OI %s" % enc.rec(op[1]))
        elif op[0] == "R":
            parts.append("OR %s %s" % (cq_N(enc.ids[op[1]]), enc.verdict(next(it))))
        else:
            parts.append("OL %s %s %s" % (cq_N(enc.ids[op[1]]), enc.oz(coerce_int(op[2])), enc.verdict(next(it))))
    return "[" + ";\n  ".join(parts) + "]"


HEADER = """From Coq Require Import List NArith ZArith Bool.
From SV Require Import Model.Aggregator Gen.AggregatorGen.
Import ListNotations.
Inductive op := OI (x : record) | OR (r : N) (v : run_verdict) | OL (l : N) (att : option Z) (v : launch_verdict).
Fixpoint leqb (a b : list N) : bool :=
  match a, b with [], [] => true | x :: a', y :: b' => N.eqb x y && leqb a' b' | _, _ => false end.
Definition oNeqb (a b : option N) := match a, b with Some x, Some y => N.eqb x y | None, None => true | _, _ => false end.
Definition oZeqb (a b : option Z) := match a, b with Some x, Some y => Z.eqb x y | None, None => true | _, _ => false end.
Definition steqb (a b : vstatus) := match a, b with Complete, Complete | Partial, Partial | Invalid, Invalid => true | _, _ => false end.
Definition rveqb (a b : run_verdict) : bool :=
  Bool.eqb (rv_unknown a) (rv_unknown b) && steqb (rv_status a) (rv_status b) &&
  Bool.eqb (rv_missing_start a) (rv_missing_start b) && Bool.eqb (rv_missing_end a) (rv_missing_end b) &&
  Bool.eqb (rv_time_inverted a) (rv_time_inverted b) && leqb (rv_missing a) (rv_missing b) &&
  leqb (rv_orphan a) (rv_orphan b) && leqb (rv_nonterminal a) (rv_nonterminal b) &&
  oNeqb (rv_expected a) (rv_expected b) && N.eqb (rv_observed a) (rv_observed b) && N.eqb (rv_covered a) (rv_covered b).
Definition lveqb (a b : launch_verdict) : bool :=
  Bool.eqb (lv_unknown a) (lv_unknown b) && steqb (lv_status a) (lv_status b) &&
  Bool.eqb (lv_missing_start a) (lv_missing_start b) && Bool.eqb (lv_missing_end a) (lv_missing_end b) &&
  N.eqb (lv_total a) (lv_total b) && N.eqb (c_complete (lv_counts a)) (c_complete (lv_counts b)) &&
  N.eqb (c_partial (lv_counts a)) (c_partial (lv_counts b)) && N.eqb (c_invalid (lv_counts a)) (c_invalid (lv_counts b)) &&
  oZeqb (lv_planned a) (lv_planned b).
Fixpoint exec (a : agg) (ops : list op) : bool :=
  match ops with
  | [] => true
  | OI x :: tl => exec (ingest a x) tl
  | OR r v :: tl => let (a', v') := finalize_run gen_rules a r in rveqb v v' && exec a' tl
  | OL l t v :: tl => let (a', v') := finalize_launch gen_rules a l t in lveqb v v' && exec a' tl
  end.
Definition recs_of (ops : list op) : list record :=
  flat_map (fun o => match o with OI x => [x] | _ => [] end) ops.
Fixpoint bad {A} (ok : A -> bool) (l : list A) (i : nat) : list nat :=
  match l with [] => [] | x :: tl => if ok x then bad ok tl (S i) else i :: bad ok tl (S i) end.
Definition cases : list (list op * bool) := [
%s
].
(* 1: model verdicts vs implementation verdicts *)
Eval vm_compute in bad (fun c => exec empty (fst c)) cases 0.
(* 2: the model's strict well-formedness predicate vs the harness's expectation (real traces: true) *)
Eval vm_compute in bad (fun c => Bool.eqb (wf_strict (recs_of (fst c))) (snd c) && (negb (snd c) || wf (recs_of (fst c)))) cases 0.
"""


# ----- python-side well-formedness expectation (independent replica for stream 2) ----------------
def py_wf_strict(ops):
    seen = set()
    for op in ops:
        if op[0] != "I":
            continue
        tag, f = rec_fields(op[1])
        key = None
        if tag == "Ser" and f["rid"] and f["nid"]:
            key = ("ser", f["rid"], f["nid"])
        elif tag in ("PStart", "PEnd") and f["rid"]:
            key = (tag, f["rid"])
        elif tag in ("RSStart", "RSEnd") and f["lid"] and f["att"] is not None:
            key = (tag, f["lid"], f["att"])
        if key is not None:
            if key in seen:
                return False
            seen.add(key)
    return True


# ----- case construction ------------------------------------------------------------------------
def queries_of(records, extra=True):
    runs, launches = [], []
    for r in records:
        tag, f = rec_fields(r)
        if tag in ("PStart", "PEnd", "Ser") and isinstance(f.get("rid"), str) and f["rid"] not in runs:
            runs.append(f["rid"])
        if tag in ("RSStart", "RSEnd", "PStart") and isinstance(f.get("lid"), str) and f.get("att") is not None:
            if (f["lid"], f["att"]) not in launches:
                launches.append((f["lid"], f["att"]))
    q = [("R", r) for r in runs] + [("L", l, a) for l, a in launches]
    if extra:
        q += [("R", "zz-no-such-run"), ("L", "zz-no-such-launch", 1)]
    return q


def final_view(ops, outs):
    """{query: verdict} of the LAST answer to each query (without the volatile 'id' field)."""
    view = {}
    it = iter(outs)
    for op in ops:
        if op[0] == "I":
            continue
        v = dict(next(it))
        v.pop("id", None)
        view[json.dumps(op[1:] if op[0] == "L" else op[1])] = v
    return view


def documented_run_verdict(recs_of_run):
    """The documented table for the records of ONE run present in a (crash-)prefix, in emission order."""
    if not recs_of_run:
        return {"status": "invalid", "problems": ["unknown_run"], "missing": [], "orphan": []}
    start = recs_of_run[0]
    assert start["record_type"] == "pipeline_start"
    canon = [n["node_uuid"] for n in start["pipeline_spec_canonical"]["nodes"]]
    seen = {r["identity"]["node_id"] for r in recs_of_run if r["record_type"] == "ser"}
    ended = any(r["record_type"] == "pipeline_end" for r in recs_of_run)
    return {"status": "complete" if ended else "partial", "problems": [] if ended else ["missing_pipeline_end"],
            "missing": sorted(set(canon) - seen), "orphan": []}


def run_id_of(rec):
    if rec["record_type"] == "ser":
        return rec["identity"]["run_id"]
    if rec["record_type"] in ("pipeline_start", "pipeline_end"):
        return rec["run_id"]
    return None


def check_prefix_table(ck, world, n, indices, emission_prefix):
    """Direct oracle: feed the records (real, full dicts) to a fresh aggregator and compare with the table."""
    from semantiva.trace.aggregation.aggregator import TraceAggregator
    recs = [world["full"][i] for i in indices]
    agg = TraceAggregator()
    agg.ingest_many(recs)
    all_runs = []
    for r in world["full"]:
        rid = run_id_of(r)
        if rid and rid not in all_runs:
            all_runs.append(rid)
    present = sorted(indices)
    verd = {}
    for rid in all_runs:
        mine = [world["full"][i] for i in present if run_id_of(world["full"][i]) == rid]
        want = documented_run_verdict(mine)
        got = agg.finalize_run(rid)
        verd[rid] = (want["status"], bool(mine))
        obs = {"status": got.status, "problems": list(got.problems), "missing": list(got.missing_nodes), "orphan": list(got.orphan_nodes)}
        for field in ("status", "problems", "missing", "orphan"):
            if obs[field] != want[field]:
                ck.fail_input("C13:prefix-verdict:run:%s" % field,
                              "run verdict of a crash prefix differs from the documented table: %s=%r, documented %r (prefix %d of %s)"
                              % (field, obs[field], want[field], n, world["name"]),
                              {"kind": "prefix", "records": [world["records"][i] for i in indices], "run": rid,
                               "documented": want, "observed": obs})
    if not emission_prefix:
        return
    lrecs = [r for r in world["full"] if r["record_type"].startswith("run_space")]
    if not lrecs:
        return
    lid, att = lrecs[0]["run_space_launch_id"], lrecs[0]["run_space_attempt"]
    got = agg.finalize_launch(lid, att)
    if n == 0:
        want = {"status": "invalid", "problems": ["unknown_launch"], "counts": None, "total": None}
    else:
        started = [rid for rid in all_runs if verd[rid][1]]
        cnt = {"complete": 0, "partial": 0, "invalid": 0}
        for rid in started:
            cnt[verd[rid][0]] += 1
        ended = any(world["full"][i]["record_type"] == "run_space_end" for i in indices)
        st = "partial" if (not ended or cnt["partial"] or cnt["invalid"]) else "complete"
        want = {"status": st, "problems": [] if ended else ["missing_run_space_end"], "counts": cnt, "total": len(started)}
    obs = {"status": got.status, "problems": list(got.problems), "counts": (got.summary or {}).get("runs_by_status"),
           "total": (got.summary or {}).get("runs_total")}
    for field in ("status", "problems", "counts", "total"):
        if obs[field] != want[field]:
            ck.fail_input("C13:prefix-verdict:launch:%s" % field,
                          "launch verdict of a crash prefix differs from the documented table: %s=%r, documented %r (prefix %d of %s)"
                          % (field, obs[field], want[field], n, world["name"]),
                          {"kind": "prefix", "records": [world["records"][i] for i in indices], "launch": [lid, att],
                           "documented": want, "observed": obs})


def interleave(rng, groups):
    """Random k-way merge keeping each group's internal order."""
    pos = [0] * len(groups)
    out = []
    live = [i for i, g in enumerate(groups) if g]
    while live:
        i = rng.choice(live)
        out.append(groups[i][pos[i]])
        pos[i] += 1
        if pos[i] == len(groups[i]):
            live.remove(i)
    return out


def world_cases(rng, world, n_perm, n_inter, n_sub, n_mid):
    """List of (kind, multiset_key, index order, ops builder info)."""
    n = len(world["records"])
    idx = list(range(n))
    out = []
    for k in range(n + 1):
        out.append(("prefix", idx[:k], None))
    for _ in range(n_perm):
        p = idx[:]
        rng.shuffle(p)
        out.append(("perm", p, None))
    for _ in range(n_inter):
        out.append(("interleave", interleave(rng, world["groups"]), None))
        cut = [g[:rng.randint(0, len(g))] for g in world["groups"]]
        out.append(("interleave-prefixes", interleave(rng, cut), None))
    for _ in range(n_sub):
        keep = [i for i in idx if rng.random() < rng.choice([0.3, 0.6, 0.85])]
        out.append(("subset", keep, None))
        for _ in range(2):
            p = keep[:]
            rng.shuffle(p)
            out.append(("subset-perm", p, None))
    for _ in range(n_mid):
        p = idx[:] if rng.random() < 0.5 else [i for i in idx if rng.random() < 0.7]
        rng.shuffle(p)
        out.append(("mid-finalize", p, rng.randint(0, len(p))))
    return out


# ----- synthetic ill-formed stream ------------------------------------------------------------------
def synth_record(rng):
    rid = rng.choice(["r1", "r1", "r2", "r3", "", None])
    nid = rng.choice(["n1", "n2", "n3", "n4", "x9", "", None])
    lid = rng.choice(["L1", "L1", "L2", "", None])
    att = rng.choice([1, 1, 2, "1", "2", None, "x", 1.0, True])
    ts = lambda: rng.choice([None, None, "", "2025-01-01T00:00:0%d.000Z" % rng.randint(0, 9)])  # noqa
    t = rng.randrange(12)
    if t < 5:
        rec = {"record_type": "ser", "identity": {"run_id": rid, "node_id": nid},
               "status": rng.choice(["succeeded", "succeeded", "error", "skipped", "cancelled", "running", "pending", "", None])}
        if rng.random() < 0.7:
            rec["timing"] = {"started_at": ts(), "finished_at": ts()}
        if rng.random() < 0.4:
            rec["timestamp"] = ts()
        if rng.random() < 0.1:
            del rec["identity"]
        return rec
    if t < 8:
        rec = {"record_type": "pipeline_start", "run_id": rid}
        k = rng.randrange(8)
        if k == 0:
            rec["pipeline_spec_canonical"] = None
        elif k == 1:
            rec["pipeline_spec_canonical"] = {}
        elif k == 2:
            rec["pipeline_spec_canonical"] = {"nodes": "n1"}
        elif k == 3:
            rec["pipeline_spec_canonical"] = {"nodes": ["n1", {"x": 1}, {"node_uuid": None}]}
        elif k < 7:
            rec["pipeline_spec_canonical"] = {"nodes": [{"node_uuid": x} for x in rng.sample(["n1", "n2", "n3", "n4", "", "n1"], rng.randint(1, 4))]}
        if rng.random() < 0.6:
            rec["timestamp"] = ts()
        if rng.random() < 0.2:
            rec["timing"] = {"started_at": ts()}
        if rng.random() < 0.6:
            rec["run_space_launch_id"] = lid
        if rng.random() < 0.6:
            rec["run_space_attempt"] = att
        return rec
    if t < 9:
        rec = {"record_type": "pipeline_end", "run_id": rid}
        if rng.random() < 0.6:
            rec["timestamp"] = ts()
        if rng.random() < 0.2:
            rec["timing"] = {"finished_at": ts()}
        return rec
    if t < 10:
        rec = {"record_type": "run_space_start", "run_space_launch_id": lid, "run_space_attempt": att}
        if rng.random() < 0.6:
            rec["run_space_planned_run_count"] = rng.choice([None, 0, 2, 5])
        return rec
    if t < 11:
        return {"record_type": "run_space_end", "run_space_launch_id": lid, "run_space_attempt": att}
    return {"record_type": rng.choice(["trace_header", "future_record", None]), "run_id": rid}


def synth_ops(rng):
    n = rng.randint(0, 14)
    recs = [synth_record(rng) for _ in range(n)]
    if recs and rng.random() < 0.5:       # force duplicates
        for _ in range(rng.randint(1, 3)):
            d = dict(rng.choice(recs))
            if d.get("record_type") == "ser" and rng.random() < 0.7:
                d["status"] = rng.choice(["succeeded", "error", "running", "pending"])
            recs.insert(rng.randint(0, len(recs)), d)
    q = [("R", r) for r in ["r1", "r2", "r3", ""]] + [("L", l, a) for l in ["L1", "L2", ""] for a in (1, 2)] + \
        [("L", "L1", "1"), ("L", "L1", None), ("L", "L1", "x")]
    ops = []
    for r in recs:
        ops.append(("I", r))
        if rng.random() < 0.15:
            ops.append(rng.choice(q))
    rng.shuffle(q)
    ops += q + q[: rng.randint(0, len(q))]
    return ops


# ----- the check -------------------------------------------------------------------------------
def run(ck):
    rng = random.Random(ck.seed * 104729 + 13)
    thorough = ck.tier == "thorough"
    gen = run_all(["aggregator"])
    ck.build_models(["Gen/AggregatorGen.v", "Model/Aggregator.v"])
    proved = ck.prove(gen_results=gen)
    if thorough and proved:
        ck.coqchk()
    setup_impl()
    base = tempfile.mkdtemp(prefix="c13_", dir=os.environ.get("TMPDIR", "/tmp"))
    cases = []          # (ops, outs, expect_wf or None, info)
    stats = {"prefix": 0, "perm": 0, "interleave": 0, "interleave-prefixes": 0, "subset": 0, "subset-perm": 0,
             "mid-finalize": 0, "synthetic": 0, "corpus": 0}
    try:
        # ---- corpus first
        cdir = os.path.join(core.ROOT, "corpus", "C13")
        for p in sorted(glob.glob(os.path.join(cdir, "*.json"))):
            obj = json.load(open(p))
            ops = [tuple(o) for o in obj["ops"]]
            cases.append((ops, None, obj.get("wf_strict"), {"kind": "corpus", "file": os.path.basename(p)}))
            stats["corpus"] += 1

        # ---- real traces
        worlds = []
        n_worlds = 60 if thorough else 15
        for i in range(n_worlds):
            try:
                w = make_world_inproc(rng, i, base)
            except Exception as ex:  # noqa
                ck.corr_problem("could not produce a real trace (world %d)" % i, repr(ex))
                continue
            worlds.append(w)
        for j, failing in enumerate([False, True] if not thorough else [False, True, True]):
            w, err = make_world_cli(j, base, failing)
            if w is None:
                ck.corr_problem("CLI launch produced no trace", err)
            else:
                worlds.append(w)
        shapes = {}
        for w in worlds:
            shapes[w["shape"]["kind"]] = shapes.get(w["shape"]["kind"], 0) + 1
            # slim records must be equivalent to the full records for the aggregator
            from semantiva.trace.aggregation.aggregator import TraceAggregator
            a1, a2 = TraceAggregator(), TraceAggregator()
            a1.ingest_many(w["full"])
            a2.ingest_many(w["records"])
            if a1.finalize_all() != a2.finalize_all():
                ck.corr_problem("slimmed records change the verdict (harness projection is wrong)", w["name"])
        # ---- the same records handed over in every accepted form (one by one, a list, a tuple, a one-shot iterator, a generator
        #      reading lazily, chunks) give the same verdicts; and traces of INDEPENDENT driver instances (each numbers its
        #      records from 1 again) merged into one aggregator give each run the verdict it has alone, in both file orders
        def verdict_key(agg):
            runs, launches = agg.finalize_all()
            return (sorted((repr(r) for r in runs)), sorted((repr(l) for l in launches)))
        forms_checked = 0
        for w in worlds:
            recs = list(w["full"])
            ref = TraceAggregator()
            for r in recs:
                ref.ingest(r)
            want = verdict_key(ref)
            forms = {"list": lambda: recs, "tuple": lambda: tuple(recs), "iterator": lambda: iter(recs), "generator": lambda: (r for r in recs),
                     "lazy-json-lines": lambda: (json.loads(l) for l in [json.dumps(r) for r in recs])}
            for fname, mk in forms.items():
                a = TraceAggregator()
                a.ingest_many(mk())
                forms_checked += 1
                if verdict_key(a) != want:
                    ck.fail_input("C13:ingest_many-form-changes-verdict:" + fname,
                                  "world %s (%d records): ingest_many(<%s>) gives other verdicts than ingesting the same records one by one" % (w["name"], len(recs), fname),
                                  {"kind": "ingest-form", "form": fname, "world": w["name"], "records": recs[:60]})
                    break
            # a monitor that re-reads a growing file from the top sees records again: the verdicts depend on the SET of records
            for fname, seq in (("whole-file-read-twice", recs + recs), ("prefix-then-whole-file", recs[: len(recs) // 2] + recs),
                               ("every-record-twice-in-a-row", [r for x in recs for r in (x, x)])):
                a = TraceAggregator()
                a.ingest_many(seq)
                forms_checked += 1
                if verdict_key(a) != want:
                    ck.fail_input("C13:repeated-records-change-verdict:" + fname,
                                  "world %s (%d records): ingesting %s gives other verdicts than ingesting each record once" % (w["name"], len(recs), fname),
                                  {"kind": "ingest-form", "form": fname, "world": w["name"], "records": recs[:60]})
                    break
            a = TraceAggregator()
            for i in range(0, len(recs), 3):
                a.ingest_many(r for r in recs[i:i + 3])
            if verdict_key(a) != want:
                ck.fail_input("C13:ingest_many-form-changes-verdict:chunks", "world %s: chunked generators give other verdicts" % w["name"],
                              {"kind": "ingest-form", "form": "chunks", "world": w["name"], "records": recs[:60]})
        for i in range(len(worlds) - 1):
            wa, wb = worlds[i], worlds[i + 1]
            ra, rb = list(wa["full"]), list(wb["full"])
            ids_a = {run_id_of(r) for r in ra} - {None}
            ids_b = {run_id_of(r) for r in rb} - {None}
            if ids_a & ids_b:
                continue
            alone = {}
            for recs in (ra, rb):
                ag = TraceAggregator()
                ag.ingest_many(recs)
                for rid in {run_id_of(r) for r in recs} - {None}:
                    alone[rid] = repr(ag.finalize_run(rid))
            for order, recs in (("a then b", ra + rb), ("b then a", rb + ra)):
                ag = TraceAggregator()
                ag.ingest_many(recs)
                forms_checked += 1
                bad = [rid for rid in sorted(alone) if repr(ag.finalize_run(rid)) != alone[rid]]
                if bad:
                    ck.fail_input("C13:merged-independent-traces-change-a-run-verdict",
                                  "traces of two independent launches (own driver each: worlds %s, %s) ingested %s into one aggregator: run %s gets %s, alone it gets %s"
                                  % (wa["name"], wb["name"], order, bad[0][:12], repr(ag.finalize_run(bad[0]))[:200], alone[bad[0]][:200]),
                                  {"kind": "merged-traces", "order": order, "worlds": [wa["name"], wb["name"]], "records": recs[:80]})
                    break
        stats["ingest_forms_and_merges"] = forms_checked
        ck.notes["worlds"] = {"count": len(worlds), "by_kind": shapes,
                              "trace_lengths": sorted(len(w["records"]) for w in worlds),
                              "outcomes": [w["shape"] for w in worlds][:12]}

        order_groups = {}
        for wi, w in enumerate(worlds):
            mult = 5 if thorough else 1
            specs = world_cases(rng, w, 12 * mult, 5 * mult, 8 * mult, 6 * mult)
            q = queries_of(w["records"])
            for kind, order, mid in specs:
                recs = [w["full"][i] for i in order]     # the records as emitted (not the projection the model reads)
                if kind == "mid-finalize":
                    ops = [("I", r) for r in recs[:mid]] + q + [("I", r) for r in recs[mid:]] + q + q
                else:
                    ops = [("I", r) for r in recs] + q + q
                cases.append((ops, None, True, {"kind": kind, "world": w["name"], "order": order, "wi": wi, "nq": len(q)}))
                stats[kind] += 1
                if kind == "prefix":
                    check_prefix_table(ck, w, len(order), order, True)
                elif kind == "interleave-prefixes":
                    check_prefix_table(ck, w, len(order), order, False)

        # ---- synthetic ill-formed stream
        n_syn = 12000 if thorough else 1500
        for _ in range(n_syn):
            ops = synth_ops(rng)
            cases.append((ops, None, py_wf_strict(ops), {"kind": "synthetic"}))
            stats["synthetic"] += 1

        # ---- run the implementation on every case
        done = []
        for ops, _, wfexp, info in cases:
            try:
                outs = impl_exec(ops)
            except Exception as ex:  # noqa
                ck.corr_problem("implementation raised on a generated case", "%r  ops=%s" % (ex, json.dumps(ops)[:600]), case={"ops": ops})
                continue
            if wfexp is None:
                wfexp = py_wf_strict(ops)
            done.append((ops, outs, wfexp, info))
        cases = done

        # ---- direct oracles on the implementation outputs
        for ops, outs, wfexp, info in cases:
            for v in outs:
                if v["bad"]:
                    ck.fail_input("C13:verdict-shape:" + v["bad"][0], "finalize output outside the documented vocabulary: %s" % v["bad"],
                                  {"kind": "ops", "ops": ops})
            # second finalize: the trailing query block is asked twice
            if info["kind"] != "synthetic" and info["kind"] != "corpus":
                nq = info["nq"]
                half = nq
                nq = 2 * nq
                first, second = outs[len(outs) - nq: len(outs) - half], outs[len(outs) - half:]
                for a, b in zip(first, second):
                    if a != b:
                        field = next(k for k in a if a[k] != b[k])
                        ck.fail_input("C13:finalize-not-idempotent:%s:%s" % (a["kind"], field),
                                      "second finalize of %s %r changed %s: %r -> %r" % (a["kind"], a["id"], field, a[field], b[field]),
                                      {"kind": "ops", "ops": ops})
                view = final_view(ops, outs)
                if info["kind"] == "mid-finalize":
                    # same order without the intermediate finalize calls
                    plain = [o for o in ops if o[0] == "I"] + ops[len(ops) - info["nq"]:]
                    pview = final_view(plain, impl_exec(plain))
                    if pview != view:
                        qd = next(k for k in view if view[k] != pview.get(k))
                        field = next(f for f in view[qd] if view[qd][f] != pview[qd].get(f))
                        ck.fail_input("C13:verdict-changed-by-intermediate-finalize:%s:%s" % (view[qd]["kind"], field),
                                      "finalize calls between ingests changed the final verdict of %s: %s=%r vs %r"
                                      % (qd, field, view[qd][field], pview[qd].get(field)),
                                      {"kind": "pair", "ops_a": ops, "ops_b": plain})
                key = (info["wi"], tuple(sorted(info["order"])))
                order_groups.setdefault(key, []).append((ops, view, info))
            else:
                # any query answered twice in a row with no ingest in between must agree
                last = {}
                it = iter(outs)
                for op in ops:
                    if op[0] == "I":
                        last = {}
                        continue
                    v = next(it)
                    k = json.dumps(op)
                    if k in last and last[k] != v:
                        field = next(f for f in v if v[f] != last[k][f])
                        ck.fail_input("C13:finalize-not-idempotent:%s:%s" % (v["kind"], field),
                                      "repeated finalize changed %s" % field, {"kind": "ops", "ops": ops})
                    last[k] = v
        multi = 0
        for key, group in order_groups.items():
            if len(group) < 2:
                continue
            multi += 1
            ops0, view0, info0 = group[0]
            for ops1, view1, info1 in group[1:]:
                if view1 != view0:
                    q = next(k for k in view0 if view0[k] != view1.get(k))
                    field = next(f for f in view0[q] if view0[q][f] != view1[q].get(f))
                    sig = "C13:verdict-order-dependent:%s:%s" % (view0[q]["kind"], field)
                    ck.fail_input(sig, "same record multiset, different verdict for %s: %s=%r vs %r (%s vs %s)"
                                  % (q, field, view0[q][field], view1[q].get(field), info0["kind"], info1["kind"]),
                                  {"kind": "pair", "ops_a": ops0, "ops_b": ops1})
        ck.notes["multisets_seen_in_more_than_one_order"] = multi

        # ---- correspondence inside Coq
        shard = 250
        texts, lits = [], []
        for ops, outs, wfexp, info in cases:
            try:
                lits.append("(%s, %s)" % (case_literal(ops, outs), cq_bool(wfexp)))
            except Exception as ex:  # noqa
                ck.corr_problem("case cannot be encoded for the model", "%r ops=%s" % (ex, json.dumps(ops)[:500]))
                lits.append(None)
        enc_cases = [(c, l) for c, l in zip(cases, lits) if l is not None]
        for i in range(0, len(enc_cases), shard):
            texts.append(HEADER % ";\n".join(l for _, l in enc_cases[i:i + shard]))
        per, errs = core.mismatches("C13", texts, expect_lists=2, timeout=900)
        agreed = 0
        for k, ls in enumerate(per):
            if ls is None:
                continue
            nshard = min(shard, len(enc_cases) - k * shard)
            agreed += nshard - len(ls[0])
            for b in ls[0][:4]:
                (ops, outs, wfexp, info), _ = enc_cases[k * shard + b]
                ck.corr_problem("model verdicts differ from TraceAggregator's (%s case)" % info["kind"],
                                "ops=%s\nimplementation=%s" % (json.dumps(ops)[:1500], json.dumps(outs)[:1500]),
                                case={"ops": ops, "impl": outs})
                _save_corpus(ops, wfexp, "disagree")
            for b in ls[1][:4]:
                (ops, outs, wfexp, info), _ = enc_cases[k * shard + b]
                ck.corr_problem("wf_strict of the model differs from the expected well-formedness (%s case; real traces must be well-formed)" % info["kind"],
                                "expected=%s ops=%s" % (wfexp, json.dumps(ops)[:1500]), case={"ops": ops})
        for k, rc, out in errs:
            ck.corr_problem("correspondence shard %d did not evaluate (rc=%s)" % (k, rc), out)
        ck.cov["traces_validated_against_impl"] = agreed
        ck.log("correspondence: %d/%d cases agree (%s)" % (agreed, len(enc_cases), stats))

        # ---- coverage
        distinct = set()
        nontrivial = 0
        for (ops, outs, wfexp, info), lit in enc_cases:
            if lit in distinct:
                continue
            distinct.add(lit)
            if info["kind"] in ("synthetic", "corpus"):
                nontrivial += 1 if any(o[0] == "I" for o in ops) else 0
            elif info["kind"] == "prefix":
                nontrivial += 1 if 0 < len(info["order"]) else 0
            else:
                nontrivial += 1 if info["order"] != sorted(info["order"]) or info["kind"] in ("subset", "mid-finalize") else 0
        ck.cov["evaluations"] = len(enc_cases)
        ck.cov["distinct_nontrivial"] = nontrivial
        ck.cov["rule"] = ("one evaluation = one op list (ingests + finalize queries, every finalize output compared in Coq); "
                          "%d real traces (%s) x every prefix / random permutations / k-way interleavings of per-run files and of "
                          "file prefixes / random subsets in 3 orders / finalize in the middle; + %d synthetic ill-formed lists; "
                          "non-trivial = distinct literal that is a non-empty prefix, a non-identity order, a proper subset, "
                          "has an intermediate finalize, or (synthetic) ingests at least one record; by kind: %s"
                          % (len(worlds), shapes, stats["synthetic"], stats))
        ck.notes["input_distribution"] = {
            "real": "in-process Pipeline runs through the orchestrator with JsonlTraceDriver (directory mode): 1 source, 1-4 float ops/probes, "
                    "optional sink; failing node = FloatMultiplyOperation without factor at a random position; launches of 2-4 runs, failing "
                    "runs chosen at random, both continue-after-failure and abort-at-first-failure; plus CLI `semantiva.cli run` launches",
            "synthetic": "0-14 records over run ids {r1,r2,r3,'',None}, node ids {n1..n4,x9,'',None}, launch ids {L1,L2,'',None}, attempts "
                         "{1,2,'1','2',None,'x',1.0,True}, statuses incl. non-terminal/empty, timestamps from 10 values/''/None, spec variants "
                         "(None, {}, nodes not a list, junk entries, duplicates), unknown record types, forced duplicates in 50%, finalize "
                         "calls interleaved with probability 0.15 per record",
            "kinds": stats}
        smp = []
        for (ops, outs, wfexp, info), _ in enc_cases[:: max(1, len(enc_cases) // 10)][:10]:
            smp.append({"kind": info["kind"], "world": info.get("world"), "n_ops": len(ops),
                        "verdicts": [{k: v[k] for k in ("kind", "status", "missing_start", "missing_end")} for v in outs[:3]]})
        ck.cov["samples"] = smp
    finally:
        shutil.rmtree(base, ignore_errors=True)
    ck.cov["trusted_base"] = TRUSTED


def _save_corpus(ops, wfexp, tag):
    d = os.path.join(core.BUILD, "C13_found")
    os.makedirs(d, exist_ok=True)
    n = len(glob.glob(os.path.join(d, "*.json")))
    if n < 20:
        json.dump({"ops": ops, "wf_strict": wfexp}, open(os.path.join(d, "%s_%d.json" % (tag, n)), "w"))


def replay(obj):
    setup_impl()
    r = obj["replay"]
    if r["kind"] == "pair":
        a, b = impl_exec([tuple(o) for o in r["ops_a"]]), impl_exec([tuple(o) for o in r["ops_b"]])
        va, vb = final_view([tuple(o) for o in r["ops_a"]], a), final_view([tuple(o) for o in r["ops_b"]], b)
        for k in va:
            if va[k] != vb.get(k):
                print("query", k, "\n  order A:", va[k], "\n  order B:", vb.get(k))
        return 0
    if r["kind"] == "prefix":
        from semantiva.trace.aggregation.aggregator import TraceAggregator
        agg = TraceAggregator()
        agg.ingest_many(r["records"])
        if "run" in r:
            print("finalize_run:", agg.finalize_run(r["run"]))
        else:
            print("finalize_launch:", agg.finalize_launch(*r["launch"]))
        print("documented:", r["documented"])
        return 0
    if r["kind"] in ("ingest-form", "merged-traces"):
        from semantiva.trace.aggregation.aggregator import TraceAggregator
        recs = r["records"]
        one, many = TraceAggregator(), TraceAggregator()
        for x in recs:
            one.ingest(x)
        many.ingest_many(x for x in recs)
        print("stored records (first %d): record by record ->" % len(recs), one.finalize_all()[0][:3])
        print("ingest_many(generator)            ->", many.finalize_all()[0][:3])
        print("(%s)" % json.dumps({k: v for k, v in r.items() if k != "records"}))
        return 0
    outs = impl_exec([tuple(o) for o in r["ops"]])
    for v in outs:
        print(v)
    return 0


TRUSTED = [
    "Coq 8.16.1 kernel (coqc), vm_compute; no native_compute",
    "model: coq/Model/Aggregator.v (hand-written ingest/finalize over key-sorted association lists) instantiated with the status "
    "chains and _TERMINAL generated from aggregator.py; Python dict/set iteration order is modelled as irrelevant (sorted maps)",
    "translator harness/translate/aggregator.py (fail-closed on unknown condition atoms / chain shapes)",
    "correspondence harness: order-preserving numbering of id and timestamp strings (rank in Python string order; '' = 0), "
    "replicas of _coerce_int and _expected_nodes used to build model literals, canonicalisation of RunCompleteness / "
    "LaunchCompleteness (coverage_pct turned back into its integer numerator)",
    "modelled not verified: Python str comparison of RFC3339 timestamps, sorted() on str, dict/set semantics",
]
FINISH = {"level": "proof", "assumptions": [
    "order-independence is claimed for well-formed record multisets (no two SERs of one (run,node), no two pipeline_start of one run, "
    "no two run_space_start of one launch attempt); the runtime's traces satisfy the stricter wf_strict (checked on every real trace)",
    "identifiers and timestamps are strings (or null); attempts are coercible by int() or rejected by it with TypeError/ValueError"]}
