"""C14 -- In-memory transport delivers every message exactly once, in channel order.

proof side : Properties/C14.v over Model/Transport.v (small-step interleaving model, all schedules, any number
             of publishers / subscribers / messages), parameterised by Gen/TransportGen.v (atomic_create, locked_ops)
tie        : TRACE VALIDATION.  Schedules of the *real* InMemorySemantivaTransport are enumerated up to a
             preemption bound with the deterministic baton scheduler (harness/sched); every real run yields a
             model-level event trace (AST anchors -> events); Coq replays it strictly (each event must be
             enabled) and compares delivered lists / leftovers with the real ones.
search     : direct oracle on every real run (multiset, duplicates, per-(thread,channel) order, foreign channel).
"""
from __future__ import annotations

import json
import os
import random
from concurrent.futures import ThreadPoolExecutor

from harness import core
from harness.core import cq_list, cq_nat, cq_str
from harness.translate import run_all

DRIVER = "sched/c14_driver.py"


def P(*chans):
    return {"pub": list(chans)}


def S(pat):
    return {"sub": pat}


def scn(name, pre, *threads):
    return {"name": name, "pre": list(pre), "threads": list(threads)}


# (scenario, bound, points, budget_s) -- points: "shared" = preempt only before steps touching shared state,
# "events" = before every modelled statement, "lines" = before every source line of publish/__iter__
QUICK = [
    (scn("2 first publishers of one new channel", [], P("c"), P("c")), 2, "events", 40),
    (scn("2 first publishers + exact subscriber", [], P("c"), P("c"), S("c")), 2, "shared", 40),
    (scn("3 first publishers of one new channel", [], P("c"), P("c"), P("c")), 2, "shared", 40),
    (scn("existing + new channel, prefix-star subscriber", ["a"], P("a", "b.x"), P("b.x"), S("b.*")), 2, "shared", 50),
    (scn("existing channel only, 2 messages of one thread, star subscriber", ["a"], P("a", "a"), P("a"), S("*")), 2, "shared", 50),
    (scn("two channels, exact + star subscriber", ["a"], P("a"), P("b"), S("a"), S("*")), 1, "shared", 50),
    (scn("2 first publishers, line granularity", [], P("c"), P("c")), 2, "lines", 40),
    (scn("2 publishers, 2 competing subscribers on one existing channel", ["a"], P("a", "a"), P("a"), S("a"), S("a*")), 1, "shared", 60),
    (scn("3 publishers, exact + star subscriber, existing and new", ["a"], P("a", "c"), P("c", "a"), P("c"), S("c"), S("*")), 1, "shared", 60),
    (scn("new channels seen by a running star subscriber", [], P("x.1"), P("x.2"), S("x.*")), 2, "shared", 60),
    (scn("bracket and question-mark patterns over existing and new channels", ["jobs.1.cfg"], P("jobs.1.cfg", "jobs.2.cfg"), P("jobs.3.cfg"),
         S("jobs.[12].cfg"), S("jobs.?.cfg")), 1, "shared", 60),
]
THOROUGH = [
    (scn("2 first publishers of one new channel", [], P("c"), P("c")), 3, "lines", 200),
    (scn("2 first publishers + exact subscriber", [], P("c"), P("c"), S("c")), 3, "events", 420),
    (scn("3 first publishers of one new channel", [], P("c"), P("c"), P("c")), 3, "events", 420),
    (scn("3 publishers x 2 messages, new channel", [], P("c", "c"), P("c", "c"), P("c")), 2, "shared", 420),
    (scn("existing + new channel, prefix-star subscriber", ["a"], P("a", "b.x"), P("b.x"), S("b.*")), 3, "shared", 420),
    (scn("existing channel only, 2 messages of one thread, star subscriber", ["a"], P("a", "a"), P("a"), S("*")), 3, "shared", 420),
    (scn("two channels, exact + star subscriber", ["a"], P("a"), P("b"), S("a"), S("*")), 2, "shared", 420),
    (scn("2 publishers, 2 competing subscribers on one existing channel", ["a"], P("a", "a"), P("a"), S("a"), S("a*")), 2, "shared", 420),
    (scn("3 publishers, exact + star subscriber, existing and new", ["a"], P("a", "c"), P("c", "a"), P("c"), S("c"), S("*")), 2, "shared", 420),
    (scn("new channels seen by a running star subscriber", [], P("x.1"), P("x.2"), S("x.*")), 3, "events", 420),
    (scn("existing + new channel, prefix-star subscriber, line granularity", ["a"], P("a", "b.x"), P("b.x"), S("b.*")), 2, "lines", 420),
]

GLOB = set("*?[]")


def pat_lit(p):
    if not (set(p) & GLOB):
        return "(PExact %s)" % cq_str(p)
    if p.endswith("*") and not (set(p[:-1]) & GLOB):
        return "(PPrefix %s)" % cq_str(p[:-1])
    return "(PGlob %s)" % cq_str(p)          # any shell-style pattern: Model/Glob.v


def thread_lit(t):
    if "pub" in t:
        return "(pub %s)" % cq_list(t["pub"], cq_str)
    return "(sub %s)" % pat_lit(t["sub"])


def triple_lit(p):
    return "(%s, %s, %s)" % (cq_nat(p[0]), cq_nat(p[1]), cq_str(p[2]))


def case_lit(sc, ex, locked_ops):
    evs = []
    for tid, ev in ex["events"]:
        evs.append("(%s, E%s)" % (cq_nat(tid), ev))
        if ev == "Pop" and not locked_ops:     # unlocked variant: `if q` and `q.popleft()` are separate model steps
            evs.append("(%s, EPop)" % cq_nat(tid))
    return "mkCase %s %s %s %s %s" % (
        cq_list(sc["pre"], cq_str), cq_list([thread_lit(t) for t in sc["threads"]]), cq_list(evs),
        cq_list([cq_list([triple_lit(p) for p in d]) for d in ex["delivered"]]),
        cq_list(["(%s, %s)" % (cq_str(c), cq_list([triple_lit(p) for p in l])) for c, l in ex["left"]]))


HEADER = """From Coq Require Import List String Bool Arith.
From SV Require Import Model.Transport Gen.TransportGen.
Import ListNotations. Open Scope string_scope.
Definition cases : list case := [
%s
].
Eval vm_compute in bad_from facts 0 cases.
"""
REASON = {1: "the model rejects the real event trace (an event was not enabled)", 2: "threads not finished in the model",
          3: "delivered lists differ", 4: "leftover queues differ"}


def run_job(job, timeout):
    return core.run_impl(DRIVER, input_obj=job, timeout=timeout)


def corpus_entries():
    d = os.path.join(core.ROOT, "corpus", "C14")
    out = []
    for f in sorted(os.listdir(d)) if os.path.isdir(d) else []:
        if f.endswith(".json"):
            out.append((f, json.load(open(os.path.join(d, f)))))
    return out


def run(ck):
    thorough = ck.tier == "thorough"
    rng = random.Random(ck.seed * 104729 + 14)
    gen = run_all(["transport"])
    ck.build_models(["Model/Transport.v", "Gen/TransportGen.v"])
    proved = ck.prove(gen_results=gen)
    if thorough and proved:
        ck.coqchk()

    # ---------- facts the translator read (also decides how Pop is mapped)
    try:
        from harness.translate import transport as tr
        facts = tr.analyse()
    except Exception as ex:  # anchors not found: no trace validation possible -> recorded by gen_results already
        ck.corr_problem("transport anchors not found; trace validation impossible", repr(ex))
        fallback_search(ck, thorough)
        ck.cov["trusted_base"] = TRUSTED
        return
    ck.notes["facts"] = {k: facts[k] for k in ("atomic_create", "locked_ops", "table", "path")}
    ck.notes["anchors"] = {fn: {str(k): v for k, v in f["events"].items() if v != "Tau"} for fn, f in facts["funcs"].items()}
    ck.notes["lock_bodies_never_switch_points"] = {fn: f["lock_bodies"] for fn, f in facts["funcs"].items()}

    # ---------- corpus first: stored failing schedules, replayed on the real code
    found = {}   # signature -> (cost, what, replay)

    def note(sig, what, rep, cost):
        if sig not in found or cost < found[sig][0]:
            found[sig] = (cost, what, rep)

    corpus_hits = 0
    for fname, obj in corpus_entries():
        res, err = run_job({"scenario": obj["scenario"], "schedule": obj["schedule"], "points": obj.get("points", "events")}, 120)
        if res is None:
            ck.corr_problem("corpus replay %s did not run" % fname, err)
            continue
        for sig, what in res["oracle"]:
            corpus_hits += 1
            note(sig, what + " [corpus %s]" % fname, {"scenario": obj["scenario"], "schedule": obj["schedule"],
                                                       "points": obj.get("points", "events")}, (0, 0))
    ck.notes["corpus"] = {"entries": len(corpus_entries()), "oracle_hits": corpus_hits}

    sequential_oracles(ck)
    glob_correspondence(ck, random.Random(ck.seed * 31 + 14), 6000 if thorough else 1500)
    callback_oracle(ck)

    # ---------- enumerate schedules of the real code
    plan = THOROUGH if thorough else QUICK
    jobs = [{"scenario": sc, "bound": b, "points": pts, "budget_s": bud, "stall_s": 3.0} for sc, b, pts, bud in plan]
    with ThreadPoolExecutor(max_workers=min(core.NPROC, len(jobs))) as ex:
        outs = list(ex.map(lambda j: run_job(j, j["budget_s"] + 90), jobs))
    cases, meta = [], []
    total = nontrivial = 0
    per_scn = []
    stalls = 0
    seen_case = set()
    for job, (res, err) in zip(jobs, outs):
        sc = job["scenario"]
        if res is None:
            ck.corr_problem("scheduler run did not complete: %s" % sc["name"], str(err)[-1500:], case=job)
            continue
        if os.path.realpath(res["file"]) != os.path.realpath(facts["path"]):
            ck.corr_problem("driver imported a different in_memory.py than the translator analysed", res["file"])
        cnt = res["counts"]
        bad_status = cnt.get("stall", 0) + cnt.get("deadlock", 0)
        stalls += bad_status
        n_viol = 0
        for e in res["executions"]:
            total += 1
            if e.get("dup"):
                continue
            if e["status"] in ("stall", "deadlock"):
                continue
            for sig, what in e["oracle"]:
                n_viol += 1
                note(sig, what + " | scenario: %s" % sc["name"],
                     {"scenario": sc, "schedule": e["schedule"], "points": job["points"]},
                     (len(sc["threads"]) * 100 + e["preemptions"], len(e["schedule"])))
            if e["status"] != "ok":
                continue
            lit = case_lit(sc, e, facts["locked_ops"])
            if lit in seen_case:
                continue
            seen_case.add(lit)
            if e["preemptions"] > 0:
                nontrivial += 1
            cases.append(lit)
            meta.append((sc, e, job["points"]))
        per_scn.append({"scenario": sc["name"], "bound": job["bound"], "points": job["points"], "executions": len(res["executions"]),
                        "complete_up_to_bound": res["complete"], "oracle_violations": n_viol, "inconclusive": bad_status})
        ck.log("%-70s bound=%d %-6s runs=%d complete=%s violations=%d" % (sc["name"][:70], job["bound"], job["points"],
                                                                          len(res["executions"]), res["complete"], n_viol))
    if stalls:
        ck.corr_problem("%d schedule(s) inconclusive (scheduler stall / deadlock under the watchdog)" % stalls,
                        json.dumps(per_scn)[:1500])
    ck.notes["scenarios"] = per_scn
    ck.cov["evaluations"] = total

    # ---------- trace validation inside Coq
    cap = 45000 if thorough else 9000
    if len(cases) > cap:
        idx = sorted(rng.sample(range(len(cases)), cap))
        ck.notes["trace_sample"] = "replayed %d of %d distinct traces (seeded sample)" % (cap, len(cases))
        cases = [cases[i] for i in idx]
        meta = [meta[i] for i in idx]
    shard = 300
    texts = [HEADER % ";\n".join(cases[i:i + shard]) for i in range(0, len(cases), shard)]
    per, errs = core.mismatches("C14", texts, timeout=900) if texts else ([], [])
    agreed = 0
    shown = 0
    for k, ls in enumerate(per):
        if ls is None:
            continue
        n = min(shard, len(cases) - k * shard)
        agreed += n - len(ls[0])
        for code in ls[0]:
            if shown >= 6:
                break
            shown += 1
            i, why = k * shard + code // 10, code % 10
            sc, e, pts = meta[i]
            ck.corr_problem("trace validation: " + REASON.get(why, "?"),
                            json.dumps({"scenario": sc, "schedule": e["schedule"], "events": e["events"],
                                        "delivered": e["delivered"], "left": e["left"]})[:1800],
                            case={"scenario": sc, "schedule": e["schedule"], "points": pts})
    for k, rc, out in errs:
        ck.corr_problem("trace-validation shard %d did not evaluate (rc=%s)" % (k, rc), out)
    ck.cov["traces_validated_against_impl"] = agreed
    ck.cov["distinct_nontrivial"] = nontrivial
    ck.cov["rule"] = ("evaluations = executions of the real transport under the baton scheduler, all schedules up to the "
                      "preemption bound per scenario (see notes.scenarios; complete_up_to_bound says whether the enumeration "
                      "finished inside its time budget); distinct = distinct (scenario, model event trace, observable); "
                      "non-trivial = at least one preemption (a thread switched out while still runnable)")
    ck.cov["samples"] = [{"scenario": m[0]["name"], "schedule": m[1]["schedule"], "events": m[1]["events"][:14],
                          "delivered": m[1]["delivered"], "left": m[1]["left"]} for m in (meta[:3] + meta[len(meta) // 2: len(meta) // 2 + 3] + meta[-3:])]
    ck.log("trace validation: %d/%d real traces accepted with equal observables; %d executions, %d shard errors"
           % (agreed, len(cases), total, len(errs)))

    # ---------- direct oracle results
    for sig, (cost, what, rep) in sorted(found.items()):
        ck.fail_input(sig, what, rep)
    if not facts["atomic_create"] and not any(s.startswith("C14:lost-message") for s in found):
        ck.corr_problem("generated fact atomic_create = false but no schedule losing a message was found",
                        "the conditional theorem C14_full does not apply and the refutation was not reproduced on the real code")
    ck.cov["trusted_base"] = TRUSTED


def fallback_search(ck, thorough):
    """The transport was reshaped and the anchored analysis failed: look for a concrete failing input with
    (a) sequential operation sequences and (b) statement-level schedule enumeration with generic switch
    points (every `with` body is a critical section); only the direct oracle applies."""
    res, err = run_job({"sequential": True}, 120)
    n = 0
    if res is None:
        ck.corr_problem("sequential oracle run did not complete", str(err)[-800:])
    else:
        for sig, what in res["oracle"]:
            ck.fail_input(sig, what, {"sequential": True})
    small = [scn("fallback: two first publishers", [], P("c"), P("c")),
             scn("fallback: publisher vs exact subscriber on a new channel", [], P("c"), S("c")),
             scn("fallback: publisher vs star subscriber", [], P("c", "c"), S("*")),
             scn("fallback: two publishers one subscriber", [], P("a", "a"), P("a"), S("a")),
             scn("fallback: two publishers on two existing channels", ["a", "b"], P("a", "a"), P("b", "b")),
             scn("fallback: two publishers on two channels, one new", ["a"], P("a", "b"), P("b", "a")),
             scn("fallback: publishers on two channels and an exact subscriber", ["a", "b"], P("a"), P("b"), S("b"))]
    jobs = [{"scenario": sc, "bound": 2 if thorough else 1, "points": "lines", "budget_s": 120 if thorough else 40, "stall_s": 2.0} for sc in small]
    with ThreadPoolExecutor(max_workers=len(jobs)) as ex:
        outs = list(ex.map(lambda j: run_job(j, j["budget_s"] + 60), jobs))
    for job, (r, e) in zip(jobs, outs):
        if r is None:
            continue
        for x in r["executions"]:
            n += 1
            for sig, what in x.get("oracle", []):
                ck.fail_input(sig, what + " | scenario: %s (generic statement-level points)" % job["scenario"]["name"],
                              {"scenario": job["scenario"], "schedule": x["schedule"], "points": "lines"})
    # pattern routing end to end (the standard library's fnmatch as referee) and callback subscriptions
    import fnmatch as _fn
    rng = random.Random(ck.seed * 31 + 14)
    pats = ["jobs.*.cfg", "a*a", "ab*ba", "*.x.*", "x.*x.", "jobs.[12].cfg", "jobs.?.cfg", "*", "a*", "a", "[!a]*", "*.[sc]*"]
    names = ["jobs.1.cfg", "jobs.cfg", "jobs..cfg", "a", "aa", "aba", "abba", ".x.", "x.x.", "jobs.3.cfg", "data.s1", "b", "ab"]
    pairs = [(p_, c, None) for p_ in pats for c in names]
    pairs += [("".join(rng.choice("ab.1*?") for _ in range(rng.randint(1, 5))), "".join(rng.choice("ab.1") for _ in range(rng.randint(0, 4))), None)
              for _ in range(600)]
    routing_oracle(ck, pairs)
    callback_oracle(ck)
    ck.cov["evaluations"] = n
    ck.notes["fallback"] = "anchored analysis failed; %d schedules explored with generic points + sequential sequences" % n


GLOB_HEADER = """From Coq Require Import List String Bool. Import ListNotations. Open Scope string_scope.
From SV Require Import Model.Glob.
Definition cs : list gcase := [
%s
].
Eval vm_compute in gbad cs 0.
"""


def routing_oracle(ck, kept):
    """Direct oracle, end to end: one message published on channel c reaches a fresh subscription for pattern p exactly when the
    shell-style pattern matches the name (the standard library's fnmatch is the referee), and stays queued otherwise."""
    import fnmatch as _fn
    from semantiva.execution.transport.in_memory import InMemorySemantivaTransport
    n = 0
    for p_, c, _ in kept:
        try:
            want = bool(_fn.fnmatch(c, p_))
            t = InMemorySemantivaTransport()
            t.publish(c, data=1.0, context={})
            got = len(list(t.subscribe(p_)))
            left = sum(len(q) for q, _l in t._queues.values())
        except Exception:  # noqa
            continue
        n += 1
        if got != (1 if want else 0) or got + left != 1:
            ck.fail_input("C14:routing:subscription-yields-%s" % ("a-channel-its-pattern-does-not-match" if got and not want else "nothing-for-a-matching-channel"
                                                                  if want and not got else "message-lost-or-duplicated"),
                          "one message published on %r; a subscription for %r yields %d message(s), %d left queued (the pattern %s the name)"
                          % (c, p_, got, left, "matches" if want else "does not match"), {"kind": "routing", "pattern": p_, "channel": c})
            break
    ck.notes["routing_oracle_cases"] = n


def callback_oracle(ck):
    """Direct oracle: a callback subscription whose callback raises on the k-th message.  The runner thread ends there; every message
    is still delivered exactly once -- to the callback (including the one it raised on) or to a later plain consumer, in order."""
    import threading
    from semantiva.execution.transport.in_memory import InMemorySemantivaTransport
    old_hook = threading.excepthook
    threading.excepthook = lambda a: None
    try:
        for total, k in ((5, 1), (5, 0), (4, 3), (3, 5)):
            t = InMemorySemantivaTransport()
            for i in range(total):
                t.publish("evt.%d" % (i % 2), data=float(i), context={})
            got = []

            def cb(msg, got=got, k=k):
                got.append(msg.data)
                if len(got) - 1 == k:
                    raise RuntimeError("verif: callback fails on message %d" % k)
            before = set(threading.enumerate())
            t.subscribe("evt.*", callback=cb)
            for th in set(threading.enumerate()) - before:
                th.join(10)
            rest = [m.data for m in t.subscribe("evt.*")]
            allm = sorted(got + rest)
            if allm != [float(i) for i in range(total)]:
                ck.fail_input("C14:callback-subscription:messages-lost-or-duplicated",
                              "%d messages pending, the callback raises on its message number %d: callback received %s, a later consumer %s -- "
                              "%d of %d messages delivered" % (total, k, got, rest, len(set(allm)), total),
                              {"kind": "callback", "total": total, "raise_at": k, "callback_received": got, "later_consumer": rest})
                break
    finally:
        threading.excepthook = old_hook


def glob_correspondence(ck, rng, n):
    """Model/Glob.v against the matcher the transport really uses (the `fnmatch` imported by in_memory.py): random
    patterns over literals, *, ?, brackets, !, - and random channel names; compared inside Coq."""
    import semantiva.execution.transport.in_memory as mod
    match = getattr(mod, "fnmatch", None)
    if match is None or not callable(match):
        ck.corr_problem("in_memory.py does not import fnmatch any more: pattern routing cannot be tied to Model/Glob.v", "")
        return
    PA, NA = "ab.12*?[]!-", "ab.12[]-!"
    fixed_p = ["jobs.[12].cfg", "jobs.[12].*", "jobs.[!1].cfg", "jobs.?.cfg", "*.[sc]*", "[a-b]*", "x[[]1]", "*", "jobs.*.status", "[b-a]", "[!]", "[]a]", "a[b-", ""]
    fixed_p += ["jobs.*.cfg", "a*a", "ab*ba", "*.x.*", "x.*x."]     # literal text on both sides of a star, overlapping
    fixed_n = ["jobs.1.cfg", "jobs.3.cfg", "jobs.12.cfg", "jobs.1.status", "a", "ab", "x[1]", "data.s1", "]", "[!]", "a[b-", "",
               "jobs.cfg", "jobs..cfg", "aa", "aba", "abba", ".x.", "x.x."]
    cases = [(p, c) for p in fixed_p for c in fixed_n]
    def instance(p_):
        # a name derived from the pattern (so that about half of the cases match): * -> a short run, ? -> one character,
        # a bracket expression -> its first member (or another character when negated), everything else itself
        out, i = "", 0
        while i < len(p_):
            ch = p_[i]
            if ch == "*":
                out += "".join(rng.choice("ab.1") for _ in range(rng.randint(0, 2)))
            elif ch == "?":
                out += rng.choice("ab.12")
            elif ch == "[" and "]" in p_[i + 2:]:
                j = p_.index("]", i + 2)
                body = p_[i + 1:j]
                out += rng.choice("ab12") if body.startswith("!") else (body[0] if body else "")
                i = j
            else:
                out += ch
            i += 1
        return out
    while len(cases) < n:
        p_ = "".join(rng.choice(PA) for _ in range(rng.randint(0, 7)))
        c = instance(p_) if rng.random() < 0.6 else "".join(rng.choice(NA) for _ in range(rng.randint(0, 5)))
        cases.append((p_, c))
    lits, kept = [], []
    for p_, c in cases:
        try:
            b = bool(match(c, p_))
        except Exception:  # noqa
            continue
        kept.append((p_, c, b))
        lits.append("(%s, %s, %s)" % (cq_str(p_), cq_str(c), "true" if b else "false"))
    routing_oracle(ck, kept)
    shards = [GLOB_HEADER % ";\n".join(lits[i:i + 1500]) for i in range(0, len(lits), 1500)]
    per, errs = core.mismatches("C14_glob", shards, timeout=600)
    for k, rc, out in errs:
        ck.corr_problem("glob correspondence shard %d did not evaluate (rc=%s)" % (k, rc), out)
    bad = []
    for k, ls in enumerate(per):
        if ls is not None:
            bad += [kept[k * 1500 + b] for b in ls[0]]
    for p_, c, b in bad[:5]:
        ck.corr_problem("Model/Glob.v and the transport's fnmatch disagree", "pattern %r, channel %r: fnmatch says %s" % (p_, c, b), case={"pattern": p_, "channel": c})
    ck.notes["glob_correspondence"] = {"cases": len(kept), "disagreements": len(bad), "matching": sum(1 for x in kept if x[2])}
    ck.cov["evaluations"] = ck.cov.get("evaluations", 0) + len(kept)


SUB_HEADER = """From Coq Require Import List String Bool. Import ListNotations. Open Scope string_scope.
From SV Require Import Model.Subscription Gen.TransportGen.
Definition cs : list qcase := [
%s
].
Eval vm_compute in qbad closed_tested_before_pop cs 0.
"""


def sequential_oracles(ck):
    res, err = run_job({"sequential": True, "seed": ck.seed, "random_sequences": 300 if ck.tier == "thorough" else 80}, 180)
    if res is None:
        ck.corr_problem("sequential oracle run did not complete", str(err)[-800:])
        return
    for sig, what in res["oracle"]:
        ck.fail_input(sig, what, {"sequential": True})
    # the same sequences through Model/Subscription.v (delivered ids in order, what is left queued per channel)
    cases = res.get("model_cases") or []

    def op_lit(o):
        if o[0] == "pub":
            return "(OPub %s)" % cq_str(o[1])
        if o[0] == "open":
            return "(OOpen %s)" % cq_str(o[1])
        if o[0] == "next":
            return "(ONext %d)" % o[1]
        if o[0] == "close":
            return "(OClose %d)" % o[1]
        return "(ODrain %s 200)" % cq_str(o[1])
    lits = ["(%s, %s, %s)" % (cq_list([op_lit(o) for o in c["ops"]]), cq_list(c["delivered"], cq_nat),
                             cq_list(["(%s, %s)" % (cq_str(ch), cq_list(q, cq_nat)) for ch, q in c["left"]])) for c in cases]
    if lits:
        per, errs = core.mismatches("C14_sub", [SUB_HEADER % ";\n".join(lits[i:i + 200]) for i in range(0, len(lits), 200)], timeout=600)
        for k, rc, out in errs:
            ck.corr_problem("subscription correspondence shard %d did not evaluate (rc=%s)" % (k, rc), out)
        bad = []
        for k, ls in enumerate(per):
            if ls is not None:
                bad += [cases[k * 200 + b] for b in ls[0]]
        for c in bad[:4]:
            ck.corr_problem("Model/Subscription.v and the transport disagree on an operation sequence of one consumer (%s)" % c["name"],
                            json.dumps(c)[:1200], case=c)
        ck.notes["subscription_correspondence"] = {"sequences": len(cases), "disagreements": len(bad)}
        ck.cov["evaluations"] = ck.cov.get("evaluations", 0) + len(cases)
    ck.notes["sequential_sequences"] = len(cases)


def replay(obj):
    if obj["replay"].get("sequential"):
        res, err = run_job({"sequential": True}, 120)
        print(json.dumps(res["oracle"] if res else err, indent=1))
        return 0
    r = obj["replay"]
    res, err = run_job({"scenario": r["scenario"], "schedule": r["schedule"], "points": r.get("points", "events")}, 120)
    if res is None:
        print("replay did not run:", err)
        return 2
    print("file under test:", res["file"], "| facts:", res["facts"])
    print("scenario:", json.dumps(r["scenario"]))
    print("schedule (thread chosen at each decision point):", r["schedule"])
    print("steps executed (thread, event, line):", res["points"])
    print("delivered per thread:", res["delivered"], "| left in table:", res["left"], "| final drain:", res["drained"])
    for sig, what in res["oracle"]:
        print("  ", sig, "-", what)
    if not res["oracle"]:
        print("   no violation on this tree")
    return 0


TRUSTED = [
    "Coq 8.16.1 kernel (coqc), vm_compute; no native_compute",
    "model: coq/Model/Transport.v, hand-written small-step semantics at statement granularity + defaultdict factory call; "
    "variant selected by Gen/TransportGen.v (atomic_create, locked_ops) read from in_memory.py by harness/translate/transport.py "
    "(fail-closed on any other shape of __init__/publish/__iter__)",
    "deterministic scheduler harness/sched/baton.py (sys.settrace line/call events, Condition baton, watchdog) and the "
    "anchor -> event map of the translator; lock bodies are never switch points",
    "modelled not verified: CPython executes dict subscript / deque.append / popleft / list(dict.items()) atomically w.r.t. "
    "other threads (no preemption inside one C call); fnmatch on exact and prefix-star patterns = string equality / prefix; "
    "threading.Lock gives mutual exclusion",
]
FINISH = {"level": "proof", "assumptions": [
    "preemption happens only between source statements of publish/__iter__ and at the Python-level defaultdict factory call "
    "(not inside a C call such as deque.append)",
    "subscriptions are not closed while iterating; patterns are exact names or prefix-star"]}
