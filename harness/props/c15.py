"""C15 -- Every queued job's Future completes once, with that job's own result.

proof side : Properties/C15.v over Model/JobQueue.v (master / workers / client over the abstract transport justified by
             C14; all schedules, any number of jobs and workers), variant selected by Gen/JobQueueGen.v
             (worker_reports_failures, future_resolved_by_job_id, non_list_config_rejected_silently, falsy_payload_replaced).
tie        : real QueueSemantivaOrchestrator master + 1..4 real worker_loop threads on batches of 1..40 DISTINCT jobs
             (harness/sched/c15_driver.py, in subprocesses with an overall timeout), randomised switch interval, enqueue
             timing, start order and poll interval.  Every run yields the model-level event trace (enqueue, cfg publish,
             pick-up, status publish / give-up, status receipt) and the final state of every Future; Coq replays the
             trace strictly (each event must be enabled), compares the Futures with the model's after the same events
             and with the model's prediction under a canonical fair schedule (pipelines run by Model/Pipeline.v).
search     : direct oracles on every real run, independent of the model: Future of another job / set twice / never
             completed although the pipeline succeeds directly / result differs from direct execution / failing job
             whose Future does not complete exceptionally / rejected configuration whose Future hangs.
"""
from __future__ import annotations

import json
import math
import os
import random
from concurrent.futures import ThreadPoolExecutor

from harness import core
from harness.core import cq_bool, cq_list, cq_nat, cq_str
from harness.lib import pipegen as pg
from harness.translate import run_all

DRIVER = "sched/c15_driver.py"
PRIMES = [53, 59, 61, 67, 71, 73, 79, 83, 89, 97, 101, 103, 107, 109, 113, 127, 131, 137, 139, 149, 151, 157, 163, 167, 173,
          179, 181, 191, 193, 197, 199, 211, 223, 227, 229, 233, 239, 241, 251, 257, 263, 269, 271]
FAIL_KINDS = ["unresolved", "processor", "gate", "bogus-parameter", "probe-without-key"]

HEADER = """From Coq Require Import List String ZArith NArith Bool.
From SV Require Import Model.Expr Model.Pipeline Model.Sweep Model.PipelineLib Gen.PipelineGen Model.JobQueue.
From SV Require Gen.JobQueueGen.
Import ListNotations. Open Scope string_scope.
Definition cases : list qcase := [
%s
].
Eval vm_compute in bad_cases 0 cases.
"""
REASON = {1: "an observed event is not enabled in the model (trace rejected)",
          2: "the real system was quiescent but the model, after the same events, is not",
          3: "a Future differs from the model's after the same events",
          4: "a Future differs from the model's prediction under the canonical fair schedule",
          5: "malformed case"}


# ------------------------------------------------------------------------------------------- jobs
def distinct_job(k, rng):
    """Job number k of a batch: constants unique to k, so that a result can only be k's own."""
    v, f = 2 + k, PRIMES[k % len(PRIMES)]
    shape = rng.choice("ABCDEFG")
    if shape == "A":
        return {"nodes": [{"k": "src", "cfg": {"value": v}}, {"k": "mul", "cfg": {"factor": f}}]}
    if shape == "B":
        return {"nodes": [{"k": "src", "cfg": {"value": v}}, {"k": "mul", "cfg": {"factor": f}}, {"k": "probe", "ckey": "k"}]}
    if shape == "C":
        return {"nodes": [{"k": "mul", "cfg": {"factor": f}}], "data": v}
    if shape == "D":
        return {"nodes": [{"k": "src", "cfg": {"value": v}}, {"k": "mul"}], "ctx": {"factor": f}}
    if shape == "E":
        return {"nodes": [{"k": "src", "cfg": {"value": v}}, {"k": "add", "cfg": {"addend": k}}, {"k": "mul", "cfg": {"factor": f}}]}
    if shape == "F":
        return {"nodes": [{"k": "src", "cfg": {"value": v}}, {"k": "mul", "cfg": {"factor": f}}, {"k": "ctxwrite", "key": "j"}]}
    return {"nodes": [{"k": "src"}, {"k": "mul", "cfg": {"factor": f}}, {"k": "rename", "a": "value", "b": "seen"}], "ctx": {"value": v}}


def failing_job(k, kind):
    v, f = 2 + k, PRIMES[k % len(PRIMES)]
    src = {"k": "src", "cfg": {"value": v}}
    if kind == "unresolved":
        return {"nodes": [src, {"k": "mul"}]}
    if kind == "processor":
        return {"nodes": [src, {"k": "failing"}]}
    if kind == "gate":
        return {"nodes": [src, {"k": "csum"}]}
    if kind == "bogus-parameter":
        return {"nodes": [src, {"k": "mul", "cfg": {"factor": f, "bogus": 1}}]}
    return {"nodes": [src, {"k": "probe", "ckey": None}]}


def random_job(rng, stats):
    nodes, data0, need = pg.gen_pipeline(rng, stats, maxlen=5, malformed=0.05)
    return {"nodes": nodes, "data": data0, "ctx": pg.gen_ctx(rng, 0.1, need)}


def timing(rng, n):
    sw = 10 ** rng.uniform(-6.0, math.log10(5e-3))
    mode = rng.choice(["none", "none", "tiny", "tiny", "gaps"])
    if mode == "none":
        delays = [0.0] * n
    elif mode == "tiny":
        delays = [rng.choice([0.0, 0.0, 0.0002, 0.001, 0.003]) for _ in range(n)]
    else:
        delays = [0.26 if (i and rng.random() < 0.08) else rng.choice([0.0, 0.001]) for i in range(n)]
        if sum(delays) > 1.2:
            delays = [d if d < 0.1 else 0.0 for d in delays]
    return {"switch": sw, "delays": delays, "start": rng.choice(["before", "before", "middle", "after"]),
            "poll": rng.choice([0.001, 0.01, 0.01, 0.05]), "master_first": rng.random() < 0.6,
            "timeout_s": 25.0, "grace_s": 0.7}


def make_batch(rng, n, nw, stats, fail_at=None, fail_kind=None, p_random=0.0, what="success"):
    jobs = []
    for k in range(n):
        if fail_at is not None and k == fail_at:
            jobs.append(failing_job(k, fail_kind))
        elif rng.random() < p_random:
            jobs.append(random_job(rng, stats))
        else:
            jobs.append(distinct_job(k, rng))
    b = {"jobs": jobs, "workers": nw, "what": what}
    b.update(timing(rng, n))
    return json.loads(json.dumps(b))


def plan(rng, thorough, stats):
    bs = []
    sizes = [1, 2, 3, 5, 8, 13, 21, 40]
    # successful batches of distinct jobs
    for rep in range(12 if thorough else 2):
        for n in sizes:
            bs.append(make_batch(rng, n, rng.randint(1, 4), stats))
    for n in ([40] * 16 if thorough else [40, 40]):
        bs.append(make_batch(rng, n, 4, stats))
    # batches with random (mostly valid, some failing) pipelines mixed in
    for _ in range(120 if thorough else 8):
        bs.append(make_batch(rng, rng.randint(1, 40 if thorough else 16), rng.randint(1, 4), stats, p_random=0.5, what="mixed"))
    # a failing job at every batch position
    for n in (range(1, 41) if thorough else [1, 2, 3, 4, 6]):
        for pos in range(n):
            bs.append(make_batch(rng, n, rng.randint(1, 4), stats, fail_at=pos,
                                 fail_kind=FAIL_KINDS[(pos + n) % len(FAIL_KINDS)], what="failing@%d" % pos))
    for n in ([] if thorough else [11, 24, 40]):
        pos = rng.randrange(n)
        bs.append(make_batch(rng, n, rng.randint(1, 4), stats, fail_at=pos, fail_kind=rng.choice(FAIL_KINDS), what="failing@%d" % pos))
    # the enqueuing thread preempted between handing the job to the queue and returning (master/workers already running)
    for n, nw in ((1, 1), (3, 2)):
        b = make_batch(rng, n, nw, stats, what="slow-enqueuer")
        b.update({"start": "before", "slow_enqueue": 0.7, "delays": [0.0] * n, "timeout_s": 12.0})
        bs.append(b)
    # rejected configurations and a payload whose truth value is False
    for kind in ("pipeline", "tuple", "yaml_missing"):
        for n, pos in ((1, 0), (3, 1)) + (((7, 6), (12, 0)) if thorough else ()):
            b = make_batch(rng, n, rng.randint(1, 3), stats, what="config:" + kind)
            b["jobs"][pos]["cfg"] = kind
            bs.append(b)
    for n, pos in ((1, 0), (4, 2)):
        b = make_batch(rng, n, rng.randint(1, 3), stats, what="empty-collection-payload")
        b["jobs"][pos] = {"nodes": [{"k": "rename", "a": "k", "b": "j"}], "data": [], "ctx": {"k": 7 + pos}}
        bs.append(b)
    return bs


def _ok(k):
    return {"nodes": [{"k": "src", "cfg": {"value": 2 + k}}, {"k": "mul", "cfg": {"factor": PRIMES[k]}}]}


# deterministic exploration (gate scheduler of the driver): (name, jobs, workers, budget_s)
EXPLORE_QUICK = [("1 ok + 1 failing job, 2 workers", [_ok(0), failing_job(1, "unresolved")], 2, 60)]
EXPLORE_THOROUGH = [
    ("2 ok jobs, 2 workers", [_ok(0), _ok(1)], 2, 400),
    ("1 failing + 1 ok job, 2 workers", [failing_job(0, "processor"), _ok(1)], 2, 400),
    ("3 ok jobs, 1 worker", [_ok(0), _ok(1), _ok(2)], 1, 500),
    ("3 jobs (middle one failing), 2 workers", [_ok(0), failing_job(1, "unresolved"), _ok(2)], 2, 700),
    ("Pipeline-instance config + ok job, 2 workers", [dict(_ok(0), cfg="pipeline"), _ok(1)], 2, 400),
    ("2 ok jobs, 3 workers", [_ok(0), _ok(1)], 3, 500),
]

MINIMAL = [  # the stored minimal failing inputs of the findings (always run first)
    ("failing job alone", {"jobs": [failing_job(0, "unresolved")], "workers": 1}),
    ("Pipeline instance as configuration", {"jobs": [dict(distinct_job(0, random.Random(1)), cfg="pipeline")], "workers": 1}),
    ("empty collection payload", {"jobs": [{"nodes": [], "data": []}], "workers": 1}),
]


def corpus_entries():
    d = os.path.join(core.ROOT, "corpus", "C15")
    out = []
    for f in sorted(os.listdir(d)) if os.path.isdir(d) else []:
        if f.endswith(".json"):
            out.append((f, json.load(open(os.path.join(d, f)))))
    return out


# ------------------------------------------------------------------------------------------- Coq literals
def job_lit(jd):
    return "(mkPJob %s %s %s %s)" % (cq_list([pg.node_coq(n) for n in jd["nodes"]]), pg.data_coq(jd.get("data")),
                                     pg.ctx_coq(jd.get("ctx", {})), cq_bool(jd.get("cfg", "list") == "list"))


def event_lit(e):
    k = e[0]
    if k == "enq":
        return "EEnq %s" % cq_nat(e[1])
    if k == "deq":
        return "EDeq %s" % cq_nat(e[1])
    if k == "take":
        return "ETake %s %s" % (cq_nat(e[1]), cq_nat(e[2]))
    if k == "fin":
        return "EFin %s %s" % (cq_nat(e[1]), cq_nat(e[2]))
    return "EPoll %s" % cq_nat(e[1])


def obs_lit(o):
    if o["state"] == "pending":
        return "OPending"
    if o["state"] == "exception":
        return "(OFailed %s)" % cq_str(o["exc"])
    ji = o.get("jid_index")
    return "(ODone %s %s %s)" % (cq_nat(999999 if ji is None else ji), pg.data_coq(o["data"]), pg.ctx_coq(o["ctx"]))


def case_lit(b, r):
    return "mkQCase JobQueueGen.facts JobQueueGen.falsy_payload_replaced %s %s %s %s %s" % (
        cq_list([job_lit(j) for j in b["jobs"]]), cq_nat(b["workers"]), cq_list([event_lit(e) for e in r["trace"]]),
        cq_bool(r["quiescent"]), cq_list([obs_lit(o) for o in r["obs"]]))


def comparable(b, r):
    for o, d in zip(r["obs"], r["direct"]):
        if "unsupported" in o or "malformed" in o or d[0] == "unsupported":
            return False
    return True


# ------------------------------------------------------------------------------------------- running
def run_chunk(batches, timeout):
    return core.run_impl(DRIVER, input_obj={"batches": batches, "budget_s": timeout - 30}, timeout=timeout)


def specific_signature(sig, jd):
    if jd.get("data") == [] and sig in ("C15:result-differs-from-direct-execution", "C15:successful-job-future-never-completes",
                                        "C15:successful-job-future-fails"):
        # one root cause (`msg.data or NoDataType()`): the pipeline sees no data instead of the empty collection
        return "C15:empty-collection-payload-replaced-by-no-data"
    if sig.startswith("C15:rejected-config-future-never-completes"):
        return "C15:rejected-config-future-never-completes"
    return sig


def run(ck):
    thorough = ck.tier == "thorough"
    rng = random.Random(ck.seed * 7919 + 15)
    gen = run_all(["job_queue", "pipeline"])
    ck.build_models(["Model/JobQueue.v", "Gen/JobQueueGen.v"])
    proved = ck.prove(gen_results=gen)
    if thorough and proved:
        ck.coqchk()
    try:
        from harness.translate import job_queue as tq
        facts = tq.analyse()
    except Exception as ex:
        facts = None
        ck.notes["facts"] = "translation failed: %r" % (ex,)
    if facts:
        ck.notes["facts"] = {k: v for k, v in facts.items() if k != "paths"}

    stats = {}
    batches = [dict(json.loads(json.dumps(b)), what="minimal: " + name) for name, b in MINIMAL]
    for fname, obj in corpus_entries():
        batches.append(dict(obj["batch"], what="corpus " + fname))
    n_first = len(batches)
    batches += plan(rng, thorough, stats)
    # ---- run in subprocesses (cost-balanced chunks), each under an overall timeout
    nchunks = min(core.NPROC - 2, 14) if thorough else 12
    order = sorted(range(len(batches)), key=lambda i: -len(batches[i]["jobs"]))
    chunks = [[] for _ in range(nchunks)]
    for j, i in enumerate(order):
        chunks[j % nchunks].append(i)
    chunks = [c for c in chunks if c]
    tmo = 1200 if thorough else 150
    explore_plan = EXPLORE_THOROUGH if thorough else EXPLORE_QUICK
    with ThreadPoolExecutor(max_workers=len(chunks) + len(explore_plan)) as ex:
        fx = [ex.submit(core.run_impl, DRIVER, (), {"explore": json.loads(json.dumps({"jobs": js, "workers": w, "what": "explore: " + name})),
                                                    "budget_s": bud}, bud + 120) for name, js, w, bud in explore_plan]
        outs = list(ex.map(lambda c: run_chunk([batches[i] for i in c], tmo), chunks))
        explored = [f.result() for f in fx]
    # ---- chained work: done-callbacks that enqueue follow-up jobs (and passive callbacks as the control)
    cj = [distinct_job(100 + k, rng) for k in range(3)]
    # jobs whose pipeline writes a context key named like the queue's own correlation key; a batch during which one worker retires
    collide = [{"nodes": [{"k": "src", "cfg": {"value": 3}}, {"k": "mul", "cfg": {"factor": 5}}, {"k": "probe", "ckey": "job_id"}]},
               {"nodes": [{"k": "src"}, {"k": "mul", "cfg": {"factor": 7}}, {"k": "rename", "a": "value", "b": "job_id"}], "ctx": {"value": 4}},
               distinct_job(103, rng)]
    many = [distinct_job(110 + k, rng) for k in range(10)]
    names = ["3 chains, 2 workers", "passive callbacks", "1 chain, 1 worker", "pipelines writing the key job_id", "a worker retires mid-batch"]
    chained, cerr = core.run_impl(DRIVER, (), {"chained": [{"jobs": cj, "mode": "chain", "workers": 2}, {"jobs": cj, "mode": "passive", "workers": 1},
                                                         {"jobs": cj[:1], "mode": "chain", "workers": 1},
                                                         {"jobs": collide, "mode": "passive", "workers": 2},
                                                         {"jobs": many, "mode": "retire", "workers": 2, "timeout_s": 12.0}]}, 180)
    if chained is None:
        ck.corr_problem("chained-callback driver did not complete", str(cerr)[-1200:])
    else:
        for j, r in enumerate(chained["chained"]):
            if "error" in r:
                ck.corr_problem("chained-callback scenario %d raised" % j, r["error"])
                continue
            for sig, what in r["problems"]:
                ck.fail_input(sig + (":job_id-key" if j == 3 else ""), what + " (scenario %d: %s)" % (j, names[j]),
                              {"kind": "chained", "scenario": j, "jobs": [cj, cj, cj[:1], collide, many][j]})
        ck.notes["chained_callback_scenarios"] = len(chained["chained"])
    # ---- a caller cancels one pending Future: the others still complete
    canc, cerr2 = core.run_impl(DRIVER, (), {"cancel": True}, 120)
    if canc is None or "error" in canc:
        ck.corr_problem("cancelled-future scenario did not complete", str(cerr2 or canc.get("error"))[-1200:])
    else:
        for sig, what in canc["problems"]:
            ck.fail_input(sig, what, {"kind": "cancelled-future"})
    # ---- contexts of every accepted kind (plain, none, a collection context with one context per data element)
    kinds, kerr = core.run_impl(DRIVER, (), {"context_kinds": True}, 120)
    if kinds is None or "error" in kinds:
        ck.corr_problem("context-kinds scenario did not complete", str(kerr or kinds.get("error"))[-1200:])
    else:
        for sig, what in kinds["problems"]:
            ck.fail_input(sig, what, {"kind": "context-kinds"})
        ck.notes["context_kind_jobs"] = 5
    results = [None] * len(batches)
    files = None
    for c, (res, err) in zip(chunks, outs):
        if res is None:
            ck.corr_problem("threaded driver did not complete (%d batches)" % len(c), str(err)[-1500:])
            continue
        files = files or res.get("files")
        for i, r in zip(c, res["results"]):
            results[i] = r
    ck.notes["files_under_test"] = files
    # ---- executions of the deterministic exploration are treated like batches (same oracles, same Coq comparison)
    ex_notes = []
    n_sched = 0
    for (name, js, w, bud), (res, err) in zip(explore_plan, explored):
        if res is None:
            ck.corr_problem("deterministic exploration did not complete: " + name, str(err)[-1200:])
            continue
        bad = [e for e in res["executions"] if e.get("status") != "ok"]
        ex_notes.append({"scenario": name, "schedules": len(res["executions"]), "complete": res["complete"],
                         "inconclusive": len(bad)})
        if bad:
            ck.corr_problem("%d schedule(s) inconclusive under the gate scheduler: %s" % (len(bad), name),
                            json.dumps([e.get("schedule") for e in bad[:3]])[:600])
        for e in res["executions"]:
            n_sched += 1
            if e.get("dup") or e.get("status") != "ok":
                continue
            batches.append(json.loads(json.dumps({"jobs": js, "workers": w, "what": "explore: " + name, "schedule": e["schedule"]})))
            results.append(e)
    ck.notes["deterministic_exploration"] = ex_notes
    ck.log("deterministic exploration: %s" % json.dumps(ex_notes))

    # ---- direct oracles + cases
    found = {}     # signature -> (cost, what, replay)
    cases, meta = [], []
    n_jobs = n_runs = nontrivial = skipped = 0
    dist = {"batch_sizes": {}, "workers": {}, "what": {}, "futures": {}}
    for i, (b, r) in enumerate(zip(batches, results)):
        if r is None or "skipped" in r:
            skipped += 1
            continue
        if "error" in r:
            ck.corr_problem("driver error on a batch", r["error"][-1200:], case={"batch": b})
            continue
        n_runs += 1
        n_jobs += len(b["jobs"])
        dist["batch_sizes"][len(b["jobs"])] = dist["batch_sizes"].get(len(b["jobs"]), 0) + 1
        dist["workers"][b["workers"]] = dist["workers"].get(b["workers"], 0) + 1
        w = b["what"].split("@")[0].split(":")[0]
        dist["what"][w] = dist["what"].get(w, 0) + 1
        for o in r["obs"]:
            dist["futures"][o["state"]] = dist["futures"].get(o["state"], 0) + 1
        for sig, what, k in r["oracle"]:
            jd = b["jobs"][k] if k >= 0 else {}
            sig = specific_signature(sig, jd)
            cost = (len(b["jobs"]), b["workers"])
            if sig not in found or cost < found[sig][0]:
                found[sig] = (cost, what + " | batch: %s" % b["what"], {"batch": b, "job": k})
        if r.get("unknown_events"):
            ck.corr_problem("events that belong to no enqueued job", json.dumps(r["unknown_events"])[:600], case={"batch": b})
        if comparable(b, r):
            cases.append(case_lit(b, r))
            meta.append((b, r))
            # non-trivial: more than one job and the observed order of completions is not the enqueue order,
            # or two workers held jobs at the same time
            polls = [e[1] for e in r["trace"] if e[0] == "poll"]
            hands, overlap = set(), False
            for e in r["trace"]:
                if e[0] == "take":
                    hands.add(e[1])
                    overlap = overlap or len(hands) > 1
                elif e[0] == "fin":
                    hands.discard(e[1])
            if polls != sorted(polls) or overlap:
                nontrivial += 1
    ck.notes["input_distribution"] = dist
    ck.notes["pipeline_generator_stats"] = dict(sorted(stats.items())[:40])
    ck.notes["batches_skipped_for_budget"] = skipped
    if skipped:
        ck.corr_problem("%d batches were not run inside the time budget" % skipped, "")
    ck.cov["evaluations"] = n_jobs
    ck.log("%d batches (%d jobs) on real threads; %d with overlapping workers or out-of-order completion; oracle signatures: %s"
           % (n_runs, n_jobs, nontrivial, sorted(found)))

    # ---- shrink each finding to the offending job alone with one worker, if that still fails the same way
    for sig, (cost, what, rep) in sorted(found.items()):
        if cost[0] > 1 and rep["job"] >= 0:
            b = rep["batch"]
            small = {"jobs": [b["jobs"][rep["job"]]], "workers": 1, "what": "shrunk from " + b["what"]}
            res, _err = run_chunk([small], 90)
            if res and res["results"] and "oracle" in res["results"][0]:
                for s2, w2, k2 in res["results"][0]["oracle"]:
                    if specific_signature(s2, small["jobs"][0]) == sig:
                        found[sig] = ((1, 1), w2 + " | " + small["what"], {"batch": small, "job": 0})
                        break

    # ---- model comparison inside Coq
    shard = 60
    texts = [HEADER % ";\n".join(cases[i:i + shard]) for i in range(0, len(cases), shard)]
    per, errs = core.mismatches("C15", texts, timeout=900) if texts else ([], [])
    agreed = shown = 0
    for k, ls in enumerate(per):
        if ls is None:
            continue
        n = min(shard, len(cases) - k * shard)
        agreed += n - len(ls[0])
        for code in ls[0]:
            i, why = k * shard + code // 10, code % 10
            b, r = meta[i]
            if shown < 6:
                shown += 1
                ck.corr_problem("model vs real threads: " + REASON.get(why, "?"),
                                json.dumps({"what": b["what"], "trace": r["trace"], "obs": r["obs"], "direct": r["direct"]})[:1800],
                                case={"batch": b})
    for k, rc, out in errs:
        ck.corr_problem("case shard %d did not evaluate (rc=%s)" % (k, rc), out)
    ck.cov["traces_validated_against_impl"] = agreed
    ck.cov["distinct_nontrivial"] = nontrivial
    ck.cov["rule"] = ("evaluations = jobs enqueued on the real orchestrator (one Future each); traces = batches whose observed "
                      "event trace the model accepted with equal Futures; non-trivial = batches in which two workers held jobs "
                      "at the same time or statuses were consumed out of enqueue order (measured from the trace)")
    ck.cov["samples"] = [{"what": b["what"], "workers": b["workers"], "jobs": len(b["jobs"]), "switch": b.get("switch"),
                          "trace": r["trace"][:16], "futures": [o["state"] for o in r["obs"]][:10]}
                         for b, r in (meta[:2] + meta[n_first:n_first + 3] + meta[-3:])]
    ck.log("model comparison: %d/%d batches agree; %d shard errors" % (agreed, len(cases), len(errs)))

    # ---- report
    for sig, (cost, what, rep) in sorted(found.items()):
        ck.fail_input(sig, what, rep)
    if facts:
        expect = []
        if not facts["worker_reports_failures"]:
            expect.append(("C15:failing-job-future-never-completes", "worker_reports_failures = false"))
        if facts["non_list_config_rejected_silently"]:
            expect.append(("C15:rejected-config-future-never-completes", "non_list_config_rejected_silently = true"))
        if facts["falsy_payload_replaced"]:
            expect.append(("C15:empty-collection-payload-replaced-by-no-data", "falsy_payload_replaced = true"))
        for sig, why in expect:
            if sig not in found:
                ck.corr_problem("generated fact %s but the stored failing input did not reproduce %s" % (why, sig),
                                "the conditional theorem does not apply and the refutation was not observed on the real code")
    ck.cov["trusted_base"] = TRUSTED


def replay(obj):
    r = obj["replay"]
    b = dict(r["batch"])
    b.setdefault("timeout_s", 20.0)
    if "schedule" in b:      # a schedule of the deterministic exploration: re-run exactly that one
        res, err = core.run_impl(DRIVER, input_obj={"explore": b, "root": b["schedule"], "max_execs": 1, "budget_s": 60}, timeout=150)
        if res is not None:
            res = {"results": res["executions"], "files": res["files"]}
            print("gate schedule:", b["schedule"])
    else:
        res, err = run_chunk([b], 120)
    if res is None:
        print("replay did not run:", err)
        return 2
    out = res["results"][0]
    print("files under test:", res["files"])
    if "error" in out:
        print(out["error"])
        return 2
    print("batch: %d job(s), %d worker(s)" % (len(b["jobs"]), b.get("workers", 1)))
    for k, jd in enumerate(b["jobs"]):
        try:
            cfg = json.dumps([pg.node_impl_repr(n) for n in jd["nodes"]])
        except Exception:  # noqa
            cfg = json.dumps(jd["nodes"])
        print("  job %d: enqueue(%s%s, data=%r, context=%r, return_future=True)"
              % (k, cfg, "" if jd.get("cfg", "list") == "list" else "  [passed as: %s]" % jd["cfg"], jd.get("data"), jd.get("ctx", {})))
        print("     direct execution:", out["direct"][k])
        print("     future          :", {a: v for a, v in out["obs"][k].items()})
    print("event trace:", out["trace"])
    print("quiescent:", out["quiescent"], "| waited %.2fs" % out["waited_s"])
    for sig, what, k in out["oracle"]:
        print("  ", specific_signature(sig, b["jobs"][k] if k >= 0 else {}), "-", what)
    if not out["oracle"]:
        print("   no violation on this tree")
    return 0


TRUSTED = [
    "Coq 8.16.1 kernel (coqc), vm_compute; no native_compute",
    "model: coq/Model/JobQueue.v over the abstract transport (atomic publish / pop, nothing lost or duplicated) that "
    "Properties/C14.v proves of Model/Transport.v; variant selected by Gen/JobQueueGen.v read from worker.py / "
    "queue_orchestrator.py by harness/translate/job_queue.py (fail closed on any other shape)",
    "job ids: uuid4 values are assumed distinct (modelled as positions in enqueue order)",
    "pipelines inside jobs are run by Model/Pipeline.v + PipelineLib.v (C01's model) in the comparison",
    "observation seams of the driver: subclass of InMemorySemantivaTransport recording publishes, recording loggers handed to "
    "master / workers, counting subclass of Future patched into queue_orchestrator.Future; event order = order of these records",
    "modelled not verified: queue.Queue is FIFO and thread-safe; concurrent.futures.Future; dict insertion order",
]
FINISH = {"level": "proof", "assumptions": [
    "the transport is the abstract one justified by C14 (atomic publish / pop per channel); job ids are distinct",
    "liveness is 'strictly decreasing measure + some step enabled while a Future is pending', i.e. completion under a fair "
    "scheduler; real-time behaviour of the 0.2 s / poll_interval loops is not modelled",
    "one client thread enqueues; every job asks for a Future; jobs do not share mutable payload objects"]}
