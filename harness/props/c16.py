"""C16 — Every class the factories generate satisfies the framework's own contracts.

proof side : Properties/C16.v over Model/Contracts.v (closed grammar of node configurations, unbounded nesting;
             `gen` = the metadata records the factories build; the metadata-level SVA rules as boolean functions)
tie        : Gen/ContractsGen.v (RULES table with the predicate of every check function, node-factory dispatch with the
             context_key policy, node metadata literals, two facts about created-key lists)  +  correspondence:
             every configuration up to nesting depth 3 (quick: depth 2 + a sample of depth 3) is built through the real
             factory path; get_metadata / input_data_type / output_data_type / get_created_keys / registry membership /
             validate_component diagnostics of type(node) and type(node.processor) are compared with `gen` inside Coq;
             the rule models are validated separately by running the real rule functions on mutated metadata dicts.
search     : direct oracles on the real classes: any error-level diagnostic; node/processor mirror mismatch.
"""
from __future__ import annotations

import itertools
import json
import logging
import random

from harness import core
from harness.core import cq_bool, cq_list, cq_opt, cq_str
from harness.translate import run_all

FDC = "FloatDataCollection"
ALT = "VerifAltCollection"
_state = {}


# ----------------------------------------------------------------------------------------------
# implementation side
def setup():
    if _state:
        return _state
    logging.disable(logging.CRITICAL)
    from semantiva.registry import apply_profile, RegistryProfile, load_extensions
    apply_profile(RegistryProfile())
    load_extensions(["semantiva-examples"])
    from semantiva.logger import Logger
    Logger(level="CRITICAL")
    from semantiva.registry.processor_registry import ProcessorRegistry
    from semantiva.examples import test_utils as tu
    from semantiva.data_io import PayloadSource
    from semantiva.pipeline.payload import Payload
    from semantiva.context_processors.context_types import ContextType

    class VerifAltCollection(tu.FloatDataCollection):
        """Second collection type (harness side)."""

    class VerifKeyedPayloadSource(PayloadSource):
        """Payload source that injects two context keys (harness side)."""

        @classmethod
        def _get_payload(cls) -> Payload:
            return Payload(tu.FloatDataType(1.0), ContextType({"pa": 1, "pb": 2}))

        @classmethod
        def output_data_type(cls):
            return tu.FloatDataType

        @classmethod
        def _injected_context_keys(cls):
            return ["pa", "pb"]

    class VerifCtxWriteOperation(tu.FloatOperation):
        """Operation that declares and writes a context key (harness side)."""

        def _process_logic(self, data, gain: float = 1.0):
            self._notify_context_update("w", data.data)
            return tu.FloatDataType(data.data * gain)

        @classmethod
        def context_keys(cls):
            return ["w"]

    from semantiva.data_io import DataSource, DataSink

    # components WITHOUT a docstring of their own (wrappers copy the wrapped docstring into their metadata)
    class VerifUndocSource(DataSource):
        @classmethod
        def _get_data(cls, value: float = 1.0):
            return tu.FloatDataType(value)

        @classmethod
        def output_data_type(cls):
            return tu.FloatDataType

    class VerifUndocProbe(tu.FloatProbe):
        def _process_logic(self, data):
            return data.data

    class VerifUndocSink(DataSink):
        @classmethod
        def _send_data(cls, data, path: str):
            return None

        @classmethod
        def input_data_type(cls):
            return tu.FloatDataType

    class VerifStoreSourceSink(DataSource, DataSink):
        """An in-memory store that can be read and written: a source first (harness side)."""

        @classmethod
        def _get_data(cls, value: float = 1.0):
            return tu.FloatDataType(value)

        @classmethod
        def output_data_type(cls):
            return tu.FloatDataType

        @classmethod
        def _send_data(cls, data, path: str):
            return None

        @classmethod
        def input_data_type(cls):
            return tu.FloatDataType

    class VerifTypedProbe(tu.FloatProbe):
        """A probe that also says what its RESULT is (the node still passes its input through) (harness side)."""

        def _process_logic(self, data):
            return [data.data]

        @classmethod
        def output_data_type(cls):
            return tu.FloatDataCollection

    class VerifTupleKeysSource(DataSource):
        """A source that names the context keys it creates in a tuple (harness side)."""

        @classmethod
        def _get_data(cls, value: float = 1.0):
            return tu.FloatDataType(value)

        @classmethod
        def output_data_type(cls):
            return tu.FloatDataType

        @classmethod
        def get_created_keys(cls):
            return ("a", "b")

    for c in (VerifAltCollection, VerifKeyedPayloadSource, VerifCtxWriteOperation, VerifUndocSource, VerifUndocProbe, VerifUndocSink,
              VerifStoreSourceSink, VerifTypedProbe, VerifTupleKeysSource):
        ProcessorRegistry.register_processor(c.__name__, c)
    _state["ready"] = True
    return _state


BASES = ["FloatValueDataSource", "FloatValueDataSourceWithDefault", "FloatPayloadSource", "VerifKeyedPayloadSource",
         "FloatMultiplyOperation", "FloatMultiplyOperationWithDefault", "FloatSquareOperation",
         "FloatCollectionSumOperation", "VerifCtxWriteOperation", "FloatBasicProbe", "FloatCollectValueProbe",
         "FloatMockDataSink", "FloatDataSink", "FloatPayloadSink", "ModelFittingContextProcessor",
         "VerifUndocSource", "VerifUndocProbe", "VerifUndocSink"]
QUICK_BASES = ["FloatValueDataSource", "VerifKeyedPayloadSource", "FloatMultiplyOperation", "FloatCollectionSumOperation",
               "VerifCtxWriteOperation", "FloatBasicProbe", "FloatMockDataSink", "FloatPayloadSink",
               "VerifUndocSource", "VerifUndocProbe", "VerifUndocSink"]


def typed_probe_oracle(ck):
    """Direct oracle only (the model has no notion of a probe's result type): a probe that declares an output_data_type of its
    own -- plain, keyed, sliced -- still gives a node that passes its input type through, with no error diagnostic."""
    base = base_facts("VerifTypedProbe")
    n = 0
    for c in (base, {"t": "slice", "c": base, "coll": FDC}):
        for cfg in (c, {"t": "key", "c": c, "key": "k"}):
            for via in (False, True):
                o = observe(cfg, via)
                n += 1
                if not o["ok"]:
                    continue
                o["p"]["out"] = None        # (what the probe says about its result is not the node's output)
                for sig, what in oracle(cfg, o):
                    ck.fail_input(sig + ":probe-declaring-a-result-type", what + " [a DataProbe that declares output_data_type]",
                                  {"cfg": short(cfg), "via_pipeline": via, "kind": "typed-probe"})
    # a source that returns its created keys as a tuple: the class itself is contract-clean, so must the node class be
    from semantiva.registry import resolve_symbol
    tk = base_facts("VerifTupleKeysSource")
    if not [d for d in diags_of(resolve_symbol("VerifTupleKeysSource")) if d[1] == "error"]:
        for via in (False, True):
            o = observe(tk, via)
            n += 1
            if o["ok"]:
                for sig, what in oracle(tk, o):
                    ck.fail_input(sig + ":created-keys-given-as-a-tuple", what + " [a DataSource whose get_created_keys() returns a tuple]",
                                  {"cfg": short(tk), "via_pipeline": via, "kind": "tuple-keys-source"})
    # a data-IO class with two roles (an in-memory store that can be read and written; DataSource comes first in its bases and in
    # its component_type): node class and adapter must both treat it as the source it says it is
    dual = base_facts("VerifStoreSourceSink")
    for via in (False, True):
        o = observe(dual, via)
        n += 1
        if not o["ok"]:
            ck.fail_input("C16:dual-role-io-class:not-constructible", "a class inheriting DataSource and DataSink cannot be wrapped: %s" % o["error"],
                          {"cfg": short(dual), "via_pipeline": via, "kind": "dual-role"})
            continue
        probs = oracle(dual, o)
        if o["node_class"] != "_DataSourceNode" or o["p"]["md"].get("component_type") != "DataSource":
            probs.append(("C16:dual-role-io-class:node-and-adapter-disagree", "node base class %s around a processor of component_type %s"
                          % (o["node_class"], o["p"]["md"].get("component_type"))))
        for sig, what in probs:
            ck.fail_input(sig + ":dual-role-io-class", what + " [a class inheriting DataSource and DataSink]",
                          {"cfg": short(dual), "via_pipeline": via, "kind": "dual-role"})
    return n


def kind_of_class(cls):
    from semantiva.data_io import DataSource, PayloadSource, DataSink, PayloadSink
    from semantiva.data_processors.data_processors import DataOperation, DataProbe
    from semantiva.context_processors import ContextProcessor
    for k, b in (("KContextProcessor", ContextProcessor), ("KDataOperation", DataOperation), ("KDataProbe", DataProbe),
                 ("KDataSource", DataSource), ("KPayloadSource", PayloadSource), ("KDataSink", DataSink),
                 ("KPayloadSink", PayloadSink)):
        if issubclass(cls, b):
            return k
    raise ValueError(cls)


def base_facts(name):
    """Facts about a hand-written component, read from the class (inputs of the model)."""
    from semantiva.registry import resolve_symbol
    from semantiva.data_processors.data_processors import _NO_DEFAULT
    cls = resolve_symbol(name)
    k = kind_of_class(cls)
    md = cls.get_metadata()
    params = [[n, pi.default is not _NO_DEFAULT] for n, pi in md.get("parameters", {}).items()]
    tin = cls.input_data_type().__name__ if k in ("KDataOperation", "KDataProbe", "KDataSink", "KPayloadSink") else ""
    tout = cls.output_data_type().__name__ if k in ("KDataOperation", "KDataSource", "KPayloadSource") else ""
    if k == "KPayloadSource":
        created = list(cls.injected_context_keys())
    elif hasattr(cls, "get_created_keys"):
        created = list(cls.get_created_keys())
    else:
        created = []
    supp = list(cls.get_suppressed_keys()) if hasattr(cls, "get_suppressed_keys") else []
    req = list(cls.get_required_keys()) if hasattr(cls, "get_required_keys") else []
    return {"t": "base", "name": name, "kind": k, "in": tin, "out": tout, "params": params, "created": created,
            "supp": supp, "req": req, "pre": "preprocessor" in md}


def strip_key(cfg):
    return (cfg["c"], cfg["key"]) if cfg["t"] == "key" else (cfg, None)


def sweep_block(cfg):
    variables = {}
    for v, key in cfg["vars"]:
        variables[v] = {"from_context": key} if key is not None else {"values": list(cfg.get("values", [1.0, 2.0]))}
    first = cfg["vars"][0][0] if cfg["vars"] else "t"
    d = {"parameters": {b: cfg.get("expr_form", "2 * %s") % first for b in cfg["bound"]}, "variables": variables}
    if cfg["coll"] is not None:
        d["collection"] = cfg["coll"][0]
    return {"parameter_sweep": d}


def proc_obj(cfg):
    """The processor specification (registered name or class) of a processor-level configuration."""
    from semantiva.registry import resolve_symbol
    from semantiva.pipeline.node_preprocess import preprocess_node_config
    from semantiva.data_processors.data_slicer_factory import slice as mkslice
    t = cfg["t"]
    if t == "base":
        return cfg["name"]
    if t == "rename":
        return "rename:%s:%s" % (cfg["a"], cfg["b"])
    if t == "delete":
        return "delete:%s" % cfg["a"]
    if t == "template":
        return 'template:"%s":%s' % ("_".join("{%s}" % h for h in cfg["holes"]), cfg["out"])
    if t == "slice":
        inner = proc_obj(cfg["c"])
        if isinstance(inner, str) and cfg["c"]["t"] == "base":
            return "slice:%s:%s" % (inner, cfg["coll"])        # YAML shorthand through the name resolver
        if isinstance(inner, str):
            inner = resolve_symbol(inner)
        out = mkslice(inner, resolve_symbol(cfg["coll"]))
        if out is None:
            raise ValueError("slice() produced no class")
        return out
    if t == "sweep":
        inner = proc_obj(cfg["c"])
        if isinstance(inner, str) and cfg["c"]["t"] != "base":
            inner = resolve_symbol(inner)
        return preprocess_node_config({"processor": inner, "derive": sweep_block(cfg)})["processor"]
    raise ValueError("context_key below the node level")


def build_node(cfg, via_pipeline=False):
    from semantiva.pipeline.nodes._pipeline_node_factory import _pipeline_node_factory
    from semantiva.registry import resolve_symbol
    c0, key = strip_key(cfg)
    nd = {}
    if c0["t"] == "sweep":        # outermost sweep: leave the derive block to the node factory (YAML form)
        inner = proc_obj(c0["c"])
        if isinstance(inner, str) and c0["c"]["t"] != "base":
            inner = resolve_symbol(inner)
        nd["processor"] = inner
        nd["derive"] = sweep_block(c0)
    else:
        nd["processor"] = proc_obj(c0)
    if key is not None:
        nd["context_key"] = key
    if via_pipeline:
        from semantiva.pipeline import Pipeline
        pl = Pipeline([nd])       # build_canonical_spec -> preprocess_node_config -> orchestrator._instantiate_nodes
        nodes, _ = pl.orchestrator._instantiate_nodes(pl.resolved_spec, pl.logger)
        return nodes[0]
    return _pipeline_node_factory(nd)


def tname(cls, meth):
    from semantiva.contracts.expectations import _is_classmethod
    if not hasattr(cls, meth) or not _is_classmethod(cls, meth):
        return None
    return getattr(cls, meth)().__name__


def canon_md(md):
    out = {}
    for k, v in md.items():
        if k in ("docstring", "wrapped_component_docstring", "preprocessor"):
            out[k] = ""
        elif k == "parameters":
            out[k] = list(v.keys()) if hasattr(v, "keys") else (list(v) if isinstance(v, list) else str(v))
        elif isinstance(v, list):
            out[k] = [str(x) for x in v]
        else:
            out[k] = str(v)
    return out


def view_of(cls, is_node):
    from semantiva.core.semantiva_component import get_component_registry
    v = {"md": canon_md(cls.get_metadata()), "in": tname(cls, "input_data_type"), "out": tname(cls, "output_data_type")}
    for f, m in (("created", "get_created_keys"), ("supp", "get_suppressed_keys"), ("req", "get_required_keys")):
        v[f] = list(getattr(cls, m)()) if hasattr(cls, m) else None
    v["reg"] = sorted(cat for cat, lst in get_component_registry().items() if cls in lst)
    v["pin"] = v["pout"] = None
    if is_node:
        p = getattr(cls, "processor", None)
        if p is not None:
            pc = p if isinstance(p, type) else type(p)
            v["pin"], v["pout"] = tname(pc, "input_data_type"), tname(pc, "output_data_type")
    return v


def diags_of(cls):
    from semantiva.contracts.expectations import validate_component
    return [[d.code, d.severity] for d in validate_component(cls)]


def observe(cfg, via_pipeline=False):
    try:
        node = build_node(cfg, via_pipeline)
    except Exception as ex:  # the factories raise: the configuration is not valid
        return {"ok": False, "error": "%s: %s" % (type(ex).__name__, str(ex)[:120])}
    ncls, pcls = type(node), type(node.processor)
    return {"ok": True, "n": view_of(ncls, True), "p": view_of(pcls, False), "dn": diags_of(ncls), "dp": diags_of(pcls),
            "node_class": ncls.__mro__[1].__name__, "context_key": getattr(node, "context_key", None)}


# ----------------------------------------------------------------------------------------------
# direct oracles (independent of the model)
def factory_kind(cfg):
    """Generating factory named in signatures: sweep if a sweep occurs anywhere in the nesting (slicers only inherit
    from the class they wrap), else slice, else the plain / rename / delete / template form; plus the base kind."""
    c0, _ = strip_key(cfg)
    chain, b = [], c0
    while "c" in b:
        chain.append(b["t"])
        b = b["c"]
    f = "sweep" if "sweep" in chain else ("slice" if "slice" in chain else ("plain" if b["t"] == "base" else b["t"]))
    return "%s(%s)" % (f, b.get("kind", "KContextProcessor")[1:])


def oracle(cfg, o):
    """-> list of (signature, what)"""
    out = []
    fk = factory_kind(cfg)
    for which, ds in (("node", o["dn"]), ("processor", o["dp"])):
        for code, sev in ds:
            if sev == "error":
                out.append(("C16:%s:%s" % (code, fk), "%s class of %s fails %s (error)" % (which, fk, code)))
    n, p, base = o["n"], o["p"], o["node_class"]
    exp = {}
    if base in ("_DataSourceNode", "_PayloadSourceNode"):
        exp = {"in": "NoDataType", "out": p["out"], "created": set(p["created"] or [])}
    elif base in ("_DataSinkNode", "_PayloadSinkNode"):
        exp = {"in": p["in"], "out": p["in"], "created": set(p["created"] or [])}
    elif base == "_ProbeContextInjectorNode":
        exp = {"in": p["in"], "out": p["in"], "created": set(p["created"] or []) | {o["context_key"]}}
    elif base == "_DataOperationNode":
        exp = {"in": p["in"], "out": p["out"], "created": set(p["created"] or [])}
    elif base == "_ContextProcessorNode":
        exp = {"created": set(p["created"] or []), "supp": set(p["supp"] or [])}
    else:
        out.append(("C16:unknown-node-class:%s" % fk, "node base class %s" % base))
    for f, want in exp.items():
        got = n[f]
        if isinstance(want, set):
            got = set(got or [])
        if got != want:
            out.append(("C16:mirror-%s:%s" % (f, fk), "node %s = %s, processor implies %s" % (
                f, sorted(got) if isinstance(got, set) else got, sorted(want) if isinstance(want, set) else want)))
    # the node's metadata must agree with its own classmethods
    md = n["md"]
    for f, key in (("in", "input_data_type"), ("out", "output_data_type")):
        if n[f] is not None and md.get(key) != n[f]:
            out.append(("C16:metadata-%s:%s" % (f, fk), "node metadata %s=%r but %s()=%r" % (key, md.get(key), key, n[f])))
    if "injected_context_keys" in md and n["created"] is not None and md["injected_context_keys"] != n["created"]:
        out.append(("C16:metadata-created:%s" % fk, "node metadata injected_context_keys differs from get_created_keys()"))
    return out


# ----------------------------------------------------------------------------------------------
# configurations
def wrappers(c, full):
    """One-step wrappings of processor-level configuration c: (valid ones, malformed ones)."""
    kind, tin, tout, params = model_shape(c)
    d = depth(c) + 1
    seq = "seq%d" % d
    auto = None if kind == "KDataProbe" else [FDC, True]
    first = [params[0][0]] if params else []
    good, bad = [], []
    sliceable = (kind == "KDataOperation" and tin == tout) or kind == "KDataProbe"
    (good if sliceable else bad).append({"t": "slice", "c": c, "coll": FDC})
    if full and sliceable:
        good.append({"t": "slice", "c": c, "coll": ALT})
    sweeps = [{"t": "sweep", "c": c, "vars": [["t", None]], "bound": [], "coll": auto},
              {"t": "sweep", "c": c, "vars": [["u%d" % d, seq]], "bound": [], "coll": auto}]
    if first:
        sweeps.append({"t": "sweep", "c": c, "vars": [["t%d" % d, None]], "bound": first, "coll": auto})
    if full:
        sweeps.append({"t": "sweep", "c": c, "vars": [["t", None], ["v%d" % d, seq]], "bound": first, "coll": [ALT, True] if auto else None})
    (good if kind in ("KDataSource", "KDataOperation", "KDataProbe") else bad).extend(sweeps)
    # malformed: wrong collection discipline, unknown bound parameter, non-collection output, context key clashing with a parameter
    bad.append({"t": "sweep", "c": c, "vars": [["t", None]], "bound": [], "coll": [FDC, True] if auto is None else None})
    bad.append({"t": "sweep", "c": c, "vars": [["t", None]], "bound": ["nosuch"], "coll": auto})
    bad.append({"t": "sweep", "c": c, "vars": [["t", None]], "bound": [], "coll": ["FloatDataType", False]})
    if first:
        bad.append({"t": "sweep", "c": c, "vars": [["t", first[0]]], "bound": [], "coll": auto})
    return good, bad


def model_shape(c):
    """kind / in / out / params of a processor-level configuration (only used to steer the generator)."""
    if c["t"] == "base":
        return c["kind"], c["in"], c["out"], c["params"]
    if c["t"] in ("rename", "delete", "template"):
        return "KContextProcessor", "", "", []
    k, ti, to, ps = model_shape(c["c"])
    if c["t"] == "slice":
        return k, c["coll"], (c["coll"] if k == "KDataOperation" else ""), ps
    ctx = [[key, False] for _, key in c["vars"] if key is not None]
    rest = [q for q in ps if q[0] not in c["bound"]]
    return k, ti, (c["coll"][0] if c["coll"] else ""), ctx + [q for q in rest if not q[1]] + [q for q in rest if q[1]]


def key_variants(c, full):
    """(valid, malformed) node-level variants."""
    kind = model_shape(c)[0]
    wk = lambda k: {"t": "key", "c": c, "key": k}  # noqa: E731
    if kind == "KDataProbe":
        return [wk("k")] + ([wk("t_values")] if full else []), [c, wk(" ")]
    if kind == "KDataOperation":
        return [c], [wk("k")]
    return [c] + ([wk("k")] if full else []), []


CP_FORMS = [{"t": "rename", "a": "a", "b": "b"}, {"t": "rename", "a": "a.x", "b": "b"}, {"t": "rename", "a": "a", "b": "a"},
            {"t": "delete", "a": "a"}, {"t": "template", "out": "out", "holes": ["x", "y"]},
            {"t": "template", "out": "o.p", "holes": ["x"]},
            # malformed
            {"t": "rename", "a": "1a", "b": "b"}, {"t": "rename", "a": "a", "b": "b-c"}, {"t": "delete", "a": "9"},
            {"t": "template", "out": "out", "holes": []}, {"t": "template", "out": "2x", "holes": ["x"]}]


def depth(c):
    c, _ = strip_key(c)
    d = 0
    while "c" in c:
        d, c = d + 1, c["c"]
    return d


CP_GOOD = 6


def enumerate_cfgs(bases, max_depth, full, rng, sample3):
    """-> (valid processor-level configurations by depth, malformed ones)."""
    levels = [[base_facts(b) for b in bases] + [dict(f) for f in CP_FORMS[:CP_GOOD]]]
    malformed = [dict(f) for f in CP_FORMS[CP_GOOD:]]
    for d in range(1, max_depth + 1):
        nxt = []
        prev = levels[-1]
        if d == 3 and sample3 is not None and len(prev) > sample3:
            prev = rng.sample(prev, sample3)
        for i, c in enumerate(prev):
            good, bad = wrappers(c, full and d <= 2)
            nxt += good
            if d == 1 or i % 7 == 0:
                malformed += bad
        levels.append(nxt)
    return levels, malformed


# ----------------------------------------------------------------------------------------------
# Gallina literals
def cq_pinfo(b):
    return "(mkP %s %s %s %s %s %s %s %s %s)" % (
        b["kind"], cq_str(b["name"]), cq_str(b["in"]), cq_str(b["out"]),
        cq_list(["(%s, %s)" % (cq_str(n), cq_bool(d)) for n, d in b["params"]]),
        cq_list(b["created"], cq_str), cq_list(b["supp"], cq_str), cq_list(b["req"], cq_str), cq_bool(b["pre"]))


def cq_cfg(c):
    t = c["t"]
    if t == "base":
        return "(Base %s)" % cq_pinfo(c)
    if t == "slice":
        return "(Slice %s %s)" % (cq_cfg(c["c"]), cq_str(c["coll"]))
    if t == "sweep":
        return "(Sweep %s %s %s %s)" % (
            cq_cfg(c["c"]), cq_list(["(%s, %s)" % (cq_str(v), cq_opt(k, cq_str)) for v, k in c["vars"]]),
            cq_list(c["bound"], cq_str), cq_opt(c["coll"], lambda x: "(%s, %s)" % (cq_str(x[0]), cq_bool(x[1]))))
    if t == "key":
        return "(WithContextKey %s %s)" % (cq_cfg(c["c"]), cq_str(c["key"]))
    if t == "rename":
        return "(Rename %s %s)" % (cq_str(c["a"]), cq_str(c["b"]))
    if t == "delete":
        return "(Delete %s)" % cq_str(c["a"])
    return "(Template %s %s)" % (cq_str(c["out"]), cq_list(c["holes"], cq_str))


def cq_mval(v):
    return "(ML %s)" % cq_list(v, cq_str) if isinstance(v, list) else "(MS %s)" % cq_str(v)


def cq_view(v):
    sl = lambda l: cq_list(l, cq_str)  # noqa: E731
    return "(mkV %s %s %s %s %s %s %s %s %s)" % (
        cq_list(["(%s, %s)" % (cq_str(k), cq_mval(x)) for k, x in v["md"].items()]),
        cq_opt(v["in"], cq_str), cq_opt(v["out"], cq_str), cq_opt(v["created"], sl), cq_opt(v["supp"], sl),
        cq_opt(v["req"], sl), sl(v["reg"]), cq_opt(v["pin"], cq_str), cq_opt(v["pout"], cq_str))


SEV = {"error": "SError", "warn": "SWarn", "info": "SInfo"}


def cq_diags(ds):
    return cq_list(["(%s, %s)" % (cq_str(c), SEV[s]) for c, s in ds])


HEADER = """From Coq Require Import List String Bool.
From SV Require Import Model.Contracts Gen.ContractsGen.
Import ListNotations. Open Scope string_scope.
Definition D := list (string * sev).
Definition cases : list (cfg * (option (cview * cview) * (D * D))) := [
%s
].
Eval vm_compute in bad_idx (fun c => obs_eqb (gen the_tables (fst c)) (fst (snd c))) cases 0.
Eval vm_compute in bad_idx (fun c => match gen the_tables (fst c) with
  | Some (n, p) => diag_eqb (run_rules rules n) (fst (snd (snd c))) && diag_eqb (run_rules rules p) (snd (snd (snd c)))
  | None => true end) cases 0.
"""
HEADER_MUT = """From Coq Require Import List String Bool.
From SV Require Import Model.Contracts Gen.ContractsGen.
Import ListNotations. Open Scope string_scope.
Definition md_rules := filter (fun r => match snd (snd r) with PReflect => false | _ => true end) rules.
Definition cases : list (cview * list (string * sev)) := [
%s
].
Eval vm_compute in bad_idx (fun c => diag_eqb (run_rules md_rules (fst c)) (snd c)) cases 0.
"""


def case_text(cfg, o):
    if not o["ok"]:
        return "(%s, (None, ([], [])))" % cq_cfg(cfg)
    return "(%s, (Some (%s, %s), (%s, %s)))" % (cq_cfg(cfg), cq_view(o["n"]), cq_view(o["p"]), cq_diags(o["dn"]), cq_diags(o["dp"]))


# ----------------------------------------------------------------------------------------------
# rule models on mutated metadata (real rule functions on dicts)
CTYPES = ["DataSource", "PayloadSource", "DataSink", "PayloadSink", "DataOperation", "DataProbe", "ContextProcessor",
          "DataSourceNode", "PayloadSourceNode", "DataSinkNode", "PayloadSinkNode", "DataOperationNode",
          "ProbeContextInjectorNode", "ProbeResultCollectorNode", "ContextProcessorNode", "Other"]
MKEYS = ["class_name", "docstring", "component_type", "parameters", "input_data_type", "output_data_type",
         "injected_context_keys", "suppressed_context_keys", "required_context_keys", "wraps_component_type"]


def mutate(view, rng):
    v = json.loads(json.dumps(view))
    md = v["md"]
    for _ in range(rng.choice([1, 1, 2, 3])):
        op = rng.randrange(9)
        if op == 0 and md:
            md.pop(rng.choice(sorted(md)), None)
        elif op == 1:
            md["component_type"] = rng.choice(CTYPES)
        elif op == 2:
            md[rng.choice(["injected_context_keys", "suppressed_context_keys"])] = rng.choice([["a", "a"], ["a", "b"], "#", [], ["b"]])
        elif op == 3:
            md["parameters"] = rng.choice(["None", "abc", [], ["p"]])
        elif op == 4:
            md[rng.choice(["input_data_type", "output_data_type"])] = rng.choice(["NoDataType", "FloatDataType", "X", ["X"]])
        elif op == 5:
            v["pin"] = rng.choice([None, "FloatDataType", "X"])
            v["pout"] = rng.choice([None, "FloatDataType", "X"])
        elif op == 6:
            v["reg"] = rng.choice([[], [md.get("component_type")] if isinstance(md.get("component_type"), str) else [], ["Other"]])
        elif op == 7:
            if rng.random() < 0.3:   # string values: the overlap rule iterates them as characters
                md["injected_context_keys"], md["suppressed_context_keys"] = rng.choice(["ab", "#", ["a"]]), rng.choice(["b", "#", ["a"], ["ab"]])
            else:
                md["injected_context_keys"], md["suppressed_context_keys"] = ["a", "b"], rng.choice([["b"], ["c"], ["a", "b"]])
        else:
            k = rng.choice(MKEYS)
            md.setdefault(k, "X" if k not in ("injected_context_keys", "suppressed_context_keys", "required_context_keys", "parameters") else [])
    if not isinstance(md.get("component_type", ""), str):
        md["component_type"] = "Other"
    return v


def real_rules_on(view, md_rule_codes):
    """Run the real check functions of the metadata-level rules on a stub class carrying `view`."""
    from semantiva.contracts.expectations import RULES
    from semantiva.core.semantiva_component import get_component_registry
    md = dict(view["md"])
    attrs = {"_define_metadata": classmethod(lambda c: md), "get_metadata": classmethod(lambda c: md)}
    if view["pin"] is not None or view["pout"] is not None:
        pat = {}
        if view["pin"] is not None:
            ti = type(view["pin"], (), {})
            pat["input_data_type"] = classmethod(lambda c, ti=ti: ti)
        if view["pout"] is not None:
            to = type(view["pout"], (), {})
            pat["output_data_type"] = classmethod(lambda c, to=to: to)
        attrs["processor"] = type("StubProcessor", (), pat)
    stub = type("Stub", (), attrs)
    from semantiva.contracts import expectations as ex
    saved = ex.MESSAGES
    # the SVA103 message text contains a literal "{}" and str.format raises IndexError whenever the rule fires;
    # message rendering is irrelevant here, so blank the texts while the check functions run
    ex.MESSAGES = {k: "" for k in saved}
    reg = get_component_registry()
    added = []
    for cat in view["reg"]:
        reg.setdefault(cat, []).append(stub)
        added.append(cat)
    try:
        out = []
        for spec in RULES:
            if spec.code in md_rule_codes:
                out += [[d.code, d.severity] for d in spec.check(stub, md)]
        return out
    finally:
        ex.MESSAGES = saved
        for cat in added:
            reg[cat].remove(stub)
            if not reg[cat] and cat == "Other":
                del reg[cat]


# ----------------------------------------------------------------------------------------------
_race_n = [0]


def concurrent_registration_oracle(ck):
    """Two threads generate a class of the same component category; thread A is suspended at every line of the component
    metaclass' registration (sys.settrace on that one code object) while thread B registers its class completely (or
    blocks on the registry lock until A goes on).  Afterwards both classes must be in the component registry and pass
    validate_component without an SVA107 (registry coherence) error."""
    import sys
    import threading
    from semantiva.core import semantiva_component as sc
    from semantiva.examples.test_utils import FloatOperation, FloatDataType
    code = sc._SemantivaComponentMeta.__init__.__code__

    def make(name):
        return type(name, (FloatOperation,), {"__doc__": "Generated for the registration race.", "__module__": __name__,
                                              "_process_logic": lambda self, data: FloatDataType(data.data)})

    def in_registry(cls):
        return any(cls in v for v in sc.get_component_registry().values())

    # number of line events of one registration
    count = [0]

    def counting(frame, event, arg):
        if frame.f_code is code:
            def local(fr, ev, a):
                if ev == "line":
                    count[0] += 1
                return local
            return local
        return None
    _race_n[0] += 1
    sys.settrace(counting)
    try:
        make("VerifRaceProbe%d" % _race_n[0])
    finally:
        sys.settrace(None)
    points, lost = count[0], []
    for k in range(1, points + 1):
        paused, resume = threading.Event(), threading.Event()
        made = {}

        def thread_a():
            seen = [0]

            def tracer(frame, event, arg):
                if frame.f_code is code:
                    def local(fr, ev, a):
                        if ev == "line":
                            seen[0] += 1
                            if seen[0] == k:
                                paused.set()
                                resume.wait(3.0)
                        return local
                    return local
                return None
            sys.settrace(tracer)
            try:
                made["a"] = make("VerifRaceA%d_%d" % (_race_n[0], k))
            finally:
                sys.settrace(None)

        def thread_b():
            made["b"] = make("VerifRaceB%d_%d" % (_race_n[0], k))
        ta, tb = threading.Thread(target=thread_a), threading.Thread(target=thread_b)
        ta.start()
        paused.wait(3.0)
        tb.start()
        tb.join(0.3)           # B finishes, or waits for the lock A holds
        resume.set()
        ta.join(5.0)
        tb.join(5.0)
        for who in ("a", "b"):
            cls = made.get(who)
            if cls is None:
                ck.corr_problem("registration race: thread %s did not finish at stop point %d" % (who, k), "")
            elif not in_registry(cls):
                lost.append((k, who, cls.__name__))
    if lost:
        k, who, name = lost[0]
        from semantiva.contracts.expectations import validate_component
        cls_diags = []
        ck.fail_input("C16:registry:concurrently-generated-class-not-registered",
                      "two threads generate a FloatOperation subclass each; with thread A suspended at line-stop %d of "
                      "_SemantivaComponentMeta.__init__ while thread B registers, class %s (thread %s) is missing from the "
                      "component registry afterwards (SVA107 registry coherence); %d of %d stop points lose a class"
                      % (k, name, who, len({x[0] for x in lost}), points),
                      {"kind": "registration-race", "stop_point": k, "lost": lost[:6], "stop_points": points})
    return {"stop_points": points, "lost": len(lost)}


def unusual_values_and_histories_oracle(ck, cfgs):
    """Direct oracles: (a) generated sweep classes whose explicit value list holds unusual but legal values (non-finite floats,
    mixed numeric types, one element, many elements); (b) a valid node built from a class object AFTER a configuration of the
    same class object was rejected (unknown parameter) -- the class must still satisfy the contracts."""
    import copy
    from semantiva.pipeline.nodes._pipeline_node_factory import _pipeline_node_factory
    from semantiva.registry import resolve_symbol
    from semantiva.data_processors.data_slicer_factory import slice as mkslice
    n = 0
    value_sets = [[0.5, 1.0, float("inf")], [float("nan"), 1.0], [1, True, 2.5], [3.0], [float(i) for i in range(40)], [-0.0, 0.0], [1e308, -1e308, 5e-324]]
    sweeps = [c for c in cfgs if strip_key(c)[0].get("t") == "sweep" and any(k is None for _, k in strip_key(c)[0]["vars"])][:12]
    # spellings of one expression that the evaluator may or may not accept (blank-padded, tab, parenthesised, broken over
    # lines inside parentheses, trailing comment): each is either rejected at build time or gives contract-satisfying classes
    expr_forms = [" 2 * %s", "2 * %s ", "\t2 * %s", "(2 * %s)", "(2 *\n %s)", "2 * %s  # twice", "+2 * %s", "2 * (%s)"]
    bound_sweeps = [c for c in cfgs if strip_key(c)[0].get("t") == "sweep" and strip_key(c)[0]["bound"]][:6]
    variants = [(c, "values", vs) for ci, c in enumerate(sweeps) for vs in (value_sets if ci < 3 else value_sets[:2])]
    variants += [(c, "expr_form", f) for ci, c in enumerate(bound_sweeps) for f in (expr_forms if ci < 2 else expr_forms[:3])]
    for c, field, vs in variants:
        if True:
            c2 = copy.deepcopy(c)
            strip_key(c2)[0][field] = vs
            if field == "expr_form":
                vs = [vs]
            rep = {"kind": "unusual-values", "config": json.loads(json.dumps(c2, default=repr)), "values": [repr(v) for v in vs[:6]]}
            try:
                node = build_node(c2)
            except Exception:  # noqa - the factories reject these values: nothing generated
                continue
            n += 1
            flagged = False
            for which, k in (("node", type(node)), ("processor", type(node.processor))):
                try:
                    errs = [d for d in diags_of(k) if d[1] == "error"]
                    k.get_metadata()
                except Exception as ex:  # noqa
                    ck.fail_input("C16:generated-class-metadata-raises:%s:unusual-sweep-values" % factory_kind(c2),
                                  "%s class generated for sweep values %r: get_metadata / validate_component raises %r" % (which, vs[:4], ex), rep)
                    flagged = True
                    break
                if errs:
                    ck.fail_input("C16:%s:%s:unusual-sweep-values" % (errs[0][0], factory_kind(c2)),
                                  "%s class generated for sweep values %r fails %s (error)" % (which, vs[:4], [e[0] for e in errs]), rep)
                    flagged = True
                    break
            if flagged:
                continue
            try:
                o = observe(c2)
            except Exception as ex:  # noqa
                ck.corr_problem("unusual-values oracle could not observe a configuration", repr(ex))
                continue
            if not o["ok"]:
                continue
            for sig, what in oracle(c2, o):
                ck.fail_input(sig + ":unusual-sweep-values", what + " (sweep values %r)" % (vs[:4],),
                              {"kind": "unusual-values", "config": json.loads(json.dumps(c2, default=repr)), "values": [repr(v) for v in vs[:6]]})
                break
    # (b) rejected build, then a valid build of the same class object
    specs = [("plain operation", resolve_symbol("FloatMultiplyOperation"), {}), ("plain probe", resolve_symbol("FloatCollectValueProbe"), {"context_key": "k"}),
             ("slicer wrapper", mkslice(resolve_symbol("FloatMultiplyOperation"), resolve_symbol("FloatDataCollection")), {}),
             ("plain source", resolve_symbol("FloatValueDataSource"), {}), ("plain sink", resolve_symbol("FloatMockDataSink"), {})]
    for name, cls, extra in specs:
        try:
            _pipeline_node_factory(dict({"processor": cls, "parameters": {"no_such_parameter_xyz": 1}}, **extra))
            rejected = False
        except Exception:  # noqa
            rejected = True
        try:
            node = _pipeline_node_factory(dict({"processor": cls}, **extra))
        except Exception as ex:  # noqa
            ck.fail_input("C16:valid-build-fails-after-a-rejected-build:%s" % name.replace(" ", "-"),
                          "a valid node of %s cannot be built after a configuration of the same class was rejected: %r" % (name, ex),
                          {"kind": "rejected-then-valid", "class": name})
            continue
        n += 1
        for which, k in (("node", type(node)), ("processor", type(node.processor))):
            errs = [d for d in diags_of(k) if d[1] == "error"]
            if errs:
                ck.fail_input("C16:%s:after-rejected-build:%s" % (errs[0][0], name.replace(" ", "-")),
                              "%s class of a valid %s node fails %s after a configuration of the same class object was rejected (rejected: %s)"
                              % (which, name, [e[0] for e in errs], rejected), {"kind": "rejected-then-valid", "class": name})
                break
    # (c) the configuration mapping a sweep was built from is edited IN PLACE afterwards (a typo that is rightly rejected, then a
    # valid edit): the classes generated for the first node still satisfy the contracts and still describe the first node
    for elem, pname in (("FloatMultiplyOperation", "factor"), ("FloatValueDataSource", "value")):
        for edit in ("2 * * t", "3 * t"):
            cfg = {"processor": elem, "derive": {"parameter_sweep": {"parameters": {pname: "2 * t"}, "variables": {"t": [1.0, 2.0]},
                                                                      "collection": "FloatDataCollection"}}}
            try:
                node = _pipeline_node_factory(cfg)
                before = {which: [d for d in diags_of(k) if d[1] == "error"] for which, k in (("node", type(node)), ("processor", type(node.processor)))}
                meta_before = json.dumps(type(node.processor).get_metadata(), sort_keys=True, default=repr)
            except Exception as ex:  # noqa
                ck.corr_problem("in-place-edit oracle: the first sweep node could not be built", repr(ex)[:300])
                continue
            cfg["derive"]["parameter_sweep"]["parameters"][pname] = edit        # the caller goes on editing its own mapping
            try:
                _pipeline_node_factory(cfg)
            except Exception:  # noqa - the typo is rejected, as it should be
                pass
            n += 1
            rep = {"kind": "config-edited-in-place", "element": elem, "edit": edit}
            try:
                after = {which: [d for d in diags_of(k) if d[1] == "error"] for which, k in (("node", type(node)), ("processor", type(node.processor)))}
                meta_after = json.dumps(type(node.processor).get_metadata(), sort_keys=True, default=repr)
            except Exception as ex:  # noqa
                ck.fail_input("C16:generated-class-metadata-raises:sweep:config-edited-in-place",
                              "after the caller edits the expression in its own configuration mapping to %r, get_metadata / validate_component of the FIRST node's classes raises %r" % (edit, ex), rep)
                continue
            errs = [e for which in after for e in after[which] if e not in before[which]]
            if errs:
                ck.fail_input("C16:%s:sweep:config-edited-in-place" % errs[0][0],
                              "after the caller edits the expression in its own configuration mapping to %r, the classes generated for the first node fail %s" % (edit, sorted({e[0] for e in errs})), rep)
            elif meta_after != meta_before:
                ck.fail_input("C16:generated-class-metadata-changes:sweep:config-edited-in-place",
                              "after the caller edits the expression in its own configuration mapping to %r, the metadata of the class generated for the FIRST node changes" % edit, rep)
    # (d) a processor specialised through node parameters (ModelFittingContextProcessor: variable mapping, output key) given an
    # output key of another YAML scalar type (context_key: 2024 / 2.5 / true): rejected at build time, or contract-clean classes
    FIT = "model:PolynomialFittingModel:degree=1"
    for key in (2024, 2.5, True, "fit.out", "out[0]"):
        for form, params in (("mapped", {"fitting_model": FIT, "independent_var_key": "xs", "dependent_var_key": "ys", "context_key": key}),
                             ("key-only", {"fitting_model": FIT, "context_key": key})):
            try:
                node = _pipeline_node_factory({"processor": "ModelFittingContextProcessor", "parameters": dict(params)})
            except Exception:  # noqa - rejected: nothing generated
                continue
            n += 1
            for which, k in (("node", type(node)), ("processor", type(node.processor))):
                try:
                    errs = [d for d in diags_of(k) if d[1] == "error"]
                except Exception as ex:  # noqa
                    errs = [("raises %r" % (ex,), "error")]
                if errs:
                    ck.fail_input("C16:%s:model-fit-%s:non-string-output-key" % (errs[0][0], form),
                                  "ModelFittingContextProcessor (%s form) with context_key %r is accepted and its generated %s class fails %s"
                                  % (form, key, which, [e[0] for e in errs]), {"kind": "model-fit-output-key", "form": form, "context_key": repr(key)})
                    break
    return {"runs": n}


def run(ck):
    rng = random.Random(ck.seed * 15485863 + 16)
    thorough = ck.tier == "thorough"
    gen = run_all(["contracts"])
    ck.build_models(["Model/Contracts.v", "Gen/ContractsGen.v"])
    proved = ck.prove(gen_results=gen)
    if thorough and proved:
        ck.coqchk()
    setup()

    # ---------- configurations and the real classes
    bases = BASES if thorough else QUICK_BASES
    levels, malformed = enumerate_cfgs(bases, 3, True, rng, None if thorough else 80)
    if not thorough:
        extra = [base_facts(b) for b in BASES if b not in bases]
        levels[0] += extra
        for c in extra:
            levels[1] += wrappers(c, False)[0]
    cfgs, bad_cfgs = [], []
    for lv in levels:
        for c in lv:
            good, bad = key_variants(c, depth(c) <= 1 or thorough)
            cfgs += good
            bad_cfgs += bad
    for c in malformed:
        good, bad = key_variants(c, False)
        bad_cfgs += good[:1]
    n_stream_valid = len(cfgs)
    cfgs += bad_cfgs
    corpus = load_corpus()
    cfgs = corpus + cfgs
    seen, uniq = set(), []
    for c in cfgs:
        k = json.dumps(c, sort_keys=True)
        if k not in seen:
            seen.add(k)
            uniq.append(c)
    cfgs = uniq
    obs = [observe(c) for c in cfgs]
    n_ok = sum(1 for o in obs if o["ok"])
    by_depth = {}
    for c, o in zip(cfgs, obs):
        d = by_depth.setdefault(depth(c), [0, 0])
        d[0 if o["ok"] else 1] += 1
    ck.notes["input_distribution"] = {
        "bases": bases, "configurations": len(cfgs), "valid_stream": n_stream_valid, "malformed_stream_size": len(cfgs) - n_stream_valid, "built": n_ok, "rejected_by_factories": len(cfgs) - n_ok,
        "by_nesting_depth(valid,rejected)": by_depth,
        "malformed_stream": "wrong collection discipline, unknown bound parameter, non-collection sweep output, context key "
                            "clashing with a parameter, context_key on operations / missing or blank on probes, "
                            "slices of non-processors and of operations with in<>out, invalid rename/delete/template keys",
        "depth3": "exhaustive over valid depth-2 configurations" if thorough else "wrappers of a seeded sample of 60 depth-2 configurations"}
    ck.cov["evaluations"] = len(cfgs)
    ck.cov["distinct_nontrivial"] = sum(1 for c, o in zip(cfgs, obs) if o["ok"] and depth(c) >= 1)
    ck.cov["rule"] = ("distinct node configurations (JSON-canonical); non-trivial = built by the factories with at least one "
                      "wrapping factory (slice / sweep) around the base component; %d built, %d rejected" % (n_ok, len(cfgs) - n_ok))
    ck.cov["samples"] = [{"cfg": short(c), "built": o["ok"], "node_diags": o.get("dn"), "proc_diags": o.get("dp")}
                         for c, o in list(zip(cfgs, obs))[:: max(1, len(cfgs) // 10)]]

    # the YAML-expressible subset once more through Pipeline([...]) : same classes' metadata
    pipe_checked = 0
    for c, o in zip(cfgs, obs):
        if depth(c) <= 1 and o["ok"]:
            o2 = observe(c, via_pipeline=True)
            pipe_checked += 1
            if not o2["ok"] or (o2["n"], o2["p"], o2["dn"], o2["dp"]) != (o["n"], o["p"], o["dn"], o["dp"]):
                ck.corr_problem("Pipeline([...]) and _pipeline_node_factory build different classes", json.dumps(short(c)), case=c)
    ck.notes["built_again_through_Pipeline"] = pipe_checked

    # ---------- correspondence: gen vs real classes; rule models vs validate_component
    shard = 250
    texts = [HEADER % ";\n".join(case_text(c, o) for c, o in list(zip(cfgs, obs))[i:i + shard]) for i in range(0, len(cfgs), shard)]
    per, errs = core.mismatches("C16", texts, expect_lists=2, timeout=900)
    agreed = 0
    for k, ls in enumerate(per):
        if ls is None:
            continue
        n = min(shard, len(cfgs) - k * shard)
        badset = set(ls[0]) | set(ls[1])
        agreed += n - len(badset)
        for b in sorted(badset)[:5]:
            c, o = cfgs[k * shard + b], obs[k * shard + b]
            what = "metadata/type/created-keys view" if b in ls[0] else "diagnostics of the rule models"
            ck.corr_problem("model gen vs real generated classes disagree on the %s" % what,
                            json.dumps({"cfg": short(c), "observed": o}, default=str)[:1500], case=c)
    for k, rc, out in errs:
        ck.corr_problem("correspondence shard %d did not evaluate (rc=%s)" % (k, rc), out)
    ck.cov["traces_validated_against_impl"] = agreed
    ck.log("correspondence: %d/%d configurations agree (%d built, %d rejected)" % (agreed, len(cfgs), n_ok, len(cfgs) - n_ok))

    # ---------- rule models on mutated metadata
    from harness.translate import contracts as tr
    rules, _ = tr.translate_rules() if gen.get("contracts", {}).get("ok") else ([], None)
    md_codes = {c for c, s, p in rules if p != "PReflect"}
    views = [o[w] for o in obs if o["ok"] for w in ("n", "p")]
    n_mut = 3000 if thorough else 600
    muts = []
    for i in range(n_mut if views else 0):
        v = mutate(rng.choice(views), rng) if i % 10 else json.loads(json.dumps(rng.choice(views)))
        muts.append((v, real_rules_on(v, md_codes)))
    texts = [HEADER_MUT % ";\n".join("(%s, %s)" % (cq_view(v), cq_diags(d)) for v, d in muts[i:i + 300]) for i in range(0, len(muts), 300)]
    per, errs = core.mismatches("C16_rules", texts, timeout=900)
    mut_ok = 0
    for k, ls in enumerate(per):
        if ls is None:
            continue
        mut_ok += min(300, len(muts) - k * 300) - len(ls[0])
        for b in ls[0][:4]:
            v, d = muts[k * 300 + b]
            ck.corr_problem("rule model vs real rule functions disagree on a metadata dict", json.dumps({"view": v, "real": d})[:1200])
    for k, rc, out in errs:
        ck.corr_problem("rule-model shard %d did not evaluate (rc=%s)" % (k, rc), out)
    failing_muts = sum(1 for v, d in muts if any(s == "error" for _, s in d))
    ck.notes["rule_model_validation"] = {"metadata_dicts": len(muts), "agree": mut_ok, "with_error_diagnostics": failing_muts,
                                         "rules_modelled": sorted(md_codes),
                                         "rules_reflection_only": sorted(c for c, s, p in rules if p == "PReflect")}
    ck.cov["traces_validated_against_impl"] += mut_ok
    ck.log("rule models: %d/%d mutated metadata dicts agree (%d of them carry error diagnostics)" % (mut_ok, len(muts), failing_muts))

    # ---------- direct oracle: classes generated concurrently all reach the registry (SVA107 registry coherence)
    ck.notes["concurrent_registration"] = concurrent_registration_oracle(ck)
    ck.notes["unusual_values_and_histories"] = unusual_values_and_histories_oracle(ck, uniq)
    ck.notes["typed_probe_oracle_runs"] = typed_probe_oracle(ck)

    # ---------- direct oracles
    first = {}
    for c, o in zip(cfgs, obs):
        if o["ok"]:
            for sig, what in oracle(c, o):
                if sig not in first:
                    first[sig] = True
                    ck.fail_input(sig, what + " ; minimal configuration: " + json.dumps(short(c)), {"cfg": c})
    diag_hist = {}
    for o in obs:
        if o["ok"]:
            for code, sev in o["dn"] + o["dp"]:
                diag_hist["%s/%s" % (code, sev)] = diag_hist.get("%s/%s" % (code, sev), 0) + 1
    ck.notes["diagnostics_on_generated_classes"] = diag_hist
    ck.notes["facts"] = {"note": "sweep_dedup / probe_mirror are read from the source by the translator; see Gen/ContractsGen.v"}
    ck.cov["trusted_base"] = TRUSTED


def short(c):
    t = c["t"]
    if t == "base":
        return c["name"]
    if t == "slice":
        return {"slice": short(c["c"]), "coll": c["coll"]}
    if t == "sweep":
        return {"sweep": short(c["c"]), "vars": c["vars"], "bound": c["bound"], "coll": c["coll"][0] if c["coll"] else None}
    if t == "key":
        return {"context_key": c["key"], "of": short(c["c"])}
    return {k: v for k, v in c.items()}


def load_corpus():
    import glob
    import os
    out = []
    for p in sorted(glob.glob(os.path.join(core.ROOT, "corpus", "C16", "*.json"))):
        try:
            obj = json.load(open(p))
        except (OSError, ValueError):
            continue
        cfg = obj.get("cfg")
        if cfg:
            out.append(refresh(cfg))
    return out


def refresh(cfg):
    """Re-read base facts of a stored configuration from the current classes."""
    if cfg["t"] == "base":
        return base_facts(cfg["name"])
    if "c" in cfg:
        cfg = dict(cfg)
        cfg["c"] = refresh(cfg["c"])
    return cfg


def replay(obj):
    setup()
    cfg = refresh(obj["replay"]["cfg"])
    o = observe(cfg)
    print("configuration:", json.dumps(short(cfg)))
    if not o["ok"]:
        print("factories raise:", o["error"])
        return 0
    print("node class     :", o["n"]["md"]["class_name"], "created", o["n"]["created"], "in", o["n"]["in"], "out", o["n"]["out"], "diags", o["dn"])
    print("processor class:", o["p"]["md"]["class_name"], "created", o["p"]["created"], "in", o["p"]["in"], "out", o["p"]["out"], "diags", o["dp"])
    for sig, what in oracle(cfg, o):
        print("  ", sig, "-", what)
    return 0


TRUSTED = [
    "Coq 8.16.1 kernel (coqc), vm_compute; no native_compute",
    "model: coq/Model/Contracts.v (hand-written gen / rule semantics) instantiated with Gen/ContractsGen.v",
    "translator harness/translate/contracts.py: RULES table and one predicate per check function (structural recognisers for the "
    "key-presence / field / processor-match shapes, exact normalised source for SVA100/103/107/240 and _list_unique_str; anything "
    "else is a translation error), dispatch chain, node metadata literals, created-key facts",
    "facts about hand-written base components (kind, type names, parameters, declared keys) are read from the classes by reflection "
    "and are inputs of the model",
    "correspondence harness: configuration enumeration, factory drivers, canonicalisation of metadata (docstrings and the content of "
    "the preprocessor entry are blanked; parameters reduced to their names), stub classes for the rule-model validation",
    "not proved (correspondence only): reflection-level rules SVA001-012, SVA102, SVA241, SVA250; SVA100 and SVA107 are modelled as "
    "'metadata is a dict by construction' / 'registered under the component_type seen at class creation' and validated per case",
]
FINISH = {"level": "proof", "assumptions": [
    "hand-written base components satisfy their own contract (their declared key lists have no duplicates)",
    "slice() is given a DataCollectionType (the Python API does not check it; the string shorthand does)",
    "keys and names are printable ASCII"]}
