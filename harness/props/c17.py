"""C17 — The CLI never executes a configuration its pre-flight checks reject.

proof side : Properties/C17.v over Model/Cli.v (interpreter of the decision chain of `_run`), Model/Inspect.v,
             Model/RunSpace.v, Model/Pipeline.v
tie        : Gen/CliGen.v (EXIT_* table, documented exit codes, `_run` as an ordered decision chain, loop facts,
             lazy trace driver) + `python -m semantiva.cli run ...` as a subprocess on generated configurations:
             exit code, printed pre-flight message, sink files, trace directory, node starts per run (from the
             trace) are compared inside Coq with `cli knobs request`
search     : direct oracles on the subprocess observables, independent of the model:
             (O1) a sink file / trace file / node start although the request is rejected (by construction of the
                  case, by an early-return flag, or by the public pre-flight API run in the harness process);
             (O2) exit code differs from the documented one for the class;
             (O3) exit 0 although a run failed;
             (O4) a run started after a failed run.
"""
from __future__ import annotations

import copy
import glob
import json
import os
import random
import shutil
import subprocess
import tempfile
from concurrent.futures import ThreadPoolExecutor

from harness import core
from harness.core import cq_Z, cq_bool, cq_list, cq_nat, cq_opt, cq_pair, cq_str
from harness.lib import pipegen as pg
from harness.translate import run_all

TIMEOUT = 90
WORKERS = 12

HEADER = """From Coq Require Import List String ZArith NArith.
From SV Require Import Model.Expr Model.Pipeline Model.Sweep Model.PipelineLib Model.Inspect Gen.PipelineGen Gen.InspectGen.
From SV Require Model.RunSpace.
From SV Require Import Model.Cli Gen.CliGen.
Import ListNotations. Open Scope string_scope.
Definition RI := RunSpace.VInt. Definition RS := RunSpace.VStr.
Definition cases : list (request * observed) := [
%s
].
Eval vm_compute in Cli.mismatches knobs cases.
"""

MESSAGES = [  # printed text -> pre-flight stages that print it
    ("File not found:", ["StLoadMissing", "StRsFileMissing"]),
    ("YAML error:", ["StLoadYaml", "StRsFileYaml"]),
    ("Invalid config: top-level YAML must be a mapping", ["StLoadNotMapping"]),
    ("Unknown override key", ["StOverride"]),
    ("Expected key=value format", ["StOverride", "StContextArg", "StCliMerge"]),
    ("Failed to build trace driver", ["StTraceDriver"]),
    ("Failed to build execution components", ["StExecComponents"]),
    ("Run space configuration error", ["StRunSpace"]),
    ("exceeds the safety limit", ["StMaxRuns"]),
    ("missing required context keys", ["StMissingKeys"]),
    ("dry_run enabled: no execution performed", ["StRunSpaceDry"]),
    ("Dry run OK (no execution performed)", ["StDryRun"]),
    ("run-space attempt must be", ["StAttempt"]),
    ("run-space source file not found", ["StRsSourceMissing"]),
    ("Invalid config:", ["StParse", "StValidate", "StCliMerge"]),
    ("Config valid.", ["StValidateFlag"]),
]

# classes of rejection by construction -> (documented exit code, detected when the run space is planned?)
REJECT = {
    "file-missing": (2, False), "unparsable-yaml": (3, False), "top-level-not-mapping": (3, False),
    "no-pipeline-section": (3, False), "unknown-processor": (3, False), "unknown-parameter": (3, False),
    "probe-without-context-key": (3, False), "type-incompatible-neighbours": (3, False),
    "deleted-then-required-key": (3, False), "set-unknown-key": (3, False), "set-malformed": (3, False),
    "context-malformed": (3, False), "run-space-duplicate-keys": (3, False), "unknown-trace-driver": (3, True),
    "run-space-mismatched-lengths": (3, True), "run-space-block-sizes-differ": (3, True),
    "run-space-over-max-runs": (3, True), "missing-context-key": (3, True), "run-space-attempt-zero": (3, True),
    "run-space-duplicate-key-via-source": (3, True), "run-space-rename-collision": (3, True),
}


# ----- descriptors -> YAML / argv ---------------------------------------------------------------------------
def node_yaml(n):
    d = pg.node_impl(n)
    if n.get("file"):
        d["processor"] = "FloatTxtFileSaver"
    if n.get("proc_name"):
        d["processor"] = n["proc_name"]
    return d


def out_type(n):
    k = n["k"]
    if k in ("rename", "delete", "template", "copyprobe"):
        return "TAny"
    if k == "sweep":
        return "TC" if n["elem"] not in pg.PROBES else "TF"      # a sweep produces the collection of its element's outputs
    if k == "slice":
        return "TC"
    return "TF"


def apply_sets(case):
    """descriptors after the well-formed --set items (those the harness itself generated as addressing existing keys)"""
    nodes = copy.deepcopy(case["nodes"])
    rs = copy.deepcopy(case["rs"])
    for path, value in case["args"].get("set", []):
        parts = path.split(".")
        if parts[0] == "pipeline" and parts[1] == "nodes" and parts[3] == "parameters":
            nodes[int(parts[2])]["cfg"][parts[4]] = value
        elif path == "run_space.max_runs":
            rs["max_runs"] = value
        else:
            raise ValueError(path)
    return nodes, rs


def config_dict(case, nodes=None, rs=None):
    nodes = case["nodes"] if nodes is None else nodes
    rs = case["rs"] if rs is None else rs
    cfg = {"extensions": ["semantiva-examples"], "pipeline": {"nodes": [node_yaml(n) for n in nodes]}}
    if case["trace"] == "yaml":
        cfg["trace"] = {"driver": "jsonl", "output_path": case.get("trace_path", "tr")}
    if rs is not None:
        block = {"combine": rs["combine"], "blocks": [dict({"mode": b["mode"], "context": {k: pg.v_impl(v) for k, v in b["context"]}},
                                                           **({"source": dict({"format": "csv", "path": b["source"]["path"]},
                                                                               **dict(({"mode": b["source"]["mode"]} if b["source"].get("mode") else {}),
                                                                                      **({"rename": dict(map(tuple, b["source"]["rename"]))} if b["source"].get("rename") else {})))}
                                                              if b.get("source") else {}))
                                                      for b in rs["blocks"]]}
        if rs.get("max_runs") is not None:
            block["max_runs"] = rs["max_runs"]
        if rs.get("dry_run"):
            block["dry_run"] = rs.get("dry_run_spelling", True)       # true / 1 / 1.0: every truthy spelling asks for a dry run
        cfg["run_space"] = block
    return cfg


def yaml_text(case):
    import yaml
    f = case["file"]
    if f == "unparsable":
        return "pipeline:\n  nodes: [\n   - {processor: FloatDataSource\n"
    if f == "not-mapping":
        return "- just\n- a list\n"
    cfg = config_dict(case)
    if case["args"].get("rs_file") and "run_space" in cfg:
        cfg.pop("run_space")          # written to rs.yaml instead (--run-space-file)
    if f == "no-pipeline":
        cfg["pipelin"] = cfg.pop("pipeline")
    return yaml.safe_dump(cfg, sort_keys=False, default_flow_style=False)


def rs_file_text(case):
    import yaml
    block = config_dict(case).get("run_space")
    if block is None:
        return None
    return yaml.safe_dump({"run_space": block} if case["args"]["rs_file"] == "wrapped" else block, sort_keys=False, default_flow_style=False)


def fmt_val(v):
    return "%d.0" % v if isinstance(v, int) else str(v)


def argv_of(case):
    a = case["args"]
    out = ["run", "p.yaml" if case["file"] != "missing" else "absent.yaml"] + ([a["verbosity"]] if a.get("verbosity", "-q") else [])
    if a.get("validate"):
        out.append("--validate")
    if a.get("dry_run"):
        out.append("--dry-run")
    if a.get("rs_dry"):
        out.append("--run-space-dry-run")
    if a.get("max_runs") is not None:
        out += ["--run-space-max-runs", str(a["max_runs"])]
    if a.get("rs_file") and case.get("rs") is not None:
        out += ["--run-space-file", "rs.yaml"]
    for k, v in a.get("context", []):
        out += ["--context", "%s=%s" % (k, fmt_val(v))]
    if a.get("bad_context"):
        out += ["--context", "novalue"]
    for path, v in a.get("set", []):
        out += ["--set", "%s=%s" % (path, fmt_val(v))]
    if a.get("set_bad") == "unknown":
        out += ["--set", "pipeline.nodes.0.parameters.no_such_key=1.0"]
    elif a.get("set_bad") == "malformed":
        out += ["--set", "pipeline.nodes.0"]
    if case["trace"] == "cli":
        out += ["--trace.driver", "jsonl", "--trace.output", case.get("trace_path", "tr")]
    if a.get("bad_driver"):
        out += ["--trace.driver", "sqlite"]
    if a.get("attempt") is not None:
        out += ["--run-space-attempt", str(a["attempt"])]
    return out


# ----- running one case ----------------------------------------------------------------------------------------
def run_case(case):
    d = tempfile.mkdtemp(prefix="c17_", dir="/tmp")
    try:
        if case["file"] != "missing":
            with open(os.path.join(d, "p.yaml"), "w") as f:
                f.write(yaml_text(case))
            if case["args"].get("rs_file") and case.get("rs") is not None:
                with open(os.path.join(d, "rs.yaml"), "w") as f:
                    f.write(rs_file_text(case))
        for b in ((case.get("rs") or {}).get("blocks") or []):
            if b.get("source"):          # a CSV file the block loads its columns from
                cols = b["source"]["cols"]
                with open(os.path.join(d, b["source"]["path"]), "w") as f:
                    f.write(",".join(k for k, _ in cols) + "\n")
                    for i in range(len(cols[0][1])):
                        f.write(",".join(str(vs[i]) for _, vs in cols) + "\n")
        env = dict(os.environ)
        env.update({"PYTHONPATH": core.REPO, "PYTHONHASHSEED": "0", "PYTHONDONTWRITEBYTECODE": "1"})
        cmd = [core.PY, "-m", "semantiva.cli"] + argv_of(case)
        try:
            p = subprocess.run(cmd, cwd=d, env=env, stdout=subprocess.PIPE, stderr=subprocess.PIPE, text=True, timeout=TIMEOUT)
            rc, out, err = p.returncode, p.stdout, p.stderr
        except subprocess.TimeoutExpired:
            return {"timeout": True}
        sinks = sorted(os.path.relpath(p_, d) for p_ in glob.glob(os.path.join(d, "**", "*.txt"), recursive=True))
        tfiles = sorted(os.path.relpath(p_, d) for p_ in glob.glob(os.path.join(d, "tr", "**", "*"), recursive=True) if os.path.isfile(p_))
        stray = sorted(f for f in os.listdir(d) if f not in ("p.yaml", "rs.yaml", "tr") and not f.endswith(".txt"))
        runs = []
        for tf in tfiles:
            if not tf.endswith(".ser.jsonl"):
                continue
            cur = None      # (a single-file destination holds several runs: one entry per pipeline_start)
            for line in open(os.path.join(d, tf)):
                try:
                    r = json.loads(line)
                except ValueError:
                    continue
                if r.get("record_type") == "pipeline_start":
                    cur = {"index": r.get("run_space_index"), "seq": r.get("seq"), "nodes": 0, "errors": 0}
                    runs.append(cur)
                elif r.get("record_type") == "ser":
                    if cur is None:
                        cur = {"index": None, "seq": None, "nodes": 0, "errors": 0}
                        runs.append(cur)
                    cur["nodes"] += 1
                    if r.get("status") == "error":
                        cur["errors"] += 1
        runs.sort(key=lambda r: (r["index"] if r["index"] is not None else -1, r["seq"] or 0))
        text = out + "\n" + err
        stages = []
        for msg, sts in MESSAGES:
            if msg in text:
                stages = sts
                break
        return {"timeout": False, "rc": rc, "stdout": out[-600:], "stderr": err[-1200:], "sinks": sinks, "trace_files": tfiles,
                "runs": runs, "stages": stages, "failed_msg": "Execution failed" in text or "Traceback" in err, "stray": stray}
    finally:
        shutil.rmtree(d, ignore_errors=True)


# ----- the pre-flight through the public API, in the harness process (reference for O1/O2) ------------------------
def api_preflight(case):
    """-> 'ok' | 'parse' | 'validate' | 'run-space' | 'max-runs' | 'missing-keys' | None (not applicable)"""
    if case["file"] != "ok" or case["args"].get("set_bad") or case["args"].get("bad_context") or case["args"].get("bad_driver"):
        return None
    from semantiva.configurations import parse_pipeline_config
    from semantiva.exceptions.pipeline_exceptions import PipelineConfigurationError, RunSpaceMaxRunsExceededError
    from semantiva.execution.run_space import expand_run_space
    from semantiva.inspection import build_pipeline_inspection, validate_pipeline
    nodes, rs = apply_sets(case)
    cfg = config_dict(case, nodes, rs)
    a = case["args"]
    if a.get("max_runs") is not None:
        cfg.setdefault("run_space", {})["max_runs"] = a["max_runs"]
    try:
        pc = parse_pipeline_config(cfg, source_path="/tmp/p.yaml")
    except Exception:
        return "parse"
    try:
        insp = build_pipeline_inspection(pc.nodes)
        validate_pipeline(insp)
    except Exception:
        return "validate"
    try:
        runs, _ = expand_run_space(pc.run_space, cwd="/tmp")
    except PipelineConfigurationError:
        return "run-space"
    except RunSpaceMaxRunsExceededError:
        return "max-runs"
    have = {k for k, _ in a.get("context", [])} | (set(runs[0]) if runs else set())
    if set(insp.required_context_keys) - have:
        return "missing-keys"
    return "ok"


# ----- generator ------------------------------------------------------------------------------------------------------
def base_pipeline(rng, multi=False, fail_key=False):
    """A pipeline that is valid by the documented rules; `need`: keys it takes from outside, with good values.
    multi: every run writes `run_<tag>.txt` first (tag from the run space) so that started runs are visible."""
    nodes, need, avail = [], {}, set()
    r = rng.random()
    if r < 0.55:
        nodes.append({"k": "src", "cfg": {"value": rng.randint(1, 6)}})
    elif r < 0.8:
        nodes.append({"k": "src"})
        need["value"] = rng.randint(1, 6)
    else:
        nodes.append({"k": "srcdef"})
    if multi:
        nodes.append({"k": "template", "segs": [("lit", "run_"), ("hole", "tag"), ("lit", ".txt")], "out": "path"})
        nodes.append({"k": "sink", "file": True})
        avail.add("path")
    nsink = 0
    for _ in range(rng.randint(1, 4)):
        c = rng.choice(["mul", "mul", "muldef", "add", "square", "probe", "probe", "fsink", "sink0", "template", "rename", "divide"])
        if c in ("mul", "add", "divide"):
            pn = pg.ELEM[c][2][0]
            n = {"k": c}
            good = rng.choice([1, -1]) if pn == "divisor" else rng.randint(1, 4)
            if pn in avail and rng.random() < 0.6:
                pass  # produced by an earlier node
            elif pn in avail or rng.random() < 0.5:
                n["cfg"] = {pn: good}
            else:
                need.setdefault(pn, good)
        elif c in ("muldef", "square", "sink0"):
            n = {"k": c}
        elif c == "probe":
            key = rng.choice(["k", "factor", "addend", "j"])
            n = {"k": "probe", "ckey": key}
            avail.add(key)
        elif c == "fsink":
            n = {"k": "sink", "file": True, "cfg": {"path": "s%d.txt" % nsink}}
            nsink += 1
        elif c == "template":
            src = sorted(k for k in avail if k not in ("path",))
            if not src:
                continue
            n = {"k": "template", "segs": [("lit", "t_"), ("hole", rng.choice(src)), ("lit", "_")], "out": "label"}
            avail.add("label")
        else:
            src = sorted(k for k in avail if k in ("k", "j"))
            if not src:
                continue
            a = rng.choice(src)
            b = "k" if a == "j" else "j"
            n = {"k": "rename", "a": a, "b": b}
            avail.discard(a)
            avail.add(b)
        nodes.append(n)
    if fail_key:
        nodes.append({"k": "divide"})     # divisor from the run / --context; 0 makes the run fail
    nodes.append({"k": "sink", "file": True, "cfg": {"path": "end.txt"}})
    return nodes, need


def default_args():
    return {"validate": False, "dry_run": False, "rs_dry": False, "max_runs": None, "context": [], "bad_context": False,
            "set": [], "set_bad": None, "bad_driver": False, "attempt": None, "rs_file": None, "verbosity": "-q"}


def mk_case(rng, cls, flags=None, trace=None):
    """cls: 'valid', 'multi', 'multi-fail', 'runtime-fail', or a key of REJECT"""
    case = {"cls": cls, "file": "ok", "rs": None, "trace": trace, "args": default_args(), "reject": None, "fail_run": None, "n_runs": 1}
    a = case["args"]
    if trace is not None and rng.random() < 0.35:
        case["trace_path"] = "tr/all.ser.jsonl"      # a single-file destination (suffix) instead of a directory
    multi = cls in ("multi", "multi-fail") or cls.startswith("run-space-") or (cls == "missing-context-key" and rng.random() < 0.5)
    nodes, need = base_pipeline(rng, multi=multi, fail_key=cls in ("multi-fail",))
    if cls == "runtime-fail":
        nodes.insert(len(nodes) - 1, {"k": "divide", "cfg": {"divisor": 0}} if rng.random() < 0.5 else {"k": "divide"})
        if "cfg" not in nodes[-2]:
            need["divisor"] = 0
        elif rng.random() < 0.5:   # valid file, broken by --set
            nodes[-2]["cfg"]["divisor"] = 1
            a["set"].append(["pipeline.nodes.%d.parameters.divisor" % (len(nodes) - 2), 0])
    elif cls == "valid" and rng.random() < 0.3:
        for i, n in enumerate(nodes):
            if n.get("cfg") and n["k"] in ("mul", "add", "src"):
                pn = list(n["cfg"])[0]
                a["set"].append(["pipeline.nodes.%d.parameters.%s" % (i, pn), rng.randint(1, 5)])
                break
    case["nodes"] = nodes
    if multi:
        n_runs = rng.randint(2, 4)
        tags = ["a", "b", "c", "d"][:n_runs]
        cols = [["tag", tags]]
        if cls == "multi-fail":
            k = rng.randrange(n_runs)
            cols.append(["divisor", [0 if i == k else rng.choice([1, -1]) for i in range(n_runs)]])
            need.pop("divisor", None)
            case["fail_run"] = k
        via_rs = [k for k in sorted(need) if rng.random() < 0.5]
        for k in via_rs:
            cols.append([k, [need[k]] * n_runs if rng.random() < 0.5 else [need[k] + (i if k != "divisor" else 0) for i in range(n_runs)]])
            need.pop(k)
        blocks = [{"mode": "by_position", "context": cols}]
        if len(cols) > 1 and rng.random() < 0.4:
            blocks = [{"mode": "by_position", "context": cols[:1]}, {"mode": "by_position", "context": cols[1:]}]
        case["rs"] = {"combine": "by_position", "max_runs": rng.choice([None, None, 10, n_runs]), "dry_run": False, "blocks": blocks}
        case["n_runs"] = n_runs
        if rng.random() < 0.25 and cls == "multi":
            # a second, combinatorial block multiplies the runs
            case["rs"]["combine"] = "combinatorial"
            case["rs"]["blocks"] = [{"mode": "by_position", "context": cols}, {"mode": "combinatorial", "context": [["extra", [1, 2]]]}]
            case["n_runs"] = n_runs * 2
            if case["rs"]["max_runs"] is not None:
                case["rs"]["max_runs"] = 10
    a["context"] = [[k, v] for k, v in sorted(need.items())]
    # ---- one invalidity per class
    if cls in REJECT:
        case["reject"] = cls
    if cls == "file-missing":
        case["file"] = "missing"
    elif cls == "unparsable-yaml":
        case["file"] = "unparsable"
    elif cls == "top-level-not-mapping":
        case["file"] = "not-mapping"
    elif cls == "no-pipeline-section":
        case["file"] = "no-pipeline"
    elif cls == "unknown-processor":
        i = rng.randrange(len(nodes))
        nodes[i]["proc_name"] = "FloatNoSuchOperation"
    elif cls == "unknown-parameter":
        cand = [n for n in nodes if n["k"] in pg.ELEM]
        rng.choice(cand).setdefault("cfg", {})["bogus"] = 1
    elif cls == "probe-without-context-key":
        nodes.insert(rng.randint(1, len(nodes) - 1), {"k": "probe", "ckey": None})
    elif cls == "type-incompatible-neighbours":
        i = rng.randint(1, len(nodes) - 1)
        nodes.insert(i, {"k": "csum"})
        if rng.random() < 0.5:
            # ... with a base-typed pass-through probe (declared BaseDataType) between the two incompatible nodes
            nodes.insert(i, {"k": "copyprobe", "ckey": "seen"})
    elif cls == "deleted-then-required-key":
        i = rng.randint(1, len(nodes) - 1)
        nodes.insert(i, {"k": "delete", "a": "addend"})
        nodes.insert(i + 1, {"k": "add"})
        a["context"].append(["addend", 1])
        a["context"] = sorted({k: v for k, v in a["context"]}.items())
        a["context"] = [list(x) for x in a["context"]]
    elif cls == "set-unknown-key":
        a["set_bad"] = "unknown"
    elif cls == "set-malformed":
        a["set_bad"] = "malformed"
    elif cls == "context-malformed":
        a["bad_context"] = True
    elif cls == "unknown-trace-driver":
        a["bad_driver"] = True
        case["trace"] = None
    elif cls == "run-space-duplicate-keys":
        case["rs"]["blocks"] = case["rs"]["blocks"][:1] + [{"mode": "by_position", "context": [["tag", ["x"] * case["n_runs"]]]}]
    elif cls == "run-space-duplicate-key-via-source":
        # a later block loads a column from a file whose name an earlier block already defines
        case["rs"]["blocks"] = case["rs"]["blocks"][:1] + [{"mode": "by_position", "context": [],
                                                            "source": {"path": "cols.csv", "cols": [["tag", ["x"] * case["n_runs"]]]}}]
    elif cls == "run-space-rename-collision":
        # a later block loads a file with the columns v and extra and renames v onto extra (either column order in the file):
        # two columns under one name, an invalid run space
        n_ = case["n_runs"]
        cols = [["v", list(range(1, n_ + 1))], ["extra", list(range(11, 11 + n_))]]
        if rng.random() < 0.5:
            cols.reverse()
        case["rs"]["blocks"] = case["rs"]["blocks"][:1] + [{"mode": "by_position", "context": [],
                                                            "source": {"path": "ren.csv", "cols": cols, "rename": [["v", "extra"]]}}]
    elif cls == "run-space-mismatched-lengths":
        b = case["rs"]["blocks"][0]
        b["context"] = b["context"] + [["extra", [1] * (case["n_runs"] + 1)]]
    elif cls == "run-space-block-sizes-differ":
        case["rs"]["blocks"] = case["rs"]["blocks"] + [{"mode": "by_position", "context": [["extra", [1] * (case["n_runs"] + 1)]]}]
    elif cls == "run-space-over-max-runs" and rng.random() < 0.35:
        # the runs over the cap come from a file loaded by a by_position block whose source multiplies its columns out
        # (source.mode: combinatorial): k*k runs from two columns of k values, times the runs of the first block
        k = rng.choice([2, 2, 3])
        first = {"mode": "by_position", "context": [c for b in case["rs"]["blocks"] for c in b["context"]]}
        src = {"mode": "by_position", "context": [], "source": {"path": "grid.csv", "mode": "combinatorial",
                                                                "cols": [["gx", list(range(1, k + 1))], ["gy", list(range(11, 11 + k))]]}}
        case["rs"]["combine"] = "combinatorial"
        case["rs"]["blocks"] = [first, src]
        cap = case["n_runs"] * k * rng.choice([1, 1, k - 1]) if k > 2 else case["n_runs"] * k      # >= rows of the file, < the product
        case["n_runs"] = case["n_runs"] * k * k
        if rng.random() < 0.5:
            case["rs"]["max_runs"] = cap
        else:
            case["rs"]["max_runs"] = None
            a["max_runs"] = cap
    elif cls == "run-space-over-max-runs":
        cap = rng.choice([case["n_runs"] - 1, case["n_runs"] - 1, 0])      # 0 is a legal cap: nothing may run
        if rng.random() < 0.5:
            case["rs"]["max_runs"] = cap
        else:
            a["max_runs"] = cap
    elif cls == "run-space-attempt-zero":
        a["attempt"] = 0
    elif cls == "missing-context-key" and (flags or {}).get("self_rewrite") is not None:
        # the missing key is read AND re-written by the same node (a path given a suffix in place; a key renamed onto itself),
        # after a file sink that would already have written its output
        how = flags.pop("self_rewrite")
        early = {"k": "sink", "file": True, "cfg": {"path": "early.txt"}}
        node = ({"k": "template", "segs": [("hole", "lbl"), ("lit", ".bak")], "out": "lbl"} if how == "template" else {"k": "rename", "a": "lbl", "b": "lbl"})
        nodes[1:1] = [early, node]
        case["missing"] = "lbl"
    elif cls == "missing-context-key":
        pool = [k for k, _ in a["context"]]
        if not pool:   # make the pipeline need something neither a node, nor the run space, nor the command line provides
            provided = {k for b in ((case["rs"] or {}).get("blocks") or []) for k, _ in b["context"]}
            kind, key = next((kk for kk in (("divide", "divisor"), ("add", "addend"), ("mul", "factor")) if kk[1] not in provided), ("divide", "divisor"))
            if key in provided:      # everything is provided by the run space: drop one column instead
                for b in case["rs"]["blocks"]:
                    b["context"] = [c for c in b["context"] if c[0] != key or len(b["context"]) == 1]
            nodes.insert(len(nodes) - 1, {"k": kind})
            case["missing"] = key
        else:
            k = rng.choice(pool)
            a["context"] = [kv for kv in a["context"] if kv[0] != k]
            case["missing"] = k
    if case["rs"] is not None and cls not in ("run-space-duplicate-key-via-source", "run-space-rename-collision") and rng.random() < 0.3:
        a["rs_file"] = rng.choice(["wrapped", "bare"])      # the run_space block lives in a separate file (--run-space-file)
    if rng.random() < 0.3:
        a["verbosity"] = rng.choice(["-v", "--verbose", None])      # the exit code does not depend on how much is printed
    if case["rs"] is not None and case["rs"].get("dry_run"):
        case["rs"]["dry_run_spelling"] = rng.choice([True, 1, 1.0])
    if flags:
        a.update(flags)
    return case


def cap_zero_case(rng, how):
    """a valid configuration under a cap of zero runs: nothing may run (exit 3), however the cap is given"""
    if how == "implicit-single-run":
        c = mk_case(rng, "valid", trace=rng.choice(["yaml", "cli"]))
        c["args"]["max_runs"] = 0
    else:
        c = mk_case(rng, "multi", trace=rng.choice(["yaml", "cli"]))
        if how == "yaml":
            c["rs"]["max_runs"] = 0
        else:
            c["args"]["max_runs"] = 0
    c["cls"] = c["reject"] = "run-space-over-max-runs"
    return c


ALL_CLASSES = ["valid", "multi", "multi-fail", "runtime-fail"] + sorted(REJECT)
FLAGSETS = [{}, {"validate": True}, {"dry_run": True}, {"rs_dry": True}, {"validate": True, "dry_run": True},
            {"dry_run": True, "rs_dry": True}]


def corpus_cases():
    """fixed cases, always run first"""
    out = []
    # the use-before-create pipeline of F-C02-a followed by a file sink: a defect of the inspection (C02), inherited by the gate
    ubc = {"cls": "use-before-create", "file": "ok", "rs": None, "trace": "yaml", "args": default_args(), "reject": None,
           "fail_run": None, "n_runs": 1,
           "nodes": [{"k": "src", "cfg": {"value": 1}}, {"k": "sink", "file": True, "cfg": {"path": "first.txt"}}, {"k": "mul"},
                     {"k": "probe", "ckey": "factor"}, {"k": "sink", "file": True, "cfg": {"path": "end.txt"}}]}
    out.append(ubc)
    # a run space that plans zero runs: nothing to execute, exit 0, only the launch record
    zero = {"cls": "zero-runs", "file": "ok", "trace": "yaml", "args": default_args(), "reject": None, "fail_run": None, "n_runs": 0,
            "rs": {"combine": "by_position", "max_runs": None, "dry_run": False, "blocks": [{"mode": "by_position", "context": [["tag", []]]}]},
            "nodes": [{"k": "src", "cfg": {"value": 2}}, {"k": "sink", "file": True, "cfg": {"path": "end.txt"}}]}
    out.append(zero)
    # run_space.dry_run: true in the file
    dry = copy.deepcopy(zero)
    dry["cls"] = "dry-run-in-file"
    dry["rs"] = {"combine": "by_position", "max_runs": None, "dry_run": True, "blocks": [{"mode": "by_position", "context": [["tag", ["a", "b"]]]}]}
    dry["n_runs"] = 2
    out.append(dry)
    # the same processor first swept (parameter bound by the sweep), later plain (parameter required from the
    # context and NOT supplied): the gate must stop it although an earlier node of the same class needs nothing
    swp = {"cls": "missing-context-key", "file": "ok", "rs": None, "trace": "yaml", "args": default_args(), "reject": None,
           "fail_run": None, "n_runs": 1, "missing": "factor",
           "nodes": [{"k": "src", "cfg": {"value": 1}},
                     {"k": "sweep", "elem": "mul", "vars": [("f", ("seq", [1, 2, 3]))], "exprs": [("factor", ("var", "f"))],
                      "mode": "combinatorial", "broadcast": False},
                     {"k": "csum"}, {"k": "sink", "file": True, "cfg": {"path": "first.txt"}}, {"k": "mul"},
                     {"k": "sink", "file": True, "cfg": {"path": "end.txt"}}]}
    out.append(swp)
    # ... and with the sweep variable read from the context (supplied), the plain node's key still missing
    swc = copy.deepcopy(swp)
    swc["nodes"][1]["vars"] = [("f", ("ctx", "factors"))]
    swc["args"]["context"] = [["factors", [1, 2]]]
    out.append(swc)
    for p in sorted(glob.glob(os.path.join(core.ROOT, "corpus", "C17", "*.json"))):
        out.append(json.load(open(p)))
    return out


def gen_cases(rng, n_random, matrix=True):
    cases = corpus_cases()
    if matrix:
        for cls in ALL_CLASSES:
            cases.append(mk_case(rng, cls, trace=rng.choice(["yaml", "cli", None, "yaml"])))
        for tr in ("yaml", "cli", None):   # failing runs at different positions, with and without a trace
            cases.append(mk_case(rng, "multi-fail", trace=tr))
        # early-return flags on valid and on rejected configurations
        for fl in FLAGSETS[1:4]:
            cases.append(mk_case(rng, "valid", flags=fl, trace="yaml"))
            cases.append(mk_case(rng, "multi", flags=fl, trace="cli"))
        for cls, fl in [("unknown-parameter", {"validate": True}), ("missing-context-key", {"dry_run": True}),
                        ("run-space-over-max-runs", {"rs_dry": True}), ("run-space-mismatched-lengths", {"dry_run": True}),
                        ("type-incompatible-neighbours", {"dry_run": True}), ("missing-context-key", {"validate": True}),
                        ("run-space-mismatched-lengths", {"validate": True})]:
            cases.append(mk_case(rng, cls, flags=fl, trace="yaml"))
        for how in ("implicit-single-run", "yaml", "cli"):
            cases.append(cap_zero_case(rng, how))
        # verbose output and failing runs; a run-space dry run asked for with a truthy non-bool
        for cls, vb in (("runtime-fail", "-v"), ("multi-fail", "--verbose"), ("runtime-fail", None), ("valid", "-v")):
            cases.append(mk_case(rng, cls, flags={"verbosity": vb}, trace="cli"))
        for sp in (1, 1.0):
            c = mk_case(rng, "multi", trace="yaml")
            c["rs"]["dry_run"], c["rs"]["dry_run_spelling"] = True, sp
            cases.append(c)
        # the gate flags together with a run-space FILE
        for cls, fl in [("multi", {"rs_dry": True, "rs_file": "bare"}), ("run-space-over-max-runs", {"rs_file": "wrapped"}),
                        ("multi", {"rs_file": "wrapped"}), ("multi", {"dry_run": True, "rs_file": "bare"})]:
            c = mk_case(rng, cls, flags=fl, trace="cli")
            if cls == "run-space-over-max-runs" and c["args"].get("max_runs") is None:
                c["args"]["max_runs"], c["rs"]["max_runs"] = c["rs"]["max_runs"], None      # cap given on the command line
            cases.append(c)
        for how in ("template", "rename"):
            cases.append(mk_case(rng, "missing-context-key", flags={"self_rewrite": how}, trace="yaml"))
        for first in ("v", "extra"):      # the renamed column before / after the column it collides with
            c = mk_case(rng, "run-space-rename-collision", trace="cli")
            cols = c["rs"]["blocks"][-1]["source"]["cols"]
            if cols[0][0] != first:
                cols.reverse()
            cases.append(c)
        # over the cap through a combinatorial SOURCE inside a by_position block (the planner and the expander must count alike)
        r2 = random.Random(rng.random())
        for _ in range(40):
            c = mk_case(r2, "run-space-over-max-runs", trace="yaml")
            if any((b.get("source") or {}).get("mode") == "combinatorial" for b in c["rs"]["blocks"]):
                cases.append(c)
                break
    for _ in range(n_random):
        r = rng.random()
        cls = rng.choice(["valid", "multi", "multi-fail", "runtime-fail"]) if r < 0.4 else rng.choice(sorted(REJECT))
        fl = rng.choice(FLAGSETS) if rng.random() < 0.45 else {}
        cases.append(mk_case(rng, cls, flags=fl, trace=rng.choice(["yaml", "cli", None])))
    return cases


# ----- model request ---------------------------------------------------------------------------------------------------
def rs_val(v):
    return "(RS %s)" % cq_str(v) if isinstance(v, str) else "(RI %s)" % cq_Z(v)


def request_coq(case):
    nodes, rs = apply_sets(case)
    a = case["args"]
    fail = []
    f = case["file"]
    if f == "missing":
        fail.append("StLoadMissing")
    elif f == "unparsable":
        fail.append("StLoadYaml")
    elif f == "not-mapping":
        fail.append("StLoadNotMapping")
    elif f == "no-pipeline":
        fail.append("StParse")
    if a.get("set_bad"):
        fail.append("StOverride")
    if a.get("bad_context"):
        fail.append("StContextArg")
    if a.get("bad_driver"):
        fail.append("StTraceDriver")
    if any(n.get("proc_name") for n in nodes):
        fail.append("StValidate")
    active = rs is not None or a.get("max_runs") is not None or a.get("rs_dry")
    if a.get("attempt") is not None and a["attempt"] < 1 and active:
        fail.append("StAttempt")
    if f in ("unparsable", "not-mapping", "missing"):
        nodes, rs = [], None
    inodes = cq_list(["(%s, %s)" % (pg.node_coq(n), out_type(n)) for n in nodes])
    ctx = cq_list([cq_pair(cq_str(k), pg.v_coq(v)) for k, v in a.get("context", [])])
    if rs is None:
        spec = "default_spec"
    else:
        cols_lit = lambda cs: cq_list([cq_pair(cq_str(k), cq_list(vs, rs_val)) for k, vs in cs])  # noqa: E731
        bl = ["(RunSpace.mkBlock %s %s %s)" % ("RunSpace.ByPosition" if b["mode"] == "by_position" else "RunSpace.Combinatorial",
                                               cols_lit(b["context"]),
                                               "(Some (RunSpace.mkSource %s None %s %s))" % (cols_lit(b["source"]["cols"]),
                                                                                                cq_list([cq_pair(cq_str(x), cq_str(y)) for x, y in (b["source"].get("rename") or [])]),
                                                                                                "RunSpace.Combinatorial" if b["source"].get("mode") == "combinatorial" else "RunSpace.ByPosition")
                                               if b.get("source") else "None")
              for b in rs["blocks"]]
        spec = "(RunSpace.mkSpec %s %s %s)" % ("RunSpace.ByPosition" if rs["combine"] == "by_position" else "RunSpace.Combinatorial",
                                               cq_Z(rs["max_runs"] if rs.get("max_runs") is not None else 1000), cq_list(bl))
    return "(mkReq %s %s %s %s %s %s %s %s %s %s %s)" % (
        cq_list(fail), inodes, ctx, spec, cq_bool(rs is not None), cq_bool(bool(rs and rs.get("dry_run"))),
        cq_opt(a.get("max_runs"), cq_Z), cq_bool(a.get("rs_dry")), cq_bool(a.get("validate")), cq_bool(a.get("dry_run")),
        cq_bool(case["trace"] is not None))


def strip_trailing_zeros(l):
    l = list(l)
    while l and l[-1] == 0:
        l.pop()
    return l


def observed_coq(case, o):
    counts = None
    if case["trace"] is not None:
        counts = strip_trailing_zeros([r["nodes"] for r in o["runs"]])
    return "(mkObs %s %s %s %s %s)" % (cq_Z(o["rc"]), cq_list(o["sinks"], cq_str), cq_bool(bool(o["trace_files"])),
                                       cq_opt(counts, lambda c: cq_list(c, cq_nat)), cq_list(o["stages"]))


# ----- direct oracles ------------------------------------------------------------------------------------------------------
def oracles(ck, case, o, api, stats):
    a = case["args"]
    cls = case["cls"]
    replay = {"case": case, "argv": argv_of(case), "yaml": yaml_text(case) if case["file"] != "missing" else None,
              "observed": {k: o[k] for k in ("rc", "sinks", "trace_files", "runs", "stages", "stderr")}, "api_preflight": api}
    early = [n for n, f in (("validate-flag", a.get("validate")), ("dry-run-flag", a.get("dry_run")),
                            ("run-space-dry-run", a.get("rs_dry") or bool(case["rs"] and case["rs"].get("dry_run")))) if f]
    api_reject = api not in (None, "ok")
    why = case["reject"] or (early[0] if early else None) or ("preflight-api-rejects-" + api if api_reject else None)
    ran = sum(r["nodes"] for r in o["runs"])
    # O1: no effect when rejected
    if why is not None:
        for cond, eff in ((o["sinks"], "sink-file-written"), (o["trace_files"], "trace-file-written"), (ran, "node-ran")):
            if cond:
                ck.fail_input("C17:%s:%s" % (why, eff), "request is rejected (%s) but %s: %s" % (why, eff, cond if not isinstance(cond, int) else "%d nodes" % cond), replay)
        stats["rejected_checked"] = stats.get("rejected_checked", 0) + 1
    # O2: documented exit code
    rc = o["rc"]
    if case["reject"]:
        want, late = REJECT[case["reject"]]
        ok = {want} | ({0} if (late and a.get("validate")) else set())
        if case["reject"] == "run-space-attempt-zero" and early:
            ok = {0, 3} if a.get("validate") else {0}     # the early returns come before the launch arguments are looked at
            if not a.get("validate") and case["rs"] is None:
                ok = {0}
    elif api_reject:
        ok = {3} | ({0} if (a.get("validate") and api in ("run-space", "max-runs", "missing-keys")) else set())
    elif early:
        ok = {0}
    elif cls in ("multi-fail", "runtime-fail"):
        ok = {4}
    elif cls == "use-before-create":
        ok = {3, 4}   # 3 once the inspection reports the key as required (C02); 4 while it does not
    else:
        ok = {0}
    if rc not in ok:
        ck.fail_input("C17:%s:exit-code" % (why or cls), "exit code %d, documented %s" % (rc, sorted(ok)), replay)
    # O3: exit 0 although a run failed
    run_failed = o["failed_msg"] or any(r["errors"] for r in o["runs"])
    if rc == 0 and why is None and "end.txt" not in o["sinks"] and case["n_runs"] > 0:
        run_failed = True
    if rc == 0 and run_failed:
        ck.fail_input("C17:%s:exit-zero-after-failed-run" % cls, "exit 0 but a run failed", replay)
    if rc != 0 and why is None and cls in ("valid", "multi", "zero-runs"):
        pass  # covered by O2
    # O4: a run after a failed run started
    fidx = [i for i, r in enumerate(o["runs"]) if r["errors"]]
    if fidx and len(o["runs"]) > fidx[0] + 1:
        ck.fail_input("C17:%s:run-after-failed-run" % cls, "trace shows %d runs, run %d failed" % (len(o["runs"]), fidx[0]), replay)
    if case.get("fail_run") is not None and why is None:
        tags = ["a", "b", "c", "d"]
        later = [t for t in tags[case["fail_run"] + 1:] if ("run_%s.txt" % t) in o["sinks"]]
        if later:
            ck.fail_input("C17:%s:run-after-failed-run" % cls, "runs %s wrote their start file after run %d failed" % (later, case["fail_run"]), replay)
        started = [t for t in tags[:case["fail_run"] + 1] if ("run_%s.txt" % t) in o["sinks"]]
        stats["stop_checked"] = stats.get("stop_checked", 0) + (1 if len(started) == case["fail_run"] + 1 else 0)
    if o["stray"]:
        stats["stray_files"] = stats.get("stray_files", 0) + 1
    if cls == "use-before-create" and rc == 4:
        stats["inherited_F-C02-a_seen"] = {"exit": rc, "sinks": o["sinks"], "nodes_started": ran,
                                           "note": "pre-flight accepted (inspection reports no required key); not a C17 failure by the letter, reported under C02"}


def read_facts():
    """the generated facts, as text (for the evidence file; the comparison itself happens in Coq)"""
    import re
    out = {}
    try:
        txt = open(os.path.join(core.COQ, "Gen", "CliGen.v")).read()
        m = re.search(r"Definition chain : list step := \[(.*?)\]\.", txt, re.S)
        out["chain"] = [x.strip() for x in m.group(1).split(";")] if m else None
        for name in ("codes", "loop_handlers", "stop_after_failure", "trace_lazy", "translation_failed"):
            m = re.search(r"Definition %s[^:]*(?::[^=]*)?:= (.*?)\.\n" % name, txt)
            out[name] = m.group(1) if m else None
        itxt = open(os.path.join(core.COQ, "Gen", "InspectGen.v")).read()
        m = re.search(r"Definition impl : variant := (.*?)\.", itxt)
        out["inspection_variant"] = m.group(1) if m else None
    except OSError as ex:
        out["error"] = str(ex)
    return out


# ----- the check ---------------------------------------------------------------------------------------------------------------
def run(ck):
    rng = random.Random(ck.seed * 7919 + 17)
    thorough = ck.tier == "thorough"
    gen = run_all(["pipeline", "inspect", "run_space", "cli", "loader", "placement"])
    gen = {k: v for k, v in gen.items() if k in ("cli", "run_space", "pipeline")}   # the inspect facts are C02's obligation
    ck.build_models(["Model/PipelineLib.v", "Model/Cli.v", "Gen/PipelineGen.v", "Gen/InspectGen.v", "Gen/RunSpaceGen.v", "Gen/CliGen.v", "Model/Loader.v", "Gen/LoaderGen.v", "Model/Placement.v", "Gen/PlacementGen.v"])
    proved = ck.prove(gen_results=gen)
    if thorough and proved:
        ck.coqchk()
    pg.setup_impl()
    ck.notes["generated_facts"] = read_facts()
    ck.notes["generated_sources"] = {k: v.get("sources") for k, v in gen.items() if v.get("ok")}
    cases = gen_cases(rng, 560 if thorough else 14)
    with ThreadPoolExecutor(max_workers=WORKERS) as ex:
        obs = list(ex.map(run_case, cases))
    stats, texts_in, kept = {}, [], []
    for case, o in zip(cases, obs):
        if o.get("timeout"):
            ck.corr_problem("CLI subprocess timed out after %ds" % TIMEOUT, json.dumps(argv_of(case)), case=case)
            continue
        api = api_preflight(case)
        oracles(ck, case, o, api, stats)
        stats["class:" + case["cls"]] = stats.get("class:" + case["cls"], 0) + 1
        stats["exit:%d" % o["rc"]] = stats.get("exit:%d" % o["rc"], 0) + 1
        for fl in ("validate", "dry_run", "rs_dry"):
            if case["args"].get(fl):
                stats["flag:" + fl] = stats.get("flag:" + fl, 0) + 1
        stats["trace:%s" % case["trace"]] = stats.get("trace:%s" % case["trace"], 0) + 1
        try:
            texts_in.append("(%s, %s)" % (request_coq(case), observed_coq(case, o)))
            kept.append((case, o, api))
        except (ValueError, TypeError) as ex_:
            stats["not_representable"] = stats.get("not_representable", 0) + 1
    shard = 100
    texts = [HEADER % ";\n".join(texts_in[i:i + shard]) for i in range(0, len(texts_in), shard)]
    per, errs = core.mismatches("C17", texts, timeout=900)
    bad = []
    for k, ls in enumerate(per):
        if ls is not None:
            bad += [k * shard + b for b in ls[0]]
    for k, rc, out in errs:
        ck.corr_problem("correspondence shard %d did not evaluate (rc=%s)" % (k, rc), out)
    for b in bad[:6]:
        case, o, api = kept[b]
        ck.corr_problem("model `cli` and `semantiva run` disagree (exit / files / trace / node starts / message)",
                        json.dumps({"argv": argv_of(case), "cls": case["cls"], "observed": {k: o[k] for k in ("rc", "sinks", "trace_files", "runs", "stages")},
                                    "stderr": o["stderr"][-400:], "api": api}, default=str)[:2500], case=case)
    ck.cov["evaluations"] = len(kept)
    ck.cov["traces_validated_against_impl"] = len(kept) - len(bad)
    ck.cov["distinct_nontrivial"] = len({json.dumps([c["nodes"], c["rs"], c["args"], c["file"], c["trace"]], sort_keys=True, default=str)
                                         for c, o, _ in kept if c["cls"] != "valid" or any(c["args"][f] for f in ("validate", "dry_run", "rs_dry"))})
    ck.cov["rule"] = ("CLI invocations (subprocess, cwd = a fresh directory under /tmp): %d fixed corpus cases + one case per class "
                      "(valid / multi-run / failing run / runtime failure / 19 documented ways of being rejected) + flag combinations + seeded random; "
                      "non-trivial = rejected configuration or early-return flag or failing run (distinct inputs counted)" % len(corpus_cases()))
    ck.notes["distribution"] = dict(sorted((k, v) for k, v in stats.items() if not isinstance(v, dict)))
    if "inherited_F-C02-a_seen" in stats:
        ck.notes["inherited_F-C02-a"] = stats["inherited_F-C02-a_seen"]
    ck.cov["samples"] = [{"argv": argv_of(c), "class": c["cls"], "exit": o["rc"], "sinks": o["sinks"], "trace_files": len(o["trace_files"]),
                          "message_stage": o["stages"]} for c, o, _ in kept[:10]]
    ck.cov["trusted_base"] = TRUSTED
    ck.notes["null_cell_runs"] = null_cell_oracle(ck)
    ck.notes["placement_runs"] = placement_oracle(ck)
    ck.notes["malformed_source_runs"] = malformed_source_oracle(ck)
    ck.log("correspondence: %d/%d agree; %s" % (len(kept) - len(bad), len(kept), {k: v for k, v in sorted(stats.items()) if k.startswith("exit:")}))


def null_cell_oracle(ck):
    """Direct oracle (values outside the model's integers and strings): a by_position source whose LATER row lacks a value for a
    key a node requires (a JSON null, a short CSV row).  Either the launch is rejected before anything runs (exit 3, no file) or
    every planned run completes (exit 0): never a launch that passes the gate on the strength of its first run and then fails."""
    n = 0
    for fmt, text in (("ndjson", '{"tag": "a"}\n{"tag": null}\n{"tag": "c"}\n'), ("json", '[{"tag": "a"}, {"tag": null}]'),
                      ("csv", "tag,extra\r\na,1\r\n\r\nc,3\r\n"), ("csv", "tag,extra\r\na,1\r\n,2\r\n")):
        d = tempfile.mkdtemp(prefix="verif_c17null_")
        try:
            doc = {"extensions": ["semantiva-examples"],
                   "pipeline": {"nodes": [{"processor": "FloatValueDataSource", "parameters": {"value": 2.0}},
                                          {"processor": 'template:"out_{tag}.txt":path'}, {"processor": "FloatTxtFileSaver"}]},
                   "run_space": {"blocks": [{"mode": "by_position", "source": {"format": fmt, "path": "rows." + fmt}}]}}
            import yaml
            with open(os.path.join(d, "p.yaml"), "w") as f:
                yaml.safe_dump(doc, f, sort_keys=False)
            with open(os.path.join(d, "rows." + fmt), "w", newline="") as f:
                f.write(text)
            env = dict(os.environ)
            env.update({"PYTHONPATH": core.REPO, "PYTHONHASHSEED": "0", "PYTHONDONTWRITEBYTECODE": "1"})
            p = subprocess.run([core.PY, "-m", "semantiva.cli", "run", "p.yaml", "-q"], cwd=d, env=env, stdout=subprocess.PIPE, stderr=subprocess.PIPE,
                               text=True, timeout=TIMEOUT)
            outs = sorted(x for x in os.listdir(d) if x.startswith("out_"))
            n += 1
            if not (p.returncode == 0 or (p.returncode in (2, 3) and not outs)):
                ck.fail_input("C17:gate-passed-on-the-first-run-only:" + fmt,
                              "a %s source whose later row has no value for `tag` (%r): exit code %d with output files %s -- neither rejected before anything ran "
                              "nor completed" % (fmt, text, p.returncode, outs), {"kind": "null-cell", "format": fmt, "text": text, "stderr": p.stderr[-300:]})
        except Exception as ex:  # noqa
            ck.corr_problem("null-cell oracle could not run (%s)" % fmt, repr(ex)[:300])
        finally:
            shutil.rmtree(d, ignore_errors=True)
    return n


def malformed_source_oracle(ck):
    """Direct oracle: a run space whose source FILE is malformed (a CSV row with more cells than the header, truncated JSON, an
    NDJSON line that is no JSON, bytes that are not UTF-8, a directory in place of the file) and a pipeline argument that is a
    directory.  None of these is a usage error of the command line: the launch is rejected with the documented code of its class
    (2 unreadable file / 3 invalid configuration), nothing runs, and no Python traceback is the answer."""
    import yaml
    cases = [("csv-row-longer-than-header", "csv", b"value,tag\n1.0,a,EXTRA\n2.0,b\n"), ("json-truncated", "json", b'[{"value": 1.0}, {"value": '),
             ("ndjson-bad-line", "ndjson", b'{"value": 1.0}\nnot json\n'), ("csv-not-utf8", "csv", b"value\n\xff\xfe1.0\n"),
             ("json-not-utf8", "json", b'{"value": ["\xff"]}'), ("source-is-a-directory", "csv", None), ("pipeline-argument-is-a-directory", None, None)]
    n = 0
    for name, fmt, blob in cases:
        d = tempfile.mkdtemp(prefix="verif_c17src_")
        try:
            doc = {"extensions": ["semantiva-examples"],
                   "pipeline": {"nodes": [{"processor": "FloatValueDataSourceWithDefault"}, {"processor": "FloatTxtFileSaver", "parameters": {"path": "out_fixed.txt"}}]}}
            argv = ["run", "p.yaml", "-q"]
            if fmt is not None:
                doc["run_space"] = {"blocks": [{"mode": "by_position", "source": {"format": fmt, "path": "rows." + fmt}}]}
                if blob is None:
                    os.mkdir(os.path.join(d, "rows." + fmt))
                else:
                    with open(os.path.join(d, "rows." + fmt), "wb") as f:
                        f.write(blob)
            else:
                os.mkdir(os.path.join(d, "adir"))
                argv = ["run", "adir", "-q"]
            with open(os.path.join(d, "p.yaml"), "w") as f:
                yaml.safe_dump(doc, f, sort_keys=False)
            env = dict(os.environ)
            env.update({"PYTHONPATH": core.REPO, "PYTHONHASHSEED": "0", "PYTHONDONTWRITEBYTECODE": "1"})
            p = subprocess.run([core.PY, "-m", "semantiva.cli"] + argv, cwd=d, env=env, stdout=subprocess.PIPE, stderr=subprocess.PIPE,
                               text=True, timeout=TIMEOUT)
            outs = sorted(x for x in os.listdir(d) if x.startswith("out_"))
            n += 1
            want = (2,) if fmt is None else (2, 3)
            if p.returncode not in want or outs or "Traceback (most recent call last)" in p.stderr:
                ck.fail_input("C17:malformed-input-answered-with-a-traceback:%s" % name,
                              "%s: `semantiva %s` exits %d (%s), output files %s; expected exit code %s, nothing written, an error message"
                              % (name, " ".join(argv), p.returncode, "Python traceback on stderr" if "Traceback" in p.stderr else "no traceback", outs,
                                 " or ".join(map(str, want))),
                              {"kind": "malformed-source", "case": name, "format": fmt, "bytes": repr(blob), "stderr": p.stderr[-400:]})
        except Exception as ex:  # noqa
            ck.corr_problem("malformed-source oracle could not run (%s)" % name, repr(ex)[:300])
        finally:
            shutil.rmtree(d, ignore_errors=True)
    return n


def placement_oracle(ck):
    """Direct oracle: the run-space flags of the command line act on the run space that is in force, wherever it is written --
    at the top level, under `pipeline:`, in a --run-space-file, or at the top level / in a file with a second (ignored) block under
    `pipeline:`.  Three planned runs: a cap of 2 rejects the launch (exit 3, nothing written), a run-space dry run executes
    nothing (exit 0, nothing written), a cap of 3 lets all three runs complete."""
    import yaml
    real = {"blocks": [{"mode": "by_position", "context": {"value": [1.0, 2.0, 3.0]}}]}
    decoy = {"blocks": [{"mode": "by_position", "context": {"value": [9.0]}}]}
    nodes = [{"processor": "FloatValueDataSourceWithDefault"}, {"processor": 'template:"out_{value}.txt":path'}, {"processor": "FloatTxtFileSaver"}]
    fixed = [{"processor": "FloatValueDataSourceWithDefault"}, {"processor": "FloatTxtFileSaver", "parameters": {"path": "out_fixed.txt"}}]
    n = 0
    observed = []
    for place, nodes in [(pl, nd) for pl in ("top", "nested", "top+nested-decoy", "file", "file+nested-decoy", "none") for nd in (nodes, fixed)]:
        for flag, args, want_rc, want_out in (("cap-2", ["--run-space-max-runs", "2"], 3, 0), ("dry-run", ["--run-space-dry-run"], 0, 0),
                                             ("cap-3", ["--run-space-max-runs", "3"], 0, 3 if nodes is not fixed else 1)):
            d = tempfile.mkdtemp(prefix="verif_c17place_")
            try:
                doc = {"extensions": ["semantiva-examples"], "pipeline": {"nodes": nodes}}
                argv = ["run", "p.yaml", "-q"] + args
                if place.startswith("top"):
                    doc["run_space"] = real
                if place == "nested":
                    doc["pipeline"]["run_space"] = real
                if place.endswith("decoy"):
                    doc["pipeline"]["run_space"] = decoy
                if place.startswith("file"):
                    with open(os.path.join(d, "rs.yaml"), "w") as f:
                        yaml.safe_dump({"run_space": real}, f, sort_keys=False)
                    argv += ["--run-space-file", "rs.yaml"]
                with open(os.path.join(d, "p.yaml"), "w") as f:
                    yaml.safe_dump(doc, f, sort_keys=False)
                env = dict(os.environ)
                env.update({"PYTHONPATH": core.REPO, "PYTHONHASHSEED": "0", "PYTHONDONTWRITEBYTECODE": "1"})
                p = subprocess.run([core.PY, "-m", "semantiva.cli"] + argv, cwd=d, env=env, stdout=subprocess.PIPE, stderr=subprocess.PIPE,
                                   text=True, timeout=TIMEOUT)
                outs = sorted(x for x in os.listdir(d) if x.startswith("out_"))
                n += 1
                if nodes is fixed:
                    observed.append((place, flag, p.returncode, len(outs)))
                if place == "none":      # no run space anywhere: judged by the model comparison only
                    continue
                if p.returncode != want_rc or len(outs) != want_out:
                    ck.fail_input("C17:run-space-flag-misses-the-run-space-in-force:%s:%s:%s" % (place, flag, "keys-optional" if nodes is fixed else "keys-required"),
                                  "run space of 3 runs written %s, `%s`: exit code %d with output files %s; expected exit %d and %d file(s)"
                                  % (place, " ".join(args), p.returncode, outs, want_rc, want_out),
                                  {"kind": "placement", "place": place, "argv": argv, "yaml": yaml.safe_dump(doc, sort_keys=False), "stderr": p.stderr[-300:]})
            except Exception as ex:  # noqa
                ck.corr_problem("placement oracle could not run (%s, %s)" % (place, flag), repr(ex)[:300])
            finally:
                shutil.rmtree(d, ignore_errors=True)
    placement_correspondence(ck, observed)
    return n


PLACEMENT_HEADER = """From Coq Require Import List String ZArith Bool. Import ListNotations. Open Scope string_scope.
From SV Require Import Model.RunSpace Model.Loader Model.Placement Gen.RunSpaceGen Gen.LoaderGen Gen.PlacementGen.
Definition real : raw_spec := mkRawSpec None None None [mkRawBlock ByPosition (Some [("value", [VInt 1; VInt 2; VInt 3])]) None].
Definition decoy : raw_spec := mkRawSpec None None None [mkRawBlock ByPosition (Some [("value", [VInt 9])]) None].
Definition cases : list pcase := [
%s
].
Eval vm_compute in pbad LoaderGen.impl RunSpaceGen.impl PlacementGen.loader_prio PlacementGen.cli_patch cases 0.
"""


def placement_correspondence(ck, observed):
    """Model/Placement.v (with the two facts the translator read) against what `semantiva run` did in the placement oracle's
    launches of the keys-optional pipeline: exit code and number of files, predicted from the block the model says is in
    force after the flags were written.  The last case is a canary that must mismatch."""
    docs = {"top": "mkDoc (Some real) None", "nested": "mkDoc None (Some real)", "top+nested-decoy": "mkDoc (Some real) (Some decoy)",
            "file": "mkDoc None None", "file+nested-decoy": "mkDoc None (Some decoy)", "none": "mkDoc None None"}
    fls = {"cap-2": ("(Some 2%Z)", "false"), "dry-run": ("None", "true"), "cap-3": ("(Some 3%Z)", "false")}
    lits = []
    for place, flag, rc, nfiles in observed:
        cap, dry = fls[flag]
        fl = "mkFlags %s %s %s" % ("(Some real)" if place.startswith("file") else "None", cap, dry)
        lits.append("((%s, %s), (%d%%Z, %d%%nat))" % (docs[place], fl, rc, nfiles))
    if not lits:
        return
    lits.append("((mkDoc (Some real) None, mkFlags None (Some 2%Z) false), (0%Z, 7%nat))")      # canary
    per, errs = core.mismatches("C17_placement", [PLACEMENT_HEADER % ";\n".join(lits)], timeout=300)
    for k, rc, out in errs:
        ck.corr_problem("placement correspondence did not evaluate (rc=%s)" % rc, out)
    if per and per[0] is not None:
        bad = per[0][0]
        if len(observed) not in bad:
            ck.corr_problem("canary case of the placement correspondence was not reported as a mismatch (comparison is not live)", "")
        for b in [x for x in bad if x != len(observed)][:4]:
            place, flag, rc, nfiles = observed[b]
            ck.corr_problem("Model/Placement.v predicts another outcome than `semantiva run` showed",
                            "run space written %s, flag %s: observed exit %d with %d file(s)" % (place, flag, rc, nfiles),
                            case={"place": place, "flag": flag, "exit": rc, "files": nfiles})
        ck.notes["placement_correspondence"] = {"cases": len(observed), "disagreements": len([x for x in bad if x != len(observed)])}


def replay(obj):
    r = obj["replay"]
    case = r["case"]
    for n in case["nodes"]:
        if "segs" in n:
            n["segs"] = [tuple(s) for s in n["segs"]]
    print("argv:", " ".join(argv_of(case)))
    if case["file"] != "missing":
        print(yaml_text(case))
    o = run_case(case)
    print(json.dumps({k: o.get(k) for k in ("rc", "sinks", "trace_files", "runs", "stages", "stderr")}, indent=1))
    return 0


TRUSTED = [
    "Coq 8.16.1 kernel (coqc), vm_compute; no native_compute",
    "models: coq/Model/Cli.v (interpreter of the generated decision chain; stage conditions composed from Model/Inspect.v, Model/RunSpace.v, Model/Pipeline.v)",
    "translator harness/translate/cli.py: every `return` of _run attributed to a stage (fail closed), EXIT_* table, cli.rst exit-code list, "
    "loop shape, JsonlTraceDriver.__init__ opens nothing",
    "correspondence harness harness/props/c17.py: subprocess runs, file-system listing of a fresh directory, trace parsing (record_type / status / run_space_index)",
    "request facts that are not modelled further (unreadable file, malformed --set/--context item, unknown processor, unknown trace driver, attempt < 1) "
    "enter the model as the list q_fail; their exit code and absence of effects are checked by correspondence and by the direct oracles",
    "KeyboardInterrupt (exit 5) and argparse usage errors (exit 1) are outside the model (the codes are in the generated table)",
]
FINISH = {"level": "proof", "assumptions": [
    "whether a required context key is 'required' is what the inspection reports (its soundness is C02): a use-before-create pipeline passes the gate "
    "while Gen/InspectGen.v says order_sensitive = false",
    "constructing Pipeline(...) and the trace driver before the run-space checks runs no node and opens no file (generated fact trace_lazy + correspondence)"]}
